"""PKI kit: X.509 hierarchies, OCSP responses and a local TSA, generated with the openssl CLI (offline)."""
import os, subprocess, shutil, hashlib, base64

OPENSSL = "/root/miniconda/bin/openssl" if os.path.exists("/root/miniconda/bin/openssl") else (shutil.which("openssl") or "openssl")


class KitError(Exception):
    pass


def run(args, cwd=None, inp=None):
    p = subprocess.run([OPENSSL] + args, cwd=cwd, input=inp, capture_output=True)
    if p.returncode != 0:
        raise KitError("openssl %s failed: %s" % (" ".join(args[:3]), p.stderr.decode(errors="replace")[-400:]))
    return p.stdout


def genkey(path, kind="ec256"):
    if kind == "ec256":
        run(["genpkey", "-algorithm", "EC", "-pkeyopt", "ec_paramgen_curve:P-256", "-out", path])
    elif kind == "ec384":
        run(["genpkey", "-algorithm", "EC", "-pkeyopt", "ec_paramgen_curve:P-384", "-out", path])
    elif kind == "ec224":
        run(["genpkey", "-algorithm", "EC", "-pkeyopt", "ec_paramgen_curve:P-224", "-out", path])
    elif kind == "ed25519":
        run(["genpkey", "-algorithm", "ED25519", "-out", path])
    elif kind.startswith("rsa"):
        run(["genpkey", "-algorithm", "RSA", "-pkeyopt", "rsa_keygen_bits:%s" % kind[3:], "-out", path])
    else:
        raise KitError("key kind " + kind)


CA_EXT = "basicConstraints=critical,CA:TRUE\nkeyUsage=critical,keyCertSign,cRLSign\nsubjectKeyIdentifier=hash\nauthorityKeyIdentifier=keyid\n"
LEAF_EXT = "basicConstraints=critical,CA:FALSE\nkeyUsage=critical,digitalSignature\nextendedKeyUsage=emailProtection\nsubjectKeyIdentifier=hash\nauthorityKeyIdentifier=keyid\n"


def selfsigned(d, name, cn, kind="ec256", days=3650, ext=CA_EXT, digest="-sha256", start=None, end=None):
    key, crt, extf = os.path.join(d, name + ".key"), os.path.join(d, name + ".pem"), os.path.join(d, name + ".ext")
    genkey(key, kind)
    open(extf, "w").write("[v3]\n" + ext.replace("authorityKeyIdentifier=keyid\n", ""))
    args = ["req", "-x509", "-new", "-key", key, "-subj", "/CN=%s/O=vh" % cn, "-out", crt, "-config", "/dev/null", "-extensions", "v3"]
    # req -x509 needs a config with the extension section
    cfg = os.path.join(d, name + ".cnf")
    open(cfg, "w").write("[req]\ndistinguished_name=dn\nprompt=no\n[dn]\nCN=%s\nO=vh\n[v3]\n%s" % (cn, ext.replace("authorityKeyIdentifier=keyid\n", "")))
    args = ["req", "-x509", "-new", "-key", key, "-out", crt, "-config", cfg, "-extensions", "v3"] + ([digest] if kind != "ed25519" else [])
    if start and end:
        args += ["-not_before", start, "-not_after", end]
    else:
        args += ["-days", str(days)]
    run(args)
    return key, crt


def issue(d, name, cn, ca_key, ca_crt, kind="ec256", ext=LEAF_EXT, days=365, digest="-sha256", start=None, end=None, extra_args=None):
    key, csr, crt, extf = [os.path.join(d, name + s) for s in (".key", ".csr", ".pem", ".ext")]
    genkey(key, kind)
    cfg = os.path.join(d, name + ".cnf")
    open(cfg, "w").write("[req]\ndistinguished_name=dn\nprompt=no\n[dn]\nCN=%s\nO=vh\n" % cn)
    run(["req", "-new", "-key", key, "-out", csr, "-config", cfg])
    open(extf, "w").write(ext)
    args = ["x509", "-req", "-in", csr, "-CA", ca_crt, "-CAkey", ca_key, "-CAcreateserial", "-out", crt]
    if ext.strip():
        args += ["-extfile", extf]
    if start and end:
        args += ["-not_before", start, "-not_after", end]
    else:
        args += ["-days", str(days)]
    if digest:
        args.append(digest)
    args += (extra_args or [])
    run(args)
    p8 = os.path.join(d, name + ".p8")
    run(["pkcs8", "-topk8", "-nocrypt", "-in", key, "-out", p8])
    return key, crt, p8


def cat(paths, out):
    with open(out, "w") as f:
        for p in paths:
            f.write(open(p).read())
    return out


def cert_hash_b64(pem_path):
    der = run(["x509", "-in", pem_path, "-outform", "DER"])
    return base64.b64encode(hashlib.sha256(der).digest()).decode()


OCSP_EXT = "basicConstraints=critical,CA:FALSE\nkeyUsage=critical,digitalSignature\nextendedKeyUsage=OCSPSigning\nsubjectKeyIdentifier=hash\nauthorityKeyIdentifier=keyid\n"


def serial_of(pem):
    return run(["x509", "-in", pem, "-noout", "-serial"]).decode().strip().split("=")[1]


def ocsp_response(d, name, ca_crt, ca_key, responder_crt, responder_key, about_crt, status, ndays=7):
    """an OCSP response for `about_crt` with the given status (good | revoked | unknown), signed by the responder"""
    idx = os.path.join(d, name + ".index")
    ser = serial_of(about_crt)
    subj = "/CN=x"
    if status == "good":
        open(idx, "w").write("V\t350101000000Z\t\t%s\tunknown\t%s\n" % (ser, subj))
    elif status == "revoked":
        open(idx, "w").write("R\t350101000000Z\t240101000000Z\t%s\tunknown\t%s\n" % (ser, subj))
    else:
        open(idx, "w").write("")
    open(idx + ".attr", "w").write("unique_subject = no\n")
    req = os.path.join(d, name + ".req")
    resp = os.path.join(d, name + ".resp")
    run(["ocsp", "-issuer", ca_crt, "-cert", about_crt, "-no_nonce", "-reqout", req])
    run(["ocsp", "-index", idx, "-CA", ca_crt, "-rsigner", responder_crt, "-rkey", responder_key, "-reqin", req, "-respout", resp, "-ndays", str(ndays)])
    return resp


TSA_EXT = "basicConstraints=critical,CA:FALSE\nkeyUsage=critical,digitalSignature\nextendedKeyUsage=critical,timeStamping\nsubjectKeyIdentifier=hash\nauthorityKeyIdentifier=keyid\n"


def tsa_config(d, name, tsa_crt, tsa_key, chain_pem, digest="sha256"):
    """an `openssl ts -reply` configuration; returns its path"""
    cfg = os.path.join(d, name + ".tsa.cnf")
    serial = os.path.join(d, name + ".tsaserial")
    open(serial, "w").write("01\n")
    open(cfg, "w").write("""[tsa]
default_tsa = tsa_config
[tsa_config]
dir = %s
serial = %s
crypto_device = builtin
signer_cert = %s
certs = %s
signer_key = %s
signer_digest = %s
default_policy = 1.2.3.4.1
digests = sha256, sha384, sha512
accuracy = secs:1
ordering = yes
tsa_name = yes
ess_cert_id_chain = no
ess_cert_id_alg = sha256
""" % (d, serial, tsa_crt, chain_pem, tsa_key, digest))
    return cfg


def ocsp_response_multi(d, name, ca_crt, ca_key, responder_crt, responder_key, entries, ndays=7):
    """one OCSP response with several SingleResponses, in the order of `entries` = [(cert_pem, status), ...]"""
    idx = os.path.join(d, name + ".index")
    lines = []
    for crt, status in entries:
        ser = serial_of(crt)
        if status == "good":
            lines.append("V\t350101000000Z\t\t%s\tunknown\t/CN=x" % ser)
        elif status == "revoked":
            lines.append("R\t350101000000Z\t240101000000Z\t%s\tunknown\t/CN=x" % ser)
    open(idx, "w").write("\n".join(lines) + ("\n" if lines else ""))
    open(idx + ".attr", "w").write("unique_subject = no\n")
    req = os.path.join(d, name + ".req")
    resp = os.path.join(d, name + ".resp")
    args = ["ocsp", "-issuer", ca_crt]
    for crt, _ in entries:
        args += ["-cert", crt]
    run(args + ["-no_nonce", "-reqout", req])
    run(["ocsp", "-index", idx, "-CA", ca_crt, "-rsigner", responder_crt, "-rkey", responder_key, "-reqin", req, "-respout", resp, "-ndays", str(ndays)])
    return resp
