#!/usr/bin/env python3
"""mkreport.py: regenerate the generated tables of DESIGN.md section 10 (between the markers) from MANIFEST.json,
known_findings.json and seeded/*/meta.json."""
import json, os, glob, re
ROOT = os.path.dirname(os.path.dirname(os.path.abspath(__file__)))
m = json.load(open(os.path.join(ROOT, "MANIFEST.json")))
k = json.load(open(os.path.join(ROOT, "known_findings.json")))
out = []
out.append("### 10.2 Checks as built (generated from MANIFEST.json)\n")
out.append("| id | level | technique (deciding method) |")
out.append("|---|---|---|")
for c in m["checks"]:
    out.append("| %s | %s | %s |" % (c["property_id"], c["level_claimed"]["category"], c["technique"].replace("|", "/")))
out.append("")
out.append("### 10.3 Genuine defects repaired (`fix:` commits in /repo; generated from known_findings.json)\n")
out.append("| property | commit | what failed |")
out.append("|---|---|---|")
seen = set()
for e in k:
    if e["status"] == "fixed":
        what = re.sub(r"^fixed: property=\S+ \S+ ", "", e["what"])
        key = (e["property"], e.get("commit"), what[:60])
        if key in seen:
            continue
        seen.add(key)
        out.append("| %s | %s | %s |" % (e["property"], e.get("commit", ""), what.replace("|", "/")))
out.append("")
out.append("### 10.4 Known findings (genuine, recorded, not repaired; the checks print KNOWN-FINDING and exit 0)\n")
out.append("| property | key | what fails |")
out.append("|---|---|---|")
for e in k:
    if e["status"] == "known":
        out.append("| %s | `%s` | %s |" % (e["property"], e["key"], e["what"].replace("|", "/")))
out.append("")
out.append("### 10.5 Seeded changes (generated from seeded/*/meta.json)\n")
out.append("| id | property | what the change breaks | needs | caught by | initially missed | strengthening |")
out.append("|---|---|---|---|---|---|---|")
for f in sorted(glob.glob(os.path.join(ROOT, "seeded", "*", "meta.json"))):
    d = json.load(open(f))
    sid = os.path.basename(os.path.dirname(f))
    out.append("| %s | %s | %s | %s | %s | %s | %s |" % (sid, d["property"], d["breaks"].replace("|", "/"), d["needs"].replace("|", "/"), d["caught_by"].replace("|", "/"), "yes" if d.get("initially_missed") else "no", (d.get("strengthening") or "").replace("|", "/")))
metas = [json.load(open(f)) for f in sorted(glob.glob(os.path.join(ROOT, "seeded", "*", "meta.json")))]
nm = sum(1 for d in metas if d.get("initially_missed"))
out.append("Totals: %d confirmed seeded changes over %d properties; %d caught by the checks as first built, %d missed at first and caught after the strengthening named in their row; all are caught by the quick tier now.\n" % (len(metas), len({d["property"] for d in metas}), len(metas) - nm, nm))
out.append("")
text = "\n".join(out)
p = os.path.join(ROOT, "DESIGN.md")
s = open(p).read()
a, b = "<!-- GENERATED:BEGIN -->", "<!-- GENERATED:END -->"
if a in s and b in s:
    s = s[: s.index(a) + len(a)] + "\n" + text + "\n" + s[s.index(b):]
    open(p, "w").write(s)
    print("updated", len(out), "lines")
else:
    print(text)
