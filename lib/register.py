#!/usr/bin/env python3
"""register.py ID level "text" "note" "technique" [design_ref] -- add/replace a check entry in MANIFEST.json"""
import json, sys, os
ROOT = os.path.dirname(os.path.dirname(os.path.abspath(__file__)))
pid, level, text, note, tech = sys.argv[1:6]
ref = sys.argv[6] if len(sys.argv) > 6 else "DESIGN.md section 4 " + pid
m = json.load(open(os.path.join(ROOT, "MANIFEST.json")))
m["checks"] = [c for c in m["checks"] if c["property_id"] != pid]
m["checks"].append({"property_id": pid, "quick_cmd": "bin/check %s --tier quick" % pid,
                    "thorough_cmd": "bin/check %s --tier thorough" % pid, "evidence_file": "evidence/%s.json" % pid,
                    "replay_cmd_template": "bin/check %s --replay {path}" % pid, "engine": "tlc+vh",
                    "level_claimed": {"category": level, "text": text, "design_ref": ref},
                    "level_note": note, "technique": tech})
m["checks"].sort(key=lambda c: c["property_id"])
m["not_applicable"] = [x for x in m.get("not_applicable", []) if x["property_id"] != pid]
ids = sorted(c["property_id"] for c in m["checks"])
for e in m.get("engines", []):
    e["serves_properties"] = ids
json.dump(m, open(os.path.join(ROOT, "MANIFEST.json"), "w"), indent=1)
print("registered", pid, "claimed:", len(ids), "n/a:", len(m["not_applicable"]))
