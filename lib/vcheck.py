#!/usr/bin/env python3
"""Driver library for /verif checks (see DESIGN.md section 1.1).

A check is a python module checks/<id>.py exposing run(ctx).  The library provides:
  * build of the harness (path-dependency on /repo, hooks enabled) under a file lock
  * TLC invocation (model checking, vector export, trace validation, oracle evaluation)
  * VIOLATION / KNOWN-FINDING / DRIFT reporting, replay files, evidence files
Exit codes: 0 held, 1 VIOLATION printed, 2 tool error of our own tooling.
"""
import sys, os, json, subprocess, time, fcntl, hashlib, re, shutil, importlib, traceback, random

ROOT = os.path.dirname(os.path.dirname(os.path.abspath(__file__)))
SPEC = os.path.join(ROOT, "spec")
BUILD = os.path.join(ROOT, "build")
HARNESS = os.path.join(ROOT, "harness")
VH = os.path.join(HARNESS, "target", "debug", "vh")
JAVA_OPTS = "-Xss1g -Dtlc2.tool.queue.IStateQueue=StateDeque"
LEVELS = ("exploration", "fault_enumeration", "model_checking", "proof", "translation_validation", "other")


class ToolError(Exception):
    pass


def log(*a):
    print(*a, flush=True)


def sh(cmd, **kw):
    return subprocess.run(cmd, shell=isinstance(cmd, str), **kw)


# ---------------------------------------------------------------- build
def build_harness(quiet=True):
    """cargo build of /verif/harness against /repo's current working tree (hooks on)."""
    os.makedirs(BUILD, exist_ok=True)
    lock = open(os.path.join(BUILD, "build.lock"), "w")
    fcntl.flock(lock, fcntl.LOCK_EX)
    try:
        t0 = time.time()
        env = dict(os.environ, CARGO_NET_OFFLINE="true")
        env.pop("RUSTFLAGS", None)  # .cargo/config.toml carries the guard cfg
        p = sh(["cargo", "build", "--offline", "-q"], cwd=HARNESS, env=env,
               stdout=subprocess.PIPE, stderr=subprocess.STDOUT, text=True)
        if p.returncode != 0:
            sys.stderr.write(p.stdout[-6000:])
            raise ToolError("harness build failed")
        return time.time() - t0
    finally:
        fcntl.flock(lock, fcntl.LOCK_UN)
        lock.close()


def vh(args, stdin=None, timeout=3600, check=True, env=None):
    """Run the harness binary; returns CompletedProcess (text)."""
    e = dict(os.environ)
    e.setdefault("RUST_BACKTRACE", "0")
    if env:
        e.update(env)
    p = subprocess.run([VH] + [str(a) for a in args], input=stdin, stdout=subprocess.PIPE,
                       stderr=subprocess.PIPE, text=True, timeout=timeout, env=e)
    if check and p.returncode != 0:
        sys.stderr.write(p.stderr[-4000:])
        raise ToolError("vh %s exited %d" % (" ".join(map(str, args[:3])), p.returncode))
    return p


def read_ndjson(path):
    out = []
    with open(path) as f:
        for line in f:
            line = line.strip()
            if line:
                out.append(json.loads(line))
    return out


def write_ndjson(path, recs):
    with open(path, "w") as f:
        for r in recs:
            f.write(json.dumps(r, separators=(",", ":")) + "\n")


# ---------------------------------------------------------------- TLC
class TlcResult:
    def __init__(self, out, rc, wall):
        self.out, self.rc, self.wall = out, rc, wall
        m = re.search(r"(\d+) states generated, (\d+) distinct states found", out)
        self.generated = int(m.group(1)) if m else 0
        self.distinct = int(m.group(2)) if m else 0
        self.violated = bool(re.search(r"Error: Invariant .* is violated|Error: Action property .* is violated|"
                                       r"Error: Temporal properties were violated|Error: Temporal property .* was violated|Assumption .* is false|"
                                       r"Error: Deadlock reached", out))
        self.post_failed = "Postcondition" in out and ("violated" in out or "false" in out.lower().split("postcondition", 1)[1][:200])
        self.error = ("Error:" in out) or rc not in (0,)
        self.ok = (rc == 0) and not self.error

    def printed(self, tag):
        """Values printed with PrintT(<<tag, json-string>>) -> list of parsed json."""
        res = []
        pat = re.compile(r'^<<"%s", "(.*)">>$' % re.escape(tag))
        for line in self.out.splitlines():
            m = pat.match(line.strip())
            if m:
                s = m.group(1).replace('\\"', '"').replace("\\\\", "\\")
                try:
                    res.append(json.loads(s))
                except Exception:
                    pass
        return res

    def coverage(self):
        """action name -> (distinct, total) from -coverage output."""
        cov = {}
        for m in re.finditer(r"<(\w+) line \d+, col \d+ to line \d+, col \d+ of module (\w+)>: (\d+):(\d+)", self.out):
            cov[m.group(1)] = (int(m.group(3)), int(m.group(4)))
        return cov


def tlc(module, cfg=None, name=None, workers=4, timeout=600, env=None, simulate=None, depth=None,
        coverage=True, heap="4g", extra=None, seed=None):
    """Run TLC on spec/<module>.tla with spec/<cfg>; returns TlcResult. Raises ToolError on timeout/parse errors."""
    name = name or (cfg or module).replace(".cfg", "")
    meta = os.path.join(BUILD, "tlc", name + "_%d" % os.getpid())
    shutil.rmtree(meta, ignore_errors=True)
    os.makedirs(meta, exist_ok=True)
    e = dict(os.environ)
    e["JAVA_TOOL_OPTIONS"] = JAVA_OPTS + " -Xmx" + heap
    if env:
        e.update({k: str(v) for k, v in env.items()})
    cmd = ["timeout", str(timeout), "tlc", "-workers", str(workers), "-metadir", meta, "-cleanup",
           "-noGenerateSpecTE", "-deadlock" if False else "-nowarning"]
    if cfg:
        cmd += ["-config", cfg]
    if coverage and not simulate:
        cmd += ["-coverage", "1"]
    if simulate:
        cmd += ["-simulate", "num=%d" % simulate]
        if depth:
            cmd += ["-depth", str(depth)]
        if seed is not None:
            cmd += ["-seed", str(seed)]
    if extra:
        cmd += extra
    cmd += [module if module.endswith(".tla") else module + ".tla"]
    t0 = time.time()
    p = subprocess.run(cmd, cwd=SPEC, env=e, stdout=subprocess.PIPE, stderr=subprocess.STDOUT, text=True)
    wall = time.time() - t0
    shutil.rmtree(meta, ignore_errors=True)
    if p.returncode == 124:
        raise ToolError("TLC timeout on %s/%s after %ds" % (module, cfg, timeout))
    r = TlcResult(p.stdout, p.returncode, wall)
    if re.search(r"Parsing or semantic analysis failed|\*\*\* Errors:|Fatal errors while parsing|java.lang.\w*Error|"
                 r"TLC threw an unexpected exception|Error: TLC attempted to evaluate|Error: Evaluating|Error: The \w+ argument|Error: Attempted", p.stdout):
        sys.stderr.write(p.stdout[-5000:])
        raise ToolError("TLC evaluation/parse error in %s/%s" % (module, cfg))
    return r


def tlapm_prove(module, deps, timeout=900, threads=8):
    """Check the TLAPS proofs in spec/<module>.tla (unbounded; no constants are fixed) in a scratch copy.
    Returns the number of proof obligations; raises ToolError unless every obligation is proved."""
    d = os.path.join(BUILD, "tlapm", "%s_%d" % (module, os.getpid()))
    shutil.rmtree(d, ignore_errors=True)
    os.makedirs(d, exist_ok=True)
    for m in [module] + list(deps):
        shutil.copy(os.path.join(SPEC, m + ".tla"), d)
    p = subprocess.run(["timeout", str(timeout), "tlapm", "--threads", str(threads), module + ".tla"], cwd=d,
                       stdout=subprocess.PIPE, stderr=subprocess.STDOUT, text=True)
    m = re.search(r"All (\d+) obligations? proved", p.stdout)
    shutil.rmtree(d, ignore_errors=True)
    if p.returncode != 0 or not m:
        sys.stderr.write(p.stdout[-3000:])
        raise ToolError("tlapm: proofs of %s not all discharged (rc=%s)" % (module, p.returncode))
    return int(m.group(1))


def tlc_expect_ok(r, what):
    if not r.ok:
        sys.stderr.write(r.out[-5000:])
        raise ToolError("TLC run '%s' did not complete cleanly (rc=%d)" % (what, r.rc))
    return r


# ---------------------------------------------------------------- context / reporting
class Ctx:
    def __init__(self, pid, tier, seed, replay=None):
        self.pid, self.tier, self.seed, self.replay = pid, tier, seed, replay
        self.t0 = time.time()
        self.violations = []       # (key, what, path)
        self.known_hits = []
        self.drift = []
        self.rng = random.Random(seed)
        self.cov = {"samples": [], "states": 0, "transitions": 0, "traces_validated_against_impl": 0,
                    "evaluations": 0, "distinct_nontrivial": 0, "rule": ""}
        self.assumptions = []
        self.level = "model_checking"
        self.work = os.path.join(BUILD, "work", pid + "_" + tier)
        shutil.rmtree(self.work, ignore_errors=True)
        os.makedirs(self.work, exist_ok=True)
        kf = os.path.join(ROOT, "known_findings.json")
        self.known = json.load(open(kf)) if os.path.exists(kf) else []

    @property
    def quick(self):
        return self.tier == "quick"

    def path(self, name):
        return os.path.join(self.work, name)

    def add_tlc(self, r):
        self.cov["states"] += r.distinct
        self.cov["transitions"] += r.generated

    def sample(self, obj, cap=5):
        if len(self.cov["samples"]) < cap:
            self.cov["samples"].append(obj)

    def drift_note(self, module, what):
        if len(self.drift) < 50:
            self.drift.append({"module": module, "what": what})
        if len(self.drift) <= 5:
            log("DRIFT module=%s %s" % (module, what))

    def violation(self, key, what, case):
        """Report a property violation identified by `key` (stable id of the failing class)."""
        for k in self.known:
            if k.get("property") == self.pid and k.get("status") == "known" and key_matches(k.get("key", ""), key):
                if k["key"] not in [h["key"] for h in self.known_hits]:
                    self.known_hits.append({"key": k["key"], "what": k.get("what", what)})
                    log("KNOWN-FINDING: property=%s %s" % (self.pid, k.get("what", what)))
                return False
        if len(self.violations) >= 10:   # enough replay files; keep counting
            self.violations.append((key, what, None))
            return True
        d = os.path.join(ROOT, "replays", self.pid)
        os.makedirs(d, exist_ok=True)
        body = json.dumps({"property": self.pid, "key": key, "what": what, "case": case}, indent=1, sort_keys=True)
        h = hashlib.sha256(body.encode()).hexdigest()[:12]
        path = os.path.join(d, h + ".json")
        with open(path, "w") as f:
            f.write(body)
        if True:
            log("VIOLATION property=%s replay=%s" % (self.pid, path))
            log("  key=%s %s" % (key, what))
        self.violations.append((key, what, path))
        return True

    def write_evidence(self):
        cov = dict(self.cov)
        if self.drift:
            cov["drift"] = self.drift
        if self.known_hits:
            cov["known_findings_hit"] = self.known_hits
        if not cov["samples"]:
            cov["samples"] = ["(no cases)"]
        ev = {"property_id": self.pid, "tier": self.tier, "seed": self.seed, "level": self.level,
              "coverage": cov, "assumptions": self.assumptions, "wall_s": round(time.time() - self.t0, 2),
              "violations": len(self.violations)}
        os.makedirs(os.path.join(ROOT, "evidence"), exist_ok=True)
        with open(os.path.join(ROOT, "evidence", self.pid + ".json"), "w") as f:
            json.dump(ev, f, indent=1)


def key_matches(pattern, key):
    """known-finding key: exact, or prefix when the pattern ends with '*'."""
    if pattern.endswith("*"):
        return key.startswith(pattern[:-1])
    return pattern == key


def judge_with_tlc(ctx, module, cfg, recs, name=None, chunk=40000, timeout=600, heap="4g", extra_env=None):
    """Binding O: TLC evaluates a spec operator over recorded NDJSON records.
    The module reads IOEnv.TRACE and writes IOEnv.OUT (one verdict record per input record).
    Returns list of verdict records (same order)."""
    out_all = []
    for ci in range(0, len(recs), chunk):
        part = recs[ci:ci + chunk]
        tin = ctx.path("%s_in_%d.ndjson" % (name or module, ci))
        tout = ctx.path("%s_out_%d.ndjson" % (name or module, ci))
        write_ndjson(tin, part)
        if os.path.exists(tout):
            os.remove(tout)
        env = {"TRACE": tin, "OUT": tout}
        if extra_env:
            env.update(extra_env)
        r = tlc(module, cfg, name=(name or module) + "_O", workers=1, timeout=timeout, env=env, coverage=False, heap=heap)
        if "Assumption" in r.out and "is false" in r.out:
            sys.stderr.write(r.out[-3000:])
            raise ToolError("oracle evaluator assumption false in %s" % module)
        if not os.path.exists(tout):
            sys.stderr.write(r.out[-3000:])
            raise ToolError("oracle evaluator %s wrote no output" % module)
        res = read_ndjson(tout)
        if len(res) != len(part):
            raise ToolError("oracle evaluator %s returned %d verdicts for %d records" % (module, len(res), len(part)))
        out_all += res
    return out_all


def validate_trace(ctx, module, cfg, events, name=None, timeout=600, heap="4g", extra_env=None):
    """Binding T: TLC checks that `events` (list of dicts) is a behaviour of Trace_<M>.
    Returns (accepted: bool, matched_prefix_len: int, TlcResult)."""
    tin = ctx.path("%s_trace.ndjson" % (name or module))
    write_ndjson(tin, events)
    env = {"TRACE": tin}
    if extra_env:
        env.update(extra_env)
    r = tlc(module, cfg, name=(name or module) + "_T", workers=1, timeout=timeout, env=env, coverage=False, heap=heap)
    m = re.search(r'"TRACE_MATCHED", (\d+)', r.out)
    matched = int(m.group(1)) if m else -1
    accepted = r.rc == 0 and "TRACE_REJECTED" not in r.out and not r.violated and "Error:" not in r.out
    return accepted, matched, r


# ---------------------------------------------------------------- main
def sany_all():
    bad = 0
    for f in sorted(os.listdir(SPEC)):
        if f.endswith(".tla"):
            p = sh(["tla-sany", f], cwd=SPEC, stdout=subprocess.PIPE, stderr=subprocess.STDOUT, text=True)
            if p.returncode != 0 or "Semantic errors" in p.stdout or "Parse Error" in p.stdout or "*** Errors" in p.stdout:
                log("SANY FAIL", f)
                log(p.stdout[-1500:])
                bad += 1
    return bad


def setup():
    t = build_harness()
    log("harness built in %.0fs" % t)
    bad = sany_all()
    if bad:
        sys.exit(2)
    log("all spec modules parse")
    try:
        from checks.c32 import build_cli
        build_cli()
        log("c2patool built")
    except ImportError:
        pass
    sys.exit(0)


def main(argv):
    if "--setup" in argv:
        return setup()
    import argparse
    ap = argparse.ArgumentParser()
    ap.add_argument("pid")
    ap.add_argument("--tier", default=os.environ.get("VERIF_TIER", "quick"))
    ap.add_argument("--replay")
    ap.add_argument("--no-build", action="store_true")
    a = ap.parse_args(argv)
    tier = a.tier if a.tier in ("quick", "thorough") else "quick"
    try:
        seed = int(os.environ.get("VERIF_SEED", "1"))
    except ValueError:
        seed = 1
    ctx = Ctx(a.pid, tier, seed, a.replay)
    sys.path.insert(0, ROOT)
    try:
        mod = importlib.import_module("checks." + a.pid.lower())
        if not a.no_build and getattr(mod, "NEEDS_HARNESS", True):
            bt = build_harness()
            ctx.cov["build_s"] = round(bt, 1)
        mod.run(ctx)
        ctx.write_evidence()
    except ToolError as e:
        log("TOOL-ERROR property=%s %s" % (a.pid, e))
        sys.exit(2)
    except subprocess.TimeoutExpired as e:
        log("TOOL-ERROR property=%s timeout %s" % (a.pid, e))
        sys.exit(2)
    except Exception:
        traceback.print_exc()
        log("TOOL-ERROR property=%s internal error" % a.pid)
        sys.exit(2)
    if ctx.violations:
        from collections import Counter
        for key, n in Counter(v[0] for v in ctx.violations).most_common(40):
            log("  violation-class %s x%d" % (key, n))
        log("FAIL property=%s violations=%d" % (a.pid, len(ctx.violations)))
        sys.exit(1)
    log("OK property=%s tier=%s wall=%.1fs states=%d impl_traces=%d" % (
        a.pid, tier, time.time() - ctx.t0, ctx.cov["states"], ctx.cov["traces_validated_against_impl"]))
    sys.exit(0)


if __name__ == "__main__":
    main(sys.argv[1:])
