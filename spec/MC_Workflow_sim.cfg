SPECIFICATION Spec
CONSTANTS MaxOps = 6  MaxIng = 2  MaxArch = 3  Variants = FALSE
INVARIANTS Emit
CHECK_DEADLOCK FALSE
