CONSTANTS Base = 3000  Magnitudes = {3, 200, 40000, 70000}
SPECIFICATION HSpec
INVARIANT Emit
CHECK_DEADLOCK FALSE
