\* every gap 0..70000 between the unpadded and the reserved size
CONSTANT MaxGap = 70000
SPECIFICATION Spec
INVARIANT Fillable SkippedExactly CodedWindow
CHECK_DEADLOCK FALSE
