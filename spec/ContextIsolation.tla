--------------------------- MODULE ContextIsolation ---------------------------
(***************************************************************************)
(* C24 -- contexts shared across threads.                                  *)
(*                                                                         *)
(* A context carries a sticky cancel flag.  An operation started on a      *)
(* context passes a number of checkpoints; at each checkpoint the progress *)
(* callback is invoked first and the context's cancel flag is read after   *)
(* it (Context::check_progress), so one callback may still be observed     *)
(* after a cancel completed, never two.  Legacy settings live in a         *)
(* thread-local: only LegacySet on the same thread changes them; building  *)
(* Settings / Context values does not.                                     *)
(*                                                                         *)
(* Actions: Start(t, c), Callback(t), FlagRead(t), Finish(t), Cancel(c),   *)
(*          BuildSettings(t), LegacySet(t, v).                             *)
(* TLC explores every interleaving of Threads x Contexts and checks:       *)
(*   Isolation    an operation ends Cancelled only if its own context was  *)
(*                cancelled                                                *)
(*   CancelWins   an operation that read a set flag ends Cancelled; an     *)
(*                operation started after the cancel never completes       *)
(*   AtMostOneCallbackAfterCancel                                          *)
(*   TlsLocal     tls[t] changes only by LegacySet(t, _)                   *)
(***************************************************************************)
EXTENDS Naturals, FiniteSets, TLC

CONSTANTS Threads, Contexts, MaxCheckpoints, Values

VARIABLES cancelled,   \* [Contexts -> BOOLEAN]   the sticky flag
          op,          \* [Threads -> record]     the thread's current operation
          tls,         \* [Threads -> Values]     legacy thread-local settings
          done         \* [Threads -> the thread's most recently finished operation] (a full history multiplies states without adding behaviour)
vars == <<cancelled, op, tls, done>>

None == [t |-> CHOOSE t \in Threads : TRUE, c |-> CHOOSE c \in Contexts : TRUE, res |-> "none", after |-> 0, lateStart |-> FALSE, ctxCancelled |-> FALSE]
Idle == [st |-> "idle", c |-> CHOOSE c \in Contexts : TRUE, k |-> 0, after |-> 0, lateStart |-> FALSE]
Default == CHOOSE v \in Values : TRUE

Init == /\ cancelled = [c \in Contexts |-> FALSE]
        /\ op = [t \in Threads |-> Idle]
        /\ tls = [t \in Threads |-> Default]
        /\ done = [t \in Threads |-> None]

Start(t, c) == /\ op[t].st = "idle"
               /\ op' = [op EXCEPT ![t] = [st |-> "cb", c |-> c, k |-> 0, after |-> 0, lateStart |-> cancelled[c]]]
               /\ UNCHANGED <<cancelled, tls, done>>
\* checkpoint, first half: the progress callback runs
Callback(t) == /\ op[t].st = "cb" /\ op[t].k < MaxCheckpoints
               /\ op' = [op EXCEPT ![t].st = "flag", ![t].k = @ + 1,
                                   ![t].after = IF cancelled[op[t].c] THEN @ + 1 ELSE @]
               /\ UNCHANGED <<cancelled, tls, done>>
\* checkpoint, second half: the flag is read; a set flag ends the operation
FlagRead(t) == /\ op[t].st = "flag"
               /\ IF cancelled[op[t].c]
                  THEN /\ done' = [done EXCEPT ![t] = [t |-> t, c |-> op[t].c, res |-> "cancelled", after |-> op[t].after, lateStart |-> op[t].lateStart, ctxCancelled |-> TRUE]]
                       /\ op' = [op EXCEPT ![t] = Idle]
                  ELSE /\ op' = [op EXCEPT ![t].st = "cb"] /\ UNCHANGED done
               /\ UNCHANGED <<cancelled, tls>>
\* the operation completes after its last checkpoint (every operation has at least one)
Finish(t) == /\ op[t].st = "cb" /\ op[t].k >= 1
             /\ done' = [done EXCEPT ![t] = [t |-> t, c |-> op[t].c, res |-> "sequential", after |-> op[t].after, lateStart |-> op[t].lateStart, ctxCancelled |-> cancelled[op[t].c]]]
             /\ op' = [op EXCEPT ![t] = Idle]
             /\ UNCHANGED <<cancelled, tls>>
Cancel(c) == /\ ~cancelled[c] /\ cancelled' = [cancelled EXCEPT ![c] = TRUE] /\ UNCHANGED <<op, tls, done>>
BuildSettings(t) == /\ op[t].st = "idle" /\ UNCHANGED vars      \* Settings::new().with_json(..), Context::new().with_settings(..): no shared state
LegacySet(t, v) == /\ op[t].st = "idle" /\ tls' = [tls EXCEPT ![t] = v] /\ UNCHANGED <<cancelled, op, done>>

Next == \/ \E t \in Threads, c \in Contexts : Start(t, c)
        \/ \E t \in Threads : Callback(t) \/ FlagRead(t) \/ Finish(t) \/ BuildSettings(t)
        \/ \E c \in Contexts : Cancel(c)
        \/ \E t \in Threads, v \in Values : LegacySet(t, v)
Spec == Init /\ [][Next]_vars

Done == {done[t] : t \in Threads} \ {None}
Isolation == \A d \in Done : d.res = "cancelled" => d.ctxCancelled
CancelWins == \A d \in Done : d.lateStart => d.res = "cancelled"
AtMostOneCallbackAfterCancel == /\ \A d \in Done : d.after <= 1
                                /\ \A t \in Threads : op[t].after <= 1
LateStartNoSecondCallback == \A d \in Done : d.lateStart => d.after <= 1
TlsLocal == [][\A t \in Threads : tls'[t] # tls[t] => \E v \in Values : LegacySet(t, v)]_vars
TypeOK == /\ \A t \in Threads : op[t].st \in {"idle", "cb", "flag"} /\ op[t].k \in 0..MaxCheckpoints
\* witnesses (expected to be violated)
W_CancelledOp == \A d \in Done : d.res # "cancelled"
W_CallbackAfter == \A d \in Done : d.after = 0
W_SurvivesOtherCancel == ~(\E d \in Done : d.res = "sequential" /\ \E c \in Contexts : c # d.c /\ cancelled[c])
=============================================================================
