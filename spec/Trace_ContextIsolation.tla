---- MODULE Trace_ContextIsolation ----
(* Binding T for C24: the globally ordered event log of real multi-threaded scenarios is replayed on ContextIsolation's *)
(* state (cancelled, op, tls).  A cancel is logged as begin / end around Context::cancel(), so the flag is "begun"      *)
(* (may or may not be visible) between the two and "yes" after the end.  Start / finish are logged around the call, the *)
(* callback event inside the progress callback, which check_progress invokes BEFORE it reads the flag.                  *)
(* Events: reset | start t c | cb t c | finish t c res | cancel_begin c | cancel_end c | build t same | legacy t v | tls t trust *)
EXTENDS Naturals, Sequences, FiniteSets, TLC, Json, IOUtils
Rec == ndJsonDeserialize(IOEnv.TRACE)
T == 0..15
C == 0..2
VARIABLES l, cancelled, op, tls, bad
tvars == <<l, cancelled, op, tls, bad>>
Ev == Rec[l]
IdleOp == [active |-> FALSE, c |-> 0, after |-> 0, late |-> FALSE]
Fresh == /\ cancelled = [c \in C |-> "no"] /\ op = [t \in T |-> IdleOp] /\ tls = [t \in T |-> TRUE]
TInit == l = 1 /\ Fresh /\ bad = <<>>
Flag(S) == bad' = IF S = {} THEN bad ELSE Append(bad, <<l, S>>)
TReset == Ev.e = "reset" /\ cancelled' = [c \in C |-> "no"] /\ op' = [t \in T |-> IdleOp] /\ tls' = [t \in T |-> TRUE] /\ UNCHANGED bad
TStart == /\ Ev.e = "start"
          /\ op' = [op EXCEPT ![Ev.t] = [active |-> TRUE, c |-> Ev.c, after |-> 0, late |-> cancelled[Ev.c] = "yes"]]
          /\ UNCHANGED <<cancelled, tls, bad>>
TCallback == /\ Ev.e = "cb"
             /\ LET o == op[Ev.t]
                    a == IF cancelled[Ev.c] = "yes" THEN o.after + 1 ELSE o.after
                IN /\ op' = [op EXCEPT ![Ev.t].after = a]
                   /\ Flag( (IF ~o.active \/ o.c # Ev.c THEN {"callback-of-foreign-context"} ELSE {})
                       \cup (IF a > 1 THEN {"second-callback-after-cancel"} ELSE {}) )
             /\ UNCHANGED <<cancelled, tls>>
TFinish == /\ Ev.e = "finish"
           /\ LET o == op[Ev.t] IN
              Flag( (IF Ev.res = "cancelled" /\ cancelled[Ev.c] = "no" THEN {"cancelled-without-cancel"} ELSE {})
               \cup (IF Ev.res # "cancelled" /\ o.late THEN {"cancel-ignored-by-later-operation"} ELSE {})
               \cup (IF Ev.res = "differs" THEN {"result-differs-from-sequential"} ELSE {})
               \cup (IF Ev.res \notin {"cancelled", "sequential", "differs"} THEN {"error-under-concurrency"} ELSE {}) )
           /\ op' = [op EXCEPT ![Ev.t] = IdleOp]
           /\ UNCHANGED <<cancelled, tls>>
TCancelBegin == Ev.e = "cancel_begin" /\ cancelled' = [cancelled EXCEPT ![Ev.c] = IF @ = "yes" THEN "yes" ELSE "begun"] /\ UNCHANGED <<op, tls, bad>>
TCancelEnd == Ev.e = "cancel_end" /\ cancelled' = [cancelled EXCEPT ![Ev.c] = "yes"] /\ UNCHANGED <<op, tls, bad>>
TBuild == Ev.e = "build" /\ Flag(IF Ev.same THEN {} ELSE {"settings-build-changed-thread-local"}) /\ UNCHANGED <<cancelled, op, tls>>
TLegacy == Ev.e = "legacy" /\ tls' = [tls EXCEPT ![Ev.t] = IF Ev.ok THEN Ev.v ELSE @] /\ UNCHANGED <<cancelled, op, bad>>
TTls == Ev.e = "tls" /\ Flag(IF Ev.trust = tls[Ev.t] THEN {} ELSE {"thread-local-changed-from-elsewhere"}) /\ UNCHANGED <<cancelled, op, tls>>
TNext == l <= Len(Rec) /\ l' = l + 1 /\ (TReset \/ TStart \/ TCallback \/ TFinish \/ TCancelBegin \/ TCancelEnd \/ TBuild \/ TLegacy \/ TTls)
TSpec == TInit /\ [][TNext]_tvars
Accepted == LET d == TLCGet("stats").diameter IN PrintT(<<"TRACE_MATCHED", d - 1>>) /\ d - 1 = Len(Rec)
AtEnd == l = Len(Rec) + 1 => PrintT(<<"VERDICT", ToJson([bad |-> bad])>>)
====
