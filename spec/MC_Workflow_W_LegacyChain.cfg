SPECIFICATION Spec
CONSTANTS MaxOps = 3  MaxIng = 1  MaxArch = 0  Variants = TRUE
INVARIANTS W_LegacyChain
CHECK_DEADLOCK FALSE
