---- MODULE ResourceBounds_proofs ----
(***************************************************************************)
(* C10 -- unbounded (TLAPS) proof over ResourceBounds: for every input     *)
(* length and every configured limit, with the reserve cap in place, the   *)
(* depth, count, work and allocation bounds hold in every reachable state. *)
(***************************************************************************)
EXTENDS ResourceBounds, TLAPS

ASSUME Consts == /\ InputLen \in Nat /\ MaxDepth \in Nat /\ MaxInflate \in Nat /\ ReserveCap \in Nat
                 /\ MaxCount \in Nat /\ MaxDeclared \in Nat /\ Capped = TRUE

Used == InputLen - left
Inv == /\ left \in Nat /\ depth \in Nat /\ alloc \in Nat /\ count \in Nat /\ work \in Nat
       /\ left <= InputLen
       /\ depth <= MaxDepth
       /\ count <= MaxCount
       /\ work + depth <= 2 * Used
       /\ alloc <= MaxInflate + Used * ReserveCap

THEOREM InitInv == Init => Inv
  BY Consts DEF Init, Inv, Used

LEMMA Distrib == \A a, c \in Nat : (a + 1) * c = a * c + c
  OBVIOUS
LEMMA NonNeg == \A a, c \in Nat : a * c \in Nat
  OBVIOUS

THEOREM NextInv == Inv /\ [Next]_vars => Inv'
<1> SUFFICES ASSUME Inv, [Next]_vars PROVE Inv'
  OBVIOUS
<1> USE Consts DEF Inv, Used, Consume, Refuse
<1>1. CASE UNCHANGED vars  BY <1>1 DEF vars
<1>2. CASE Descend
  <2>1. CASE depth >= MaxDepth  BY <1>2, <2>1 DEF Descend
  <2>2. CASE ~(depth >= MaxDepth)
    <3>1. left' = left - 1 /\ work' = work + 1 /\ depth' = depth + 1 /\ alloc' = alloc /\ count' = count /\ left >= 1
      BY <1>2, <2>2 DEF Descend
    <3>2. (InputLen - left') = (InputLen - left) + 1  BY <3>1
    <3>3. (InputLen - left') * ReserveCap = (InputLen - left) * ReserveCap + ReserveCap  BY <3>1, <3>2, Distrib
    <3> QED BY <3>1, <3>2, <3>3, <2>2
  <2> QED BY <2>1, <2>2
<1>3. CASE Ascend  BY <1>3 DEF Ascend
<1>4. CASE Count
  <2>1. CASE count >= MaxCount  BY <1>4, <2>1 DEF Count
  <2>2. CASE ~(count >= MaxCount)
    <3>1. left' = left - 1 /\ work' = work + 1 /\ depth' = depth /\ alloc' = alloc /\ count' = count + 1 /\ left >= 1
      BY <1>4, <2>2 DEF Count
    <3>2. (InputLen - left') = (InputLen - left) + 1  BY <3>1
    <3>3. (InputLen - left') * ReserveCap = (InputLen - left) * ReserveCap + ReserveCap  BY <3>1, <3>2, Distrib
    <3> QED BY <3>1, <3>2, <3>3, <2>2
  <2> QED BY <2>1, <2>2
<1>5. CASE Finish  BY <1>5 DEF Finish
<1>6. ASSUME NEW n \in 1..MaxDeclared, Inflate(n) PROVE Inv'
  <2>1. CASE alloc + n > MaxInflate  BY <1>6, <2>1 DEF Inflate
  <2>2. CASE ~(alloc + n > MaxInflate)
    <3>1. left' = left - 1 /\ work' = work + 1 /\ depth' = depth /\ alloc' = alloc + n /\ count' = count /\ left >= 1
      BY <1>6, <2>2 DEF Inflate
    <3>2. (InputLen - left') = (InputLen - left) + 1  BY <3>1
    <3>3. (InputLen - left') * ReserveCap \in Nat  BY <3>1, <3>2, NonNeg
    <3> QED BY <3>1, <3>2, <3>3, <2>2
  <2> QED BY <2>1, <2>2
<1>7. ASSUME NEW n \in 1..MaxDeclared, Reserve(n) PROVE Inv'
  <3>1. left' = left - 1 /\ work' = work + 1 /\ depth' = depth /\ count' = count /\ left >= 1
        /\ alloc' = alloc + (IF n > ReserveCap THEN ReserveCap ELSE n)
    BY <1>7 DEF Reserve
  <3>2. (InputLen - left') = (InputLen - left) + 1  BY <3>1
  <3>3. (InputLen - left') * ReserveCap = (InputLen - left) * ReserveCap + ReserveCap  BY <3>1, <3>2, Distrib
  <3>4. (InputLen - left) * ReserveCap \in Nat  BY NonNeg
  <3> QED BY <3>1, <3>2, <3>3, <3>4
<1> QED BY <1>1, <1>2, <1>3, <1>4, <1>5, <1>6, <1>7 DEF Next

THEOREM InvImplies == Inv => DepthBounded /\ CountBounded /\ WorkBounded /\ AllocBounded
<1> SUFFICES ASSUME Inv PROVE DepthBounded /\ CountBounded /\ WorkBounded /\ AllocBounded
  OBVIOUS
<1> USE Consts DEF Inv, Used
<1>1. InputLen - left \in Nat /\ InputLen - left <= InputLen  OBVIOUS
<1>2. \A a, b, c \in Nat : a <= b => a * c <= b * c  OBVIOUS
<1>3. (InputLen - left) * ReserveCap <= InputLen * ReserveCap  BY <1>1, <1>2
<1>4. (InputLen - left) * ReserveCap \in Nat /\ InputLen * ReserveCap \in Nat  BY <1>1, NonNeg
<1> QED BY <1>1, <1>3, <1>4 DEF DepthBounded, CountBounded, WorkBounded, AllocBounded

THEOREM Safety == Init /\ [][Next]_vars => [](DepthBounded /\ CountBounded /\ WorkBounded /\ AllocBounded)
  BY InitInv, NextInv, InvImplies, PTL
====
