------------------------------- MODULE Stream -------------------------------
(***************************************************************************)
(* C35 -- stream chunking and I/O faults.                                   *)
(*                                                                          *)
(* A client (the SDK) runs a small program of I/O steps against a stream    *)
(* owned by the caller.  The stream may return fewer bytes than asked for   *)
(* (a short read / write is legal for std::io::Read / Write) and may fail.  *)
(*                                                                          *)
(* The client is modelled the way the SDK's helpers are written:            *)
(*   ReadExact(n)  : loop `read` until n bytes arrived; 0 bytes => error    *)
(*   ReadToEnd     : loop `read` until it returns 0                         *)
(*   WriteAll(n)   : loop `write` until n bytes were taken                  *)
(*   Seek(p), Flush                                                         *)
(*   SingleRead(n) : ONE `read` whose return value is taken as n -- the     *)
(*                   shape of jumbf_io::container_from_stream's sniffing    *)
(*                   read; it is in the model so that TLC can show that     *)
(*                   the invariants have teeth (MC_Stream_single.cfg        *)
(*                   expects ChunkingInvisible to fail)                     *)
(* and every error is propagated with `?`.                                  *)
(*                                                                          *)
(* TLC decides, over every program of <= MaxSteps steps, every choice of    *)
(* piece sizes and every fault position:                                    *)
(*   ChunkingInvisible : a finished run assembled / stored exactly the      *)
(*                       bytes a run with full-sized returns does           *)
(*   FaultsSurface     : a run in which some call failed never finishes Ok  *)
(*   NoLostWrites      : the bytes the stream holds are the bytes the       *)
(*                       client believes it wrote                           *)
(***************************************************************************)
EXTENDS Naturals, Sequences, FiniteSets, TLC

CONSTANTS DataLen,        \* length of the input held by the stream
          MaxSteps,       \* program length
          MaxChunk,       \* largest request
          AllowSingle     \* TRUE: programs may contain SingleRead

Steps == [k : {"ReadExact", "WriteAll"}, n : 1..MaxChunk]
           \cup [k : {"ReadToEnd", "Flush"}, n : {0}]
           \cup [k : {"Seek"}, n : 0..DataLen]
           \cup (IF AllowSingle THEN [k : {"SingleRead"}, n : 1..MaxChunk] ELSE {})

VARIABLES prog,      \* the program (sequence of steps), fixed per behaviour
          pc,        \* index of the current step
          got,       \* bytes of the current step already transferred
          pos,       \* stream position
          inbuf,     \* what the client assembled: sequence of input offsets, in order
          wrote,     \* what the client believes it wrote: sequence of <<position, tag>>
          disk,      \* what the stream holds: function position -> tag (or 0)
          faulted,   \* some call returned Err
          shorted,   \* some call returned less than asked (not at end of data)
          status     \* "run" | "ok" | "err"
vars == <<prog, pc, got, pos, inbuf, wrote, disk, faulted, shorted, status>>

MaxPos == DataLen + MaxSteps * MaxChunk

Init == /\ prog \in UNION {[1..n -> Steps] : n \in 1..MaxSteps}
        /\ pc = 1 /\ got = 0 /\ pos = 0 /\ inbuf = <<>> /\ wrote = <<>>
        /\ disk = [p \in 0..MaxPos |-> 0]
        /\ faulted = FALSE /\ shorted = FALSE /\ status = "run"

Cur == prog[pc]
Advance == /\ pc' = pc + 1 /\ got' = 0
           /\ status' = IF pc = Len(prog) THEN "ok" ELSE "run"
Stay(g) == pc' = pc /\ got' = g /\ status' = "run"
Range(a, n) == [i \in 1..n |-> a + i - 1]

\* one `read` call of the stream: the stream decides how much (1..want, bounded by what is left), or fails
ReadCall(want, m) == /\ m \in 0..want
                     /\ m <= DataLen - pos \/ (pos > DataLen /\ m = 0)
                     /\ (m = 0) <=> (pos >= DataLen)

Fail == /\ status = "run"
        /\ faulted' = TRUE /\ status' = "err"         \* `?` propagates the error
        /\ UNCHANGED <<prog, pc, got, pos, inbuf, wrote, disk, shorted>>

DoReadExact == /\ status = "run" /\ Cur.k = "ReadExact"
               /\ \E m \in 0..(Cur.n - got) :
                    /\ ReadCall(Cur.n - got, m)
                    /\ IF m = 0
                       THEN /\ status' = "err" /\ UNCHANGED <<pc, got, pos, inbuf, shorted>>   \* UnexpectedEof
                       ELSE /\ inbuf' = inbuf \o Range(pos, m) /\ pos' = pos + m
                            /\ shorted' = (shorted \/ m < Cur.n - got)
                            /\ IF got + m = Cur.n THEN Advance ELSE Stay(got + m)
               /\ UNCHANGED <<prog, wrote, disk, faulted>>

DoReadToEnd == /\ status = "run" /\ Cur.k = "ReadToEnd"
               /\ \E m \in 0..MaxChunk :
                    /\ ReadCall(MaxChunk, m)
                    /\ IF m = 0 THEN Advance /\ UNCHANGED <<pos, inbuf, shorted>>
                       ELSE /\ inbuf' = inbuf \o Range(pos, m) /\ pos' = pos + m
                            /\ shorted' = (shorted \/ (m < MaxChunk /\ pos + m < DataLen))
                            /\ Stay(0)
               /\ UNCHANGED <<prog, wrote, disk, faulted>>

\* the deliberately naive shape: one call, result assumed complete
DoSingleRead == /\ status = "run" /\ Cur.k = "SingleRead"
                /\ \E m \in 0..Cur.n :
                     /\ ReadCall(Cur.n, m)
                     /\ inbuf' = inbuf \o Range(pos, m) /\ pos' = pos + m
                     /\ shorted' = (shorted \/ (m < Cur.n /\ pos + m < DataLen))
                     /\ Advance
                /\ UNCHANGED <<prog, wrote, disk, faulted>>

DoWriteAll == /\ status = "run" /\ Cur.k = "WriteAll"
              /\ \E m \in 1..(Cur.n - got) :
                   /\ disk' = [p \in 0..MaxPos |-> IF p >= pos /\ p < pos + m THEN pc ELSE disk[p]]
                   /\ wrote' = wrote \o [i \in 1..m |-> <<pos + i - 1, pc>>]
                   /\ pos' = pos + m
                   /\ shorted' = (shorted \/ m < Cur.n - got)
                   /\ IF got + m = Cur.n THEN Advance ELSE Stay(got + m)
              /\ UNCHANGED <<prog, inbuf, faulted>>

DoSeek == /\ status = "run" /\ Cur.k = "Seek"
          /\ pos' = Cur.n /\ Advance
          /\ UNCHANGED <<prog, inbuf, wrote, disk, faulted, shorted>>

DoFlush == /\ status = "run" /\ Cur.k = "Flush"
           /\ Advance
           /\ UNCHANGED <<prog, pos, inbuf, wrote, disk, faulted, shorted>>

Done == status # "run" /\ UNCHANGED vars

Next == DoReadExact \/ DoReadToEnd \/ DoSingleRead \/ DoWriteAll \/ DoSeek \/ DoFlush \/ Fail \/ Done
Spec == Init /\ [][Next]_vars

-----------------------------------------------------------------------------
(* Reference: the same program against a stream that always returns everything asked for. *)
RECURSIVE Ref(_, _, _, _)
Ref(i, p, ib, ok) ==
  IF i > Len(prog) \/ ~ok THEN [inbuf |-> ib, ok |-> ok]
  ELSE LET s == prog[i] IN
       CASE s.k = "ReadExact"  -> IF p + s.n <= DataLen THEN Ref(i + 1, p + s.n, ib \o Range(p, s.n), TRUE)
                                  ELSE [inbuf |-> ib \o (IF p < DataLen THEN Range(p, DataLen - p) ELSE <<>>), ok |-> FALSE]
         [] s.k = "SingleRead" -> LET m == IF p >= DataLen THEN 0 ELSE IF p + s.n <= DataLen THEN s.n ELSE DataLen - p
                                  IN Ref(i + 1, p + m, ib \o Range(p, m), TRUE)
         [] s.k = "ReadToEnd"  -> LET m == IF p >= DataLen THEN 0 ELSE DataLen - p IN Ref(i + 1, p + m, ib \o Range(p, m), TRUE)
         [] s.k = "WriteAll"   -> Ref(i + 1, p + s.n, ib, TRUE)
         [] s.k = "Seek"       -> Ref(i + 1, s.n, ib, TRUE)
         [] OTHER              -> Ref(i + 1, p, ib, TRUE)

ChunkingInvisible == (status = "ok") => LET r == Ref(1, 0, <<>>, TRUE) IN r.ok /\ r.inbuf = inbuf
FaultsSurface     == faulted => status = "err"
NoLostWrites      == \A i \in 1..Len(wrote) :
                        (\A j \in (i + 1)..Len(wrote) : wrote[j][1] # wrote[i][1]) => disk[wrote[i][1]] = wrote[i][2]
ErrOnlyWithCause  == (status = "err") => faulted \/ ~Ref(1, 0, <<>>, TRUE).ok
TypeOK == /\ pc \in 1..(MaxSteps + 1) /\ status \in {"run", "ok", "err"} /\ pos \in 0..MaxPos

\* vacuity witnesses (expected to be violated)
W_ShortOk  == ~(status = "ok" /\ shorted /\ Len(inbuf) > 1)
W_FaultErr == ~(status = "err" /\ faulted /\ pc > 1)
=============================================================================
