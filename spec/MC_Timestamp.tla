---- MODULE MC_Timestamp ----
EXTENDS Timestamp, Json
Emit == PrintT(<<"VEC", ToJson([token |-> token, imprint |-> imprint, sig |-> sig, anchoring |-> anchoring, cert |-> cert, tsaAlg |-> tsaAlg, usable |-> Usable, reported |-> Reported, verdict |-> Verdict])>>)
====
