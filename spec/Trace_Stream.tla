---- MODULE Trace_Stream ----
(* Binding T for C35: every recorded run of a real operation (read / sign / ingredient / hash over a wrapper stream) is  *)
(* projected onto Stream's observable variables -- faulted, shorted, status -- plus `same` (its result equals the result *)
(* obtained with well-behaved streams), and Stream's invariants are evaluated on that projection after every run.        *)
(* Events: [e |-> "run", mode |-> "short" | "fault" | "sticky", reached, shorted, result |-> "ok" | "err" | "panic", same] *)
EXTENDS Stream, Json, IOUtils
Rec == ndJsonDeserialize(IOEnv.TRACE)
VARIABLES l, same, bad
tvars == <<vars, l, same, bad>>
Ev == Rec[l]
TInit == /\ prog = <<>> /\ pc = 1 /\ got = 0 /\ pos = 0 /\ inbuf = <<>> /\ wrote = <<>> /\ disk = <<>>
         /\ faulted = FALSE /\ shorted = FALSE /\ status = "run"
         /\ l = 1 /\ same = TRUE /\ bad = <<>>
\* the recorded run, as the final state of a Stream behaviour
TRun == /\ Ev.e = "run"
        /\ faulted' = (Ev.mode # "short" /\ Ev.reached)
        /\ shorted' = (Ev.mode = "short" /\ Ev.shorted > 0)
        /\ status' = (IF Ev.result = "ok" THEN "ok" ELSE "err")
        /\ same' = Ev.same
        /\ UNCHANGED <<prog, pc, got, pos, inbuf, wrote, disk>>
\* Stream's invariants on the projection (ChunkingInvisible's reference run is the recorded baseline: `same`)
TChunkingInvisible == (status = "ok" /\ ~faulted) => same
TErrOnlyWithCause  == (status = "err") => faulted          \* the baseline run succeeded, so an error needs a fault
Classes == (IF ~FaultsSurface' THEN {IF same' THEN "fault-hidden:same" ELSE "fault-hidden:differs"} ELSE {})
      \cup (IF ~TChunkingInvisible' THEN {"chunking-visible"} ELSE {})
      \cup (IF ~TErrOnlyWithCause' THEN {"error-without-fault"} ELSE {})
      \cup (IF Ev.result = "panic" THEN {"panic"} ELSE {})
TNext == l <= Len(Rec) /\ l' = l + 1 /\ TRun /\ bad' = (IF Classes = {} THEN bad ELSE Append(bad, <<l, Classes>>))
TSpec == TInit /\ [][TNext]_tvars
Accepted == LET d == TLCGet("stats").diameter IN PrintT(<<"TRACE_MATCHED", d - 1>>) /\ d - 1 = Len(Rec)
AtEnd == l = Len(Rec) + 1 => PrintT(<<"VERDICT", ToJson([bad |-> bad])>>)
====
