SPECIFICATION Spec
CONSTANTS MaxOps = 4  MaxIng = 2  MaxArch = 0  Variants = FALSE
INVARIANTS W_TamperedIng
CHECK_DEADLOCK FALSE
