---- MODULE Container ----
(***************************************************************************)
(* C07 C08 C09 C12 -- asset containers as sequences of segments.           *)
(* A segment is [kind, id]: "head" (signature / header), "media", "meta"   *)
(* (XMP, foreign chunks), "c2pa" (the manifest container; id = the store   *)
(* it carries), "tail" (data after the format's end marker).  Formats      *)
(* differ in where a new container is placed (Place) -- the properties do  *)
(* not depend on it.                                                       *)
(*   Write(s)   replace the manifest container (or insert one) with store s*)
(*   Remove     delete the manifest container                              *)
(*   Read       the store carried by the container, or "none"              *)
(***************************************************************************)
EXTENDS Naturals, Sequences, FiniteSets, TLC

CONSTANTS Stores,         \* store ids; Size[s] = its length class
          Size, Place     \* Place \in 1..3: index (among non-c2pa segments) after which a new container goes

VARIABLES asset, orig, last, prev, lastOp
vars == <<asset, orig, last, prev, lastOp>>
Seg(k, i) == [kind |-> k, id |-> i]
Layouts == { <<Seg("head", 1), Seg("media", 2), Seg("media", 3)>>,                          \* bare
             <<Seg("head", 1), Seg("meta", 9), Seg("media", 2), Seg("media", 3), Seg("tail", 4)>>,   \* XMP + trailing data
             <<Seg("head", 1), Seg("media", 2), Seg("c2pa", "old"), Seg("media", 3)>> }       \* media before and after an existing manifest
NonC2pa(a) == SelectSeq(a, LAMBDA x : x.kind # "c2pa")
Containers(a) == SelectSeq(a, LAMBDA x : x.kind = "c2pa")
Read(a) == IF Containers(a) = <<>> THEN "none" ELSE Containers(a)[1].id
InsertAt(a, n, x) == SubSeq(a, 1, n) \o <<x>> \o SubSeq(a, n + 1, Len(a))
IndexOfC2pa(a) == CHOOSE i \in 1..Len(a) : a[i].kind = "c2pa"

Init == asset \in Layouts /\ orig = asset /\ last = "none" /\ prev = asset /\ lastOp = "none"
Write(s) == /\ asset' = IF Containers(asset) # <<>>
                        THEN [asset EXCEPT ![IndexOfC2pa(asset)] = Seg("c2pa", s)]     \* replace in place
                        ELSE InsertAt(asset, IF Place < Len(asset) THEN Place ELSE Len(asset), Seg("c2pa", s))
            /\ last' = s /\ prev' = asset /\ lastOp' = "write" /\ UNCHANGED orig
Remove == asset' = NonC2pa(asset) /\ last' = "none" /\ prev' = asset /\ lastOp' = "remove" /\ UNCHANGED orig
Next == (\E s \in Stores : Write(s)) \/ Remove
Spec == Init /\ [][Next]_vars

\* ---- C07
ReadAfterWrite == lastOp = "write" => Read(asset) = last
SingleStore == lastOp = "write" => Len(Containers(asset)) = 1
RemoveClears == lastOp = "remove" => Read(asset) = "none"
\* ---- C09: the media content (every non-manifest segment, in order) never changes
MediaPreserved == NonC2pa(asset) = NonC2pa(orig)
RemoveIdempotent == lastOp = "remove" => asset = NonC2pa(orig)
\* ---- C08: a same-size replacement changes nothing but the container
SameSizeLocal == (lastOp = "write" /\ Containers(prev) # <<>> /\ Size[Read(prev)] = Size[last]) =>
                    \A i \in 1..Len(asset) : asset[i].kind # "c2pa" => asset[i] = prev[i]
\* ---- C12: the layout map (one range per segment, in order) is a partition of the file
Ranges(a) == [i \in 1..Len(a) |-> <<i, i + 1>>]      \* abstract offsets: segment i occupies [i, i+1)
MapOrderedDisjointCovering == LET r == Ranges(asset) IN
    /\ \A i \in 1..(Len(r) - 1) : r[i][2] = r[i + 1][1]
    /\ (Len(r) > 0 => r[1][1] = 1 /\ r[Len(r)][2] = Len(asset) + 1)
====
