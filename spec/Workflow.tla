------------------------------ MODULE Workflow ------------------------------
(***************************************************************************)
(* C38 / C39 / C22 / C40 -- one process, one library of assets, a history  *)
(* of operations:                                                          *)
(*   Sign(ings, arch, fl)  build a manifest with the listed ingredients    *)
(*                         (0 = an unsigned file, i > 0 = asset i of the   *)
(*                         library), save and restore the builder `arch`   *)
(*                         times through an archive, then sign with the    *)
(*                         synchronous or asynchronous entry point; with   *)
(*                         Variants the claim version and the ingredient   *)
(*                         entry point are chosen as well (a version-1     *)
(*                         claim only takes version-1 manifests)           *)
(*   Tamper(i)             a copy of signed asset i with one media byte    *)
(*                         changed                                         *)
(*   Read(i, fl)           read asset i (sync or async entry point)        *)
(*   Legacy                load values into the deprecated thread-local    *)
(*                         settings                                        *)
(* What a read of asset i reports is a function Desc(i) of how i was made  *)
(* and of nothing else -- not of the flavour, of archive round trips, of   *)
(* the thread-local settings, or of any other operation in the history.    *)
(* TLC checks that on every history (DescStable, FlavourInvisible,         *)
(* RestoreTransparent, LegacyInvisible, ManifestsCarried, UnsignedClean)   *)
(* and exports each history with its predictions; the harness replays the  *)
(* history in one process against the real SDK and every observation must  *)
(* equal the prediction.                                                   *)
(***************************************************************************)
EXTENDS Naturals, Sequences, FiniteSets, TLC

CONSTANTS MaxOps, MaxIng, MaxArch,
          Variants     \* TRUE: a Sign also chooses the claim version (1 | 2) and the way its signed ingredients come in
                       \* ("stream": add_ingredient_from_stream, "reader": a recorded ingredient taken over from a Reader);
                       \* FALSE: both are left to the replay harness (cv = 0, via = "any")

Flavours == {"sync", "async"}
VARIABLES assets,   \* the library: sequence of records
          hist,     \* the operations so far
          legacy    \* thread-local settings were touched
vars == <<assets, hist, legacy>>

N == Len(assets)
Signed(i) == assets[i].kind = "signed"

Init == assets = <<>> /\ hist = <<>> /\ legacy = FALSE

IngLists == UNION {[1..k -> 0..N] : k \in 0..MaxIng}

CVs == IF Variants THEN {1, 2} ELSE {0}
Vias == IF Variants THEN {"stream", "reader"} ELSE {"any"}
\* the claim version of the manifest inside asset i (a tampered copy keeps its original's)
CvOf(i) == IF assets[i].kind = "tampered" THEN assets[assets[i].base].cv ELSE assets[i].cv
Sign(ings, arch, fl, cv, via) ==
  /\ \A k \in 1..Len(ings) : IF cv = 1 /\ ings[k] # 0 THEN CvOf(ings[k]) = 1 ELSE TRUE
  /\ assets' = Append(assets, [kind |-> "signed", ings |-> ings, arch |-> arch, fl |-> fl, base |-> 0, cv |-> cv, via |-> via])
  /\ hist' = Append(hist, [op |-> "S", ings |-> ings, arch |-> arch, fl |-> fl, i |-> 0, cv |-> cv, via |-> via])
  /\ UNCHANGED legacy
Tamper(i) ==
  /\ Signed(i)
  /\ assets' = Append(assets, [kind |-> "tampered", ings |-> <<>>, arch |-> 0, fl |-> "sync", base |-> i, cv |-> 0, via |-> "any"])
  /\ hist' = Append(hist, [op |-> "T", ings |-> <<>>, arch |-> 0, fl |-> "sync", i |-> i])
  /\ UNCHANGED legacy
\* a read runs under a trust profile of its own context: "std" (the anchors cover the signer), "lean" (no anchor covers it) or
\* "rich" (the same anchors as lean plus user anchors that cover it).  Profiles of different contexts must not leak into each other.
Profiles == {"std", "lean", "rich"}
Read(i, fl, pf) ==
  /\ hist' = Append(hist, [op |-> "R", ings |-> <<>>, arch |-> (CASE pf = "std" -> 0 [] pf = "lean" -> 1 [] OTHER -> 2), fl |-> fl, i |-> i])
  /\ UNCHANGED <<assets, legacy>>
Legacy ==
  /\ ~legacy /\ legacy' = TRUE
  /\ hist' = Append(hist, [op |-> "L", ings |-> <<>>, arch |-> 0, fl |-> "sync", i |-> 0])
  /\ UNCHANGED assets

More == Len(hist) < MaxOps
DoSign   == More /\ \E ings \in IngLists, arch \in 0..MaxArch, fl \in Flavours, cv \in CVs, via \in Vias : Sign(ings, arch, fl, cv, via)
DoTamper == More /\ \E i \in 1..N : Tamper(i)
DoRead   == More /\ \E i \in 1..N, fl \in Flavours, pf \in Profiles : Read(i, fl, pf)
DoLegacy == More /\ Legacy
Next == DoSign \/ DoTamper \/ DoRead \/ DoLegacy
Spec == Init /\ [][Next]_vars

-----------------------------------------------------------------------------
(* What the SDK must report.  A library `as` is passed explicitly so that the same definitions can be evaluated *)
(* on variants of the library (all-sync, no archive round trips).                                               *)
Root(as, i) == IF as[i].kind = "tampered" THEN as[i].base ELSE i
State(as, i) == IF as[i].kind = "tampered" THEN "Invalid" ELSE "Trusted"

\* the signed assets whose manifests are inside asset i's store (ingredients only reference older assets)
RECURSIVE Manifests(_, _)
Manifests(as, i) ==
  LET r == Root(as, i) IN
  {r} \cup UNION {IF as[r].ings[k] = 0 THEN {} ELSE Manifests(as, as[r].ings[k]) : k \in 1..Len(as[r].ings)}

IngView(as, a) == [has_manifest |-> a # 0,
                   ok |-> (a = 0 \/ State(as, a) = "Trusted"),
                   title |-> IF a = 0 THEN 0 ELSE Root(as, a)]
Desc(as, i) == LET r == Root(as, i) IN
  [title |-> r, state |-> State(as, i), nman |-> Cardinality(Manifests(as, i)),
   ings |-> [k \in 1..Len(as[r].ings) |-> IngView(as, as[r].ings[k])]]

\* what a read under a profile reports as state: trust comes from the reading context alone
StateUnder(as, i, pf) == IF as[i].kind = "tampered" THEN "Invalid" ELSE IF pf = "lean" THEN "Valid" ELSE "Trusted"
ProfileLocal == \A i \in 1..N : StateUnder(assets, i, "lean") # "Trusted"
Plainly(as) == [i \in 1..Len(as) |-> [as[i] EXCEPT !.arch = 0, !.fl = "sync", !.cv = 0, !.via = "any"]]

\* ---- properties of the design
DescStable == [][\A i \in 1..N : Desc(assets', i) = Desc(assets, i)]_vars             \* C38: later operations change nothing
FlavourArchiveInvisible == \A i \in 1..N : Desc(assets, i) = Desc(Plainly(assets), i)   \* C40, C22; with Variants also C39 (claim version, entry point)
LegacyWellFormed == \A i \in 1..N : (Signed(i) /\ assets[i].cv = 1) => \A k \in 1..Len(assets[i].ings) : IF assets[i].ings[k] = 0 THEN TRUE ELSE CvOf(assets[i].ings[k]) = 1
ManifestsCarried == \A i \in 1..N : \A k \in 1..Len(assets[Root(assets, i)].ings) :
                       LET a == assets[Root(assets, i)].ings[k] IN a # 0 => Manifests(assets, a) \subseteq Manifests(assets, i)   \* C39
UnsignedClean == \A i \in 1..N : \A k \in 1..Len(Desc(assets, i).ings) :
                       LET v == Desc(assets, i).ings[k] IN ~v.has_manifest => v.ok   \* C39
TamperedIngredientRecorded == \A i \in 1..N : \A k \in 1..Len(assets[Root(assets, i)].ings) :
                       LET a == assets[Root(assets, i)].ings[k] IN
                       (a # 0 /\ assets[a].kind = "tampered") => ~Desc(assets, i).ings[k].ok   \* C39
TypeOK == /\ Len(hist) <= MaxOps /\ N <= MaxOps
          /\ \A i \in 1..N : \A k \in 1..Len(assets[i].ings) : assets[i].ings[k] < i

\* witnesses (expected to be violated): the interesting shapes are reachable
W_Chain == ~(\E i \in 1..N : Cardinality(Manifests(assets, i)) >= 3)
\* a version-2 manifest over a version-1 manifest that has a signed ingredient of its own (a chain held together by a legacy ingredient assertion)
W_LegacyChain == ~(\E i \in 1..N : Signed(i) /\ assets[i].cv = 2 /\ \E k \in 1..Len(assets[i].ings) :
                      LET a == assets[i].ings[k] IN a # 0 /\ Signed(a) /\ assets[a].cv = 1 /\ \E k2 \in 1..Len(assets[a].ings) : assets[a].ings[k2] # 0)
W_TamperedIng == ~(\E i \in 1..N : \E k \in 1..Len(Desc(assets, i).ings) : ~Desc(assets, i).ings[k].ok)
=============================================================================
