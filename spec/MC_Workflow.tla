---- MODULE MC_Workflow ----
EXTENDS Workflow, Json
\* every complete history with the predicted description of every asset (one line per history)
Emit == Len(hist) = MaxOps => PrintT(<<"VEC", ToJson([ops |-> hist, pred |-> [i \in 1..N |-> Desc(assets, i)]])>>)
\* with Variants: only the complete histories made of three signings (reads, tampering and the legacy settings are covered by the plain export)
EmitLegacy == (Len(hist) = MaxOps /\ \A k \in 1..Len(hist) : hist[k].op = "S") => PrintT(<<"VEC", ToJson([ops |-> hist, pred |-> [i \in 1..N |-> Desc(assets, i)]])>>)
\* simulation mode: emit at the end of each behaviour as well
====
