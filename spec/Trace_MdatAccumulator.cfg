CONSTANTS Total = 0  Leaf = 0  Skip = 0
SPECIFICATION TSpec
INVARIANT AtEnd
POSTCONDITION Accepted
CHECK_DEADLOCK FALSE
