---- MODULE HandleRegistry ----
(***************************************************************************)
(* C31 -- the C API's handle registry.  `tracked` maps an address to the   *)
(* type of the live handle stored there.  API calls are abstracted by      *)
(* their handle discipline:                                                *)
(*   Ctor(T)            returns a fresh handle (the allocator may reissue  *)
(*                      an address that was freed earlier)                 *)
(*   Borrow(a, T)       dereferences a only if it is a live handle of T    *)
(*   Consume(a, T, T2)  takes ownership of a (a is gone on every path      *)
(*                      after the untrack) and may return a handle of T2   *)
(*   Free(a)            releases a; NULL is always accepted                *)
(* Misuse (NULL, freed, wrong type, foreign pointer) must yield an error   *)
(* indicator with a retrievable message and never a dereference.           *)
(***************************************************************************)
EXTENDS Naturals, FiniteSets, TLC

CONSTANTS Addrs, Types, NULL

VARIABLES tracked,     \* [a \in live addresses -> Type]
          lastError,   \* "" or "set"
          derefBad     \* history flag: an invalid address was dereferenced
vars == <<tracked, lastError, derefBad>>
Live == DOMAIN tracked
Init == tracked = << >> /\ lastError = "" /\ derefBad = FALSE

Valid(a, T) == a \in Live /\ tracked[a] = T
Drop(a) == [x \in Live \ {a} |-> tracked[x]]
Add(f, a, T) == [x \in DOMAIN f \cup {a} |-> IF x = a THEN T ELSE f[x]]

Ctor(T, a) == /\ a \in Addrs \ Live                       \* the allocator never hands out a live address
              /\ tracked' = Add(tracked, a, T) /\ UNCHANGED <<lastError, derefBad>>
Borrow(a, T) == IF Valid(a, T) THEN UNCHANGED vars
                ELSE lastError' = "set" /\ UNCHANGED <<tracked, derefBad>>
\* result is an address outside Live \ {a} (success) or NULL (the operation failed after taking ownership)
Consume(a, T, T2, r) ==
  IF Valid(a, T)
  THEN /\ r \in (Addrs \ (Live \ {a})) \cup {NULL}
       /\ tracked' = (IF r = NULL THEN Drop(a) ELSE Add(Drop(a), r, T2))
       /\ lastError' = (IF r = NULL THEN "set" ELSE lastError) /\ UNCHANGED derefBad
  ELSE r = NULL /\ lastError' = "set" /\ UNCHANGED <<tracked, derefBad>>
Free(a) == IF a = NULL THEN UNCHANGED vars
           ELSE IF a \in Live THEN tracked' = Drop(a) /\ UNCHANGED <<lastError, derefBad>>
           ELSE lastError' = "set" /\ UNCHANGED <<tracked, derefBad>>
Next == \/ \E T \in Types, a \in Addrs : Ctor(T, a)
        \/ \E a \in Addrs \cup {NULL}, T \in Types : Borrow(a, T)
        \/ \E a \in Addrs \cup {NULL}, T \in Types, T2 \in Types, r \in Addrs \cup {NULL} : Consume(a, T, T2, r)
        \/ \E a \in Addrs \cup {NULL} : Free(a)
Spec == Init /\ [][Next]_vars

NoInvalidDeref == ~derefBad
\* a handle is released at most once: freeing an address that is not live never changes the registry
FreeOnce == [][\A a \in Addrs : (a \notin Live /\ Free(a)) => tracked' = tracked]_vars
\* every failure sets the error indicator
ErrorsReported == [][\A a \in Addrs \cup {NULL}, T \in Types : (~Valid(a, T) /\ Borrow(a, T)) => lastError' = "set"]_vars
TypeOK == \A a \in Live : tracked[a] \in Types
====
