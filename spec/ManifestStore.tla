---- MODULE ManifestStore ----
(***************************************************************************)
(* C02 -- tamper evidence of the manifest store.  A store is a set of      *)
(* manifests; each has a claim, a signature and assertions.  Integrity     *)
(* links:  sig(m) signs claim(m);  claim(m) carries the hash of each of    *)
(* its assertions;  an ingredient assertion of m that references manifest  *)
(* m2 carries the hash of m2's manifest box (claim + assertions) and of    *)
(* sig(m2).  The active manifest's signature is checked cryptographically. *)
(* A component is covered if it is reachable from the active signature     *)
(* through these links; tampering a covered component must make the store  *)
(* Invalid (or unreadable), never leave it Valid with a changed report.    *)
(***************************************************************************)
EXTENDS Naturals, Sequences, FiniteSets, TLC

CONSTANTS Manifests,      \* e.g. {1, 2, 3}; the largest is the active manifest
          NAssert         \* ordinary assertions per manifest

VARIABLES refs,           \* refs[m] = set of manifests referenced by m's ingredient assertions
          tampered,       \* the component that was modified, or <<"none">>
          verdict
vars == <<refs, tampered, verdict>>
Active == CHOOSE m \in Manifests : \A x \in Manifests : x <= m

Components == {<<"sig", m>> : m \in Manifests} \cup {<<"claim", m>> : m \in Manifests}
              \cup {<<"assertion", m, i>> : m \in Manifests, i \in 1..NAssert}
              \cup {<<"ingredient", m, t>> : m \in Manifests, t \in Manifests}
Exists(c) == IF c[1] = "ingredient" THEN c[3] \in refs[c[2]] ELSE TRUE

\* one integrity link: x covers y
Covers(x, y) ==
  \/ x[1] = "sig" /\ y = <<"claim", x[2]>>
  \/ x[1] = "claim" /\ y[1] \in {"assertion", "ingredient"} /\ y[2] = x[2]
  \/ x[1] = "ingredient" /\ Exists(x) /\ y \in {<<"claim", x[3]>>, <<"sig", x[3]>>}
  \/ x[1] = "ingredient" /\ Exists(x) /\ y[1] \in {"assertion", "ingredient"} /\ y[2] = x[3]   \* the manifest-box hash spans the assertion store
RECURSIVE ReachFrom(_, _)
ReachFrom(front, seen) ==
  LET nxt == {y \in Components : Exists(y) /\ y \notin seen /\ \E x \in front : Covers(x, y)} IN
  IF nxt = {} THEN seen ELSE ReachFrom(nxt, seen \cup nxt)
Reach == ReachFrom({<<"sig", Active>>}, {<<"sig", Active>>})

\* ingredient graphs: every manifest other than the active one is referenced from a later one (as the Builder produces them)
WellFormed(r) == /\ \A m \in Manifests : r[m] \subseteq {x \in Manifests : x < m}
                 /\ \A m \in Manifests \ {Active} : \E p \in Manifests : m \in r[p]
Init == /\ refs \in {r \in [Manifests -> SUBSET Manifests] : WellFormed(r)}
        /\ tampered = <<"none">> /\ verdict = "Valid"
Tamper(c) == /\ tampered = <<"none">> /\ Exists(c)
             /\ tampered' = c
             /\ verdict' = IF c \in Reach THEN "Invalid" ELSE "Valid"
             /\ UNCHANGED refs
Next == \E c \in Components : Tamper(c)
Spec == Init /\ [][Next]_vars

\* design lemma: in a well-formed store every existing component is covered from the active signature
AllCovered == \A c \in Components : Exists(c) => c \in Reach
\* hence no tampering of a component leaves the store Valid
StoreEvident == tampered # <<"none">> => verdict = "Invalid"

\* acceptance of one observation (binding O): outcome in {ReadErr, Invalid, Valid, Trusted}
Allowed(outcome, reportEqual) == outcome \in {"Valid", "Trusted"} => reportEqual
====
