---- MODULE Oracle_HardBinding ----
EXTENDS HardBinding, Json, IOUtils
Rec == ndJsonDeserialize(IOEnv.TRACE)
Out == [i \in 1..Len(Rec) |-> [ok |-> Allowed(Rec[i].state, Rec[i].excluded, Rec[i].report_equal)]]
ASSUME ndJsonSerialize(IOEnv.OUT, Out)
ONext == UNCHANGED vars
====
