CONSTANTS Names <- MCNames  Parent <- MCParent  InternalHosts <- MCInternal  GlobalHosts <- MCGlobal
          Schemes <- MCSchemes  Ports <- MCPorts  MaxRedirects = 10  Mode = "chain"
SPECIFICATION MCSpec
INVARIANT Emit
