SPECIFICATION Spec
CONSTANTS Threads = {t1, t2}  Contexts = {c1, c2}  MaxCheckpoints = 2  Values = {v0, v1}
INVARIANTS TypeOK Isolation CancelWins AtMostOneCallbackAfterCancel LateStartNoSecondCallback
PROPERTIES TlsLocal
CHECK_DEADLOCK FALSE
