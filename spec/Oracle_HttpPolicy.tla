---- MODULE Oracle_HttpPolicy ----
(* Binding R/O for C26 C27: each record is one real call of the policy stack: configuration (abstract), the requests   *)
(* the recording transport saw (projected to abstract URIs by the harness' independent classifier) and the result.    *)
(* TLC evaluates the properties of HttpPolicy on the observed request list.                                            *)
EXTENDS HttpPolicy, HttpPolicyClasses, Json, IOUtils
Rec == ndJsonDeserialize(IOEnv.TRACE)
HS(seq) == {seq[i] : i \in 1..Len(seq)}
Judge(r) ==
  LET s == r.recorded IN
  [ c26 |-> {k \in 1..Len(s) : ~Allowed(r.restricted, r.allow, s[k].uri)},
    else_disallowed |-> (s = <<>> /\ r.result # "uriDisallowed" /\ r.result # "badRequest"),
    internal |-> {k \in 2..Len(s) : s[k].uri.host \in InternalHosts},
    toomany |-> Len(s) > MaxRedirects + 1,
    disabled |-> (~r.allowRedirects /\ Len(s) > 1),
    creds |-> {k \in 2..Len(s) : HS(s[k].headers) \cap {"authorization", "cookie", "proxy-authorization", "host"} # {}},
    \* mirror comparison (DRIFT only): same number of requests, same targets, same result class
    drift |-> ~(Len(s) = Len(r.expected_sent) /\ r.result = r.expected_result
                /\ \A k \in 1..Len(s) : k <= Len(r.expected_sent) => s[k].uri = r.expected_sent[k].uri) ]
Out == [i \in 1..Len(Rec) |-> Judge(Rec[i])]
ASSUME ndJsonSerialize(IOEnv.OUT, Out)
ONext == UNCHANGED vars
OInit == /\ restricted = FALSE /\ allow = <<>> /\ allowRedirects = TRUE /\ script = <<>> /\ sent = <<>> /\ result = "ok"
         /\ req = [uri |-> [scheme |-> "https", host |-> "A", port |-> "none"], headers |-> {}]
====
