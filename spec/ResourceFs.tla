---- MODULE ResourceFs ----
(***************************************************************************)
(* C29 -- resource files are confined to the manifest directory.           *)
(* A small file system: paths are sequences of names from the area root;   *)
(* nodes are directories, files (with a content token) or symbolic links   *)
(* (target = a path relative to the link's directory).  The manifest root  *)
(* is <<"root">>; <<"outside">> holds sentinels.  RealLoc resolves a path  *)
(* the way the OS does (following links); an operation is confined iff     *)
(* everything it reads, creates or reveals has its real location under the *)
(* manifest root.                                                          *)
(***************************************************************************)
EXTENDS Naturals, Sequences, FiniteSets, TLC

Dir == [k |-> "dir", t |-> <<>>, c |-> "-"]
File(c) == [k |-> "file", t |-> <<>>, c |-> c]
Link(t) == [k |-> "link", t |-> t, c |-> "-"]
\* the tree materialised by the harness (same table there)
FS == (<<"root">> :> Dir) @@ (<<"outside">> :> Dir)
   @@ (<<"root", "a.txt">> :> File("A")) @@ (<<"root", "sub">> :> Dir) @@ (<<"root", "sub", "b.txt">> :> File("B"))
   @@ (<<"root", "sub", "deep">> :> Dir) @@ (<<"root", "sub", "deep", "c.txt">> :> File("C"))
   @@ (<<"outside", "secret.txt">> :> File("S")) @@ (<<"outside", "dir">> :> Dir) @@ (<<"outside", "dir", "t.txt">> :> File("T"))
   @@ (<<"root", "link_in">> :> Link(<<"sub">>))                            \* inside the root
   @@ (<<"root", "link_out">> :> Link(<<"..", "outside">>))                 \* directory outside
   @@ (<<"root", "link_file_out">> :> Link(<<"..", "outside", "secret.txt">>)) \* file outside
   @@ (<<"root", "chain">> :> Link(<<"link_out">>))                         \* link to a link
   @@ (<<"root", "dangling">> :> Link(<<"nowhere", "x">>))
   @@ (<<"root", "sub", "up_out">> :> Link(<<"..", "..", "outside", "dir">>))
Root == <<"root">>
IsPrefix(p, q) == Len(p) <= Len(q) /\ SubSeq(q, 1, Len(p)) = p
Inside(p) == IsPrefix(Root, p)
Parent(p) == IF p = <<>> THEN <<>> ELSE SubSeq(p, 1, Len(p) - 1)

\* Resolve(cur, comps, fuel): walk `comps` from the real directory `cur`.
\* Result: [ok, loc (real path of the final entry; may not exist), exists]; ok = FALSE when an intermediate entry is missing,
\* is not a directory, a link dangles, or the link depth is exceeded.
RECURSIVE Resolve(_, _, _)
Resolve(cur, comps, fuel) ==
  IF comps = <<>> THEN [ok |-> TRUE, loc |-> cur, exists |-> cur \in DOMAIN FS \/ cur = <<>>]
  ELSE LET c == Head(comps)  rest == Tail(comps) IN
       IF c = "." THEN Resolve(cur, rest, fuel)
       ELSE IF c = ".." THEN Resolve(Parent(cur), rest, fuel)
       ELSE LET p == Append(cur, c) IN
            IF p \notin DOMAIN FS
            THEN (IF rest = <<>> THEN [ok |-> TRUE, loc |-> p, exists |-> FALSE] ELSE [ok |-> FALSE, loc |-> p, exists |-> FALSE])
            ELSE IF FS[p].k = "link"
                 THEN (IF fuel = 0 THEN [ok |-> FALSE, loc |-> p, exists |-> FALSE]
                       ELSE LET r == Resolve(cur, FS[p].t, fuel - 1) IN
                            IF ~r.ok \/ ~r.exists THEN [ok |-> FALSE, loc |-> p, exists |-> FALSE]
                            ELSE IF rest # <<>> /\ r.loc \in DOMAIN FS /\ FS[r.loc].k = "file"
                                 THEN [ok |-> FALSE, loc |-> p, exists |-> FALSE]     \* cannot traverse through a file (ENOTDIR)
                            ELSE Resolve(r.loc, rest, fuel))
                 ELSE IF FS[p].k = "file" /\ rest # <<>> THEN [ok |-> FALSE, loc |-> p, exists |-> FALSE]
                 ELSE Resolve(p, rest, fuel)
RealLoc(base, id) == Resolve(base, id, 4)

\* ---- property layer: acceptance of one observed operation
\* obs: [op, base (path), id (components; "ABS" first = absolute path), result, content (token or "-"),
\*       touched (set of real paths created or modified), path (components returned by path_for_id)]
ContentLoc(c) == CHOOSE p \in DOMAIN FS : FS[p].k = "file" /\ FS[p].c = c
ReadOK(o)   == o.content # "-" => Inside(ContentLoc(o.content))       \* bytes returned only from files under the root
WriteOK(o)  == \A p \in o.touched : Inside(p)                         \* nothing created/modified outside
ExistsOK(o) == (o.op = "exists" /\ o.result = "true") =>              \* existence revealed only for entries under the root
                 LET r == RealLoc(o.base, o.id) IN r.ok /\ r.exists /\ Inside(r.loc)
PathOK(o)   == (o.op = "path_for_id" /\ o.result = "some") =>         \* a returned path never designates an existing outside entry
                 LET r == RealLoc(o.base, o.id) IN ~(r.ok /\ r.exists /\ ~Inside(r.loc))
Confined(o) == ReadOK(o) /\ WriteOK(o) /\ ExistsOK(o) /\ PathOK(o)
====
