---- MODULE Oracle_BoxMap ----
(* Binding O for C12: each record is the box list a handler computed for one real asset: len, ranges <<start, length, name>>. *)
(* Ordered by offset, non-overlapping, inside the file, and covering every byte (the C2PA entry included in the cover).       *)
EXTENDS Naturals, Sequences, FiniteSets, TLC, Json, IOUtils
Rec == ndJsonDeserialize(IOEnv.TRACE)
Judge(r) ==
  LET b == TLCEval(r.ranges)        \* force: TLC would otherwise re-evaluate the lazily bound value at every access
      n == Len(b)
      len == r.len
      \* the first uncovered byte, if any, is 0 or the end of some range: candidates not inside any range
      Cand == TLCEval({0} \cup {b[i][1] + b[i][2] : i \in 1..n})
      Unc  == TLCEval({p \in Cand : p < len /\ \A j \in 1..n : ~(b[j][1] <= p /\ p < b[j][1] + b[j][2])})
  IN [ ordered  |-> \A i \in 1..(n - 1) : b[i][1] <= b[i + 1][1],
       disjoint |-> \A i \in 1..(n - 1) : b[i][1] + b[i][2] <= b[i + 1][1],
       infile   |-> \A i \in 1..n : b[i][1] + b[i][2] <= len,
       gap      |-> IF Unc = {} THEN len + 1 ELSE CHOOSE p \in Unc : \A q \in Unc : p <= q ]
Out == [i \in 1..Len(Rec) |-> Judge(Rec[i])]
ASSUME ndJsonSerialize(IOEnv.OUT, Out)
====
