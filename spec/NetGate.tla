---- MODULE NetGate ----
(***************************************************************************)
(* C28 -- no network access unless the configuration enables it.           *)
(* A run = one SDK operation under a configuration on an asset; `sent` is  *)
(* the set of request kinds that reached the transport.                    *)
(***************************************************************************)
EXTENDS Naturals, FiniteSets, Sequences, TLC

Kinds == {"Manifest", "Ocsp", "Tsa", "Other"}
Assets == {"embedded", "remote_only", "remote_embedded", "unsigned", "ocsp_signed"}   \* ocsp_signed: signed with a certificate that names an OCSP responder
Ops == {"read", "sign", "ingredient"}

\* cfg: [rmf : BOOLEAN (verify.remote_manifest_fetch), ocsp : BOOLEAN (verify.ocsp_fetch),
\*       csf : {"none","active","all"} (builder.certificate_status_fetch), cso : BOOLEAN (builder.certificate_status_should_override
\*       set explicitly), tsa : BOOLEAN (signer names a time-stamp authority)]
HasRemoteRef(asset) == asset \in {"remote_only", "remote_embedded"}
AllowedKinds(cfg, asset, op) ==
     (IF cfg.rmf /\ HasRemoteRef(asset) THEN {"Manifest"} ELSE {})
  \cup (IF cfg.ocsp \/ (cfg.csf # "none" /\ op \in {"sign", "ingredient"}) THEN {"Ocsp"} ELSE {})
  \cup (IF cfg.tsa /\ op = "sign" THEN {"Tsa"} ELSE {})

\* mirror: what the implementation is expected to send (embedded manifests win over the remote reference;
\* only the ocsp_signed fixture's certificate names an OCSP responder)
ExpectedKinds(cfg, asset, op) ==
     (IF cfg.rmf /\ asset = "remote_only" /\ op \in {"read", "ingredient"} THEN {"Manifest"} ELSE {})
  \cup (IF asset = "ocsp_signed" /\ ((cfg.ocsp /\ op \in {"read", "ingredient"}) \/ (cfg.csf # "none" /\ cfg.cso /\ op = "ingredient"))
        THEN {"Ocsp"} ELSE {})
  \cup (IF cfg.tsa /\ op = "sign" THEN {"Tsa"} ELSE {})

VARIABLES cfg, asset, op, sent, result
vars == <<cfg, asset, op, sent, result>>
Cfgs == [rmf : BOOLEAN, ocsp : BOOLEAN, csf : {"none", "active", "all"}, cso : BOOLEAN, tsa : BOOLEAN]
Init == cfg \in Cfgs /\ asset \in Assets /\ op \in Ops /\ sent = {} /\ result = "pending"
Run == /\ result = "pending"
       /\ sent' = ExpectedKinds(cfg, asset, op)
       /\ result' = IF asset = "remote_only" /\ op = "read" /\ ~cfg.rmf THEN "RemoteManifestUrl" ELSE "other"
       /\ UNCHANGED <<cfg, asset, op>>
Next == Run \/ (result # "pending" /\ UNCHANGED vars)
Spec == Init /\ [][Next]_vars

NoUnaskedRequest == sent \subseteq AllowedKinds(cfg, asset, op)
RemoteOnlyDisabled == (result # "pending" /\ asset = "remote_only" /\ op = "read" /\ ~cfg.rmf) => result = "RemoteManifestUrl"
====
