SPECIFICATION Spec
CONSTANTS DataLen = 3  MaxSteps = 2  MaxChunk = 2  AllowSingle = TRUE
INVARIANTS ChunkingInvisible
CHECK_DEADLOCK FALSE
