SPECIFICATION Spec
CONSTANTS DataLen = 3  MaxSteps = 2  MaxChunk = 2  AllowSingle = FALSE
INVARIANTS W_FaultErr
CHECK_DEADLOCK FALSE
