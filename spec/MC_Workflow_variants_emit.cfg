SPECIFICATION Spec
CONSTANTS MaxOps = 3  MaxIng = 1  MaxArch = 1  Variants = TRUE
INVARIANTS EmitLegacy
CHECK_DEADLOCK FALSE
