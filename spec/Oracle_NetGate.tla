---- MODULE Oracle_NetGate ----
EXTENDS NetGate, Json, IOUtils
Rec == ndJsonDeserialize(IOEnv.TRACE)
SetOf(s) == {s[i] : i \in 1..Len(s)}
Judge(r) == [unasked |-> SetOf(r.kinds) \ AllowedKinds(r.cfg, r.asset, r.op),
             remote_only_bad |-> (r.asset = "remote_only" /\ r.op = "read" /\ ~r.cfg.rmf) /\ ~(r.result = "RemoteManifestUrl" /\ r.url_ok),
             drift |-> SetOf(r.kinds) # ExpectedKinds(r.cfg, r.asset, r.op)]
Out == [i \in 1..Len(Rec) |-> Judge(Rec[i])]
ASSUME ndJsonSerialize(IOEnv.OUT, Out)
ONext == UNCHANGED vars
====
