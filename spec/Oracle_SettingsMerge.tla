---- MODULE Oracle_SettingsMerge ----
(* Binding O for C25: each record is one observed settings update; TLC computes the merged / path-set document *)
(* and returns the leaf paths on which the observed result disagrees, plus atomicity / TOML / set-get flags.   *)
EXTENDS SettingsMerge, Json, IOUtils
Rec == ndJsonDeserialize(IOEnv.TRACE)
Absent == [k |-> "leaf", v |-> "absent"]
Expected(r) == IF r.kind = "doc" THEN Merge(r.before, r.doc, 0) ELSE Set(r.before, r.path, r.value)
MismatchesM(m, after) == {p \in LeafPaths(after) : Defines(m, p) /\ ~IsObj(Get(m, p)) /\ Get(after, p) # Get(m, p)}
UntouchedPath(before, path, after) ==
  {p \in LeafPaths(before) : ~IsPrefix(path, p) /\ ~IsPrefix(p, path) /\ Get(after, p) # Get(before, p)}
Judge(r) ==
  LET m == TLCEval(Expected(r)) IN
  [ mism      |-> IF r.ok THEN MismatchesM(m, r.after) ELSE {},
    untouched |-> IF ~r.ok THEN {}
                  ELSE IF r.kind = "doc" THEN (IF IsObj(r.doc) THEN Untouched(r.before, r.doc, r.after) ELSE {})
                  ELSE UntouchedPath(r.before, r.path, r.after),
    \* a failed in-place update leaves the settings unchanged; a functional update never changes its receiver
    atomic    |-> (r.has_inplace /\ ~r.inplace_ok) => r.inplace_after = r.before,
    inplace_same |-> (r.has_inplace /\ r.inplace_ok /\ r.ok) => r.inplace_after = r.after,
    receiver  |-> r.has_receiver => r.receiver_after = r.before,
    \* equivalent TOML and JSON documents give equal settings (and fail together)
    toml      |-> r.has_toml => (r.toml_ok = r.ok /\ (r.ok => r.after_toml = r.after)),
    \* reading the path back returns the value that was set
    setget    |-> (r.kind = "value" /\ r.ok) => r.got = r.value ]
Out == [i \in 1..Len(Rec) |-> Judge(Rec[i])]
ASSUME ndJsonSerialize(IOEnv.OUT, Out)
====
