---- MODULE Sniff ----
(***************************************************************************)
(* C11 -- format hint independence.  A stream has a magic class (what its  *)
(* leading bytes identify, or "none"); a hint names a container family or  *)
(* is unknown.  The reader's result may depend on the hint only when the   *)
(* bytes identify no container.                                            *)
(***************************************************************************)
EXTENDS Naturals, FiniteSets, TLC

Families == {"jpeg", "png", "gif", "tiff", "jxl", "riff", "bmff", "flac", "mp3", "pdf", "svg", "c2pa"}
MagicFamilies == Families \ {"svg", "c2pa"}        \* families whose bytes carry a recognisable signature
Hints == Families \cup {"unknown"}

\* which handler reads the stream
Chosen(hint, magic) == IF magic # "none" THEN magic ELSE hint
\* the result of reading: a function of the bytes (identified by their true family) and the handler chosen
Result(trueFamily, handler) == IF handler = trueFamily THEN <<"report-of", trueFamily>> ELSE <<"error-or-none", handler>>

VARIABLES family, magic, h1, h2
vars == <<family, magic, h1, h2>>
Init == /\ family \in Families
        /\ magic = (IF family \in MagicFamilies THEN family ELSE "none")
        /\ h1 \in Hints /\ h2 \in Hints
Next == UNCHANGED vars
Spec == Init /\ [][Next]_vars
HintIndependent == magic # "none" => Result(family, Chosen(h1, magic)) = Result(family, Chosen(h2, magic))
HintMattersOnlyWithoutMagic == (Result(family, Chosen(h1, magic)) # Result(family, Chosen(h2, magic))) => magic = "none"
====
