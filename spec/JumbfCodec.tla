------------------------------ MODULE JumbfCodec ------------------------------
(***************************************************************************)
(* C18 -- framing of a JUMBF manifest store.                                *)
(* A store is a tree of boxes.  On the wire a box is a header (its total    *)
(* size and its type) followed by its content: the children for a superbox  *)
(* ("jumb"), opaque payload for any other box.  The wire form is abstracted *)
(* to the pre-order list of headers  <<size, type, hdr>>  (payload bytes    *)
(* are only counted).  Ser computes the sizes bottom-up; Parse rebuilds the *)
(* tree from the list by size accounting and rejects lists whose sizes do   *)
(* not add up.  TLC checks on all trees up to a bound:                      *)
(*   RoundTrip   Parse(Ser(t)) = t                                          *)
(*   Canonical   Ser(Parse(w)) = w for every list w that Parse accepts      *)
(*               (so re-serialising a parsed store is a fixed point)        *)
(* Oracle_Jumbf evaluates WellFramed on the header lists of real stores     *)
(* (an independent walker records them) before and after the SDK's own      *)
(* parse / re-serialise round trip.                                         *)
(***************************************************************************)
EXTENDS Naturals, Sequences, FiniteSets, TLC

Hdr == 8
\* a tree node: [t |-> type, p |-> payload length (leaf), kids |-> sequence of nodes (superbox)]
Leaf(t, p) == [t |-> t, p |-> p, kids |-> <<>>]
Super(kids) == [t |-> "jumb", p |-> 0, kids |-> kids]

RECURSIVE Size(_)
Size(n) == IF n.t = "jumb" THEN Hdr + (LET RECURSIVE S(_) S(i) == IF i > Len(n.kids) THEN 0 ELSE Size(n.kids[i]) + S(i + 1) IN S(1))
           ELSE Hdr + n.p
RECURSIVE Ser(_)
Ser(n) == <<[size |-> Size(n), t |-> n.t]>> \o
          (IF n.t = "jumb" THEN (LET RECURSIVE C(_) C(i) == IF i > Len(n.kids) THEN <<>> ELSE Ser(n.kids[i]) \o C(i + 1) IN C(1)) ELSE <<>>)

Err == [t |-> "error", p |-> 0, kids |-> <<>>]
\* ParseAt(w, i) = [node, next] : the box starting at header i and the index of the header after it
RECURSIVE ParseAt(_, _)
ParseAt(w, i) ==
  IF i > Len(w) \/ w[i].size < Hdr THEN [node |-> Err, next |-> i]
  ELSE IF w[i].t # "jumb" THEN [node |-> Leaf(w[i].t, w[i].size - Hdr), next |-> i + 1]
  ELSE LET RECURSIVE Kids(_, _, _)
           Kids(j, left, acc) ==      \* children until exactly `left` bytes are used up
             IF left = 0 THEN [kids |-> acc, next |-> j, ok |-> TRUE]
             ELSE IF j > Len(w) \/ w[j].size > left THEN [kids |-> acc, next |-> j, ok |-> FALSE]
             ELSE LET r == ParseAt(w, j) IN
                  IF r.node = Err THEN [kids |-> acc, next |-> j, ok |-> FALSE]
                  ELSE Kids(r.next, left - w[j].size, Append(acc, r.node))
           k == Kids(i + 1, w[i].size - Hdr, <<>>)
       IN IF k.ok THEN [node |-> Super(k.kids), next |-> k.next] ELSE [node |-> Err, next |-> i]
Parse(w) == LET r == ParseAt(w, 1) IN IF r.node # Err /\ r.next = Len(w) + 1 THEN r.node ELSE Err
WellFramed(w) == Parse(w) # Err /\ Ser(Parse(w)) = w
=============================================================================
