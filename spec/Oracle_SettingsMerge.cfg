CONSTANT MaxDepth = 64
