CONSTANTS Names <- MCNames  Parent <- MCParent  InternalHosts <- MCInternal  GlobalHosts <- MCGlobal
          Schemes <- MCSchemes  Ports <- MCPorts  MaxRedirects = 10  Mode = "redirect"
SPECIFICATION MCSpec
INVARIANT Emit
