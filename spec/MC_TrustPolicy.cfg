SPECIFICATION Spec
INVARIANTS NeverTrustedWithoutBasis OffMeansSilent AllowListSuffices IssuerOnAllowListIsNoBasis OrderIrrelevant
CHECK_DEADLOCK FALSE
