SPECIFICATION Spec
INVARIANTS NeverTrustedWithoutBasis OffMeansSilent AllowListSuffices OrderIrrelevant
CHECK_DEADLOCK FALSE
