SPECIFICATION TSpec
INVARIANT AtEnd
POSTCONDITION Accepted
CHECK_DEADLOCK FALSE
