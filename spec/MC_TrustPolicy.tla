---- MODULE MC_TrustPolicy ----
EXTENDS TrustPolicy, Json
Emit == PrintT(<<"VEC", ToJson([inter |-> inter, supplied |-> supplied, wrongIssuer |-> wrongIssuer, eku |-> eku, anchor |-> anchor, allow |-> allow, ekuConfig |-> ekuConfig, verifyTrust |-> verifyTrust, decision |-> Decision])>>)
W_Mixed == Decision # "trusted"
====
