CONSTANTS Phases = {"Reading"}  MaxStep = 1000000
SPECIFICATION TSpec
INVARIANT AtEnd
POSTCONDITION Accepted
CHECK_DEADLOCK FALSE
