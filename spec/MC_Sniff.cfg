SPECIFICATION Spec
INVARIANT HintIndependent HintMattersOnlyWithoutMagic
CHECK_DEADLOCK FALSE
