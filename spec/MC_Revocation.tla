---- MODULE MC_Revocation ----
EXTENDS Revocation, Json
Emit == PrintT(<<"VEC", ToJson([status |-> status, about |-> about, responder |-> responder, batch |-> batch, chain |-> chain, binds |-> Binds, verdict |-> Verdict])>>)
====
