---- MODULE MC_Revocation ----
EXTENDS Revocation, Json
Emit == PrintT(<<"VEC", ToJson([status |-> status, about |-> about, responder |-> responder, batch |-> batch, binds |-> Binds, verdict |-> Verdict])>>)
====
