CONSTANTS Total = 13  Leaf = 4  Skip = 0
SPECIFICATION Spec
INVARIANT LeavesCoverExactly FixedIndependent
CHECK_DEADLOCK FALSE
