---- MODULE MC_XmpRef ----
EXTENDS XmpRef, Json
CONSTANT MaxLen
Urls == UNION {[1..n -> Alphabet] : n \in 1..MaxLen}
Packets == {<<>>, [q \in {"xmp:CreatorTool"} |-> <<"plain", "amp", "plain">>],
            [q \in {"xmp:CreatorTool", Prov} |-> IF q = Prov THEN <<"plain", "qm", "plain">> ELSE <<"quot", "plain">>]}
VARIABLES x, u
vars == <<x, u>>
Init == x \in Packets /\ u \in Urls
Next == UNCHANGED vars
Spec == Init /\ [][Next]_vars
InvUrl == UrlRoundTrip(x, u)
InvOthers == OthersPreserved(x, u)
Emit == x = <<>> => PrintT(<<"VEC", ToJson([url |-> u])>>)
\* vacuity: the raw (non-unescaping) reader is wrong exactly when a special character is present
RawWrongIffSpecial == (RawExtract(Embed(x, u)) # u) <=> (\E i \in 1..Len(u) : u[i] \in Special \cup {"entamp"})
====
