CONSTANT MaxDeltas = 1
SPECIFICATION Spec
INVARIANT NoTolValid
CHECK_DEADLOCK FALSE
