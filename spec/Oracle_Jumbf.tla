---- MODULE Oracle_Jumbf ----
(* Binding O for C18: each record is the pre-order header list of a real manifest store: [w |-> <<[size, t], ...>>]; sizes are *)
(* the real byte sizes minus nothing (Hdr is the real 8-byte header); large sizes are fine (TLC integers are 32-bit).            *)
EXTENDS JumbfCodec, Json, IOUtils
Rec == ndJsonDeserialize(IOEnv.TRACE)
Judge(r) == LET w == TLCEval(r.w) IN [framed |-> TLCEval(WellFramed(w)), boxes |-> Len(w)]
Out == [i \in 1..Len(Rec) |-> Judge(Rec[i])]
ASSUME ndJsonSerialize(IOEnv.OUT, Out)
====
