SPECIFICATION Spec
CONSTANTS MaxSteps = 3
INVARIANTS W_TwoUpdatesValid
CHECK_DEADLOCK FALSE
