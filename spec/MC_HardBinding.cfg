SPECIFICATION Spec
INVARIANT TamperEvidentRef TamperEvidentCodedButTrailer
CHECK_DEADLOCK FALSE
