
