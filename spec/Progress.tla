---- MODULE Progress ----
(***************************************************************************)
(* C23 -- progress callbacks and cancellation.  One behaviour = one        *)
(* operation (sign / read / ingredient import): a sequence of callback     *)
(* invocations, possibly a Context::cancel() from another thread, then the *)
(* final outcome.                                                          *)
(***************************************************************************)
EXTENDS Naturals, Sequences, TLC

CONSTANTS Phases, MaxStep

VARIABLES lastPhase, lastStep,   \* phase and step of the previous invocation ("none", 0 at the start)
          refused,               \* some invocation returned false
          cancelled,             \* Context::cancel() returned before the latest checkpoint finished
          outcome                \* "running" | "Ok" | "Cancelled" | "Err"
vars == <<lastPhase, lastStep, refused, cancelled, outcome>>

Init == lastPhase = "none" /\ lastStep = 0 /\ refused = FALSE /\ cancelled = FALSE /\ outcome = "running"

\* grammar of one invocation: steps are positive, never exceed a non-zero total, and increase within a run of
\* invocations for the same phase
StepOK(ph, st, tot) == st >= 1 /\ (tot # 0 => st <= tot) /\ (ph = lastPhase => st > lastStep)

Callback(ph, st, tot, ret) ==
  /\ outcome = "running"
  /\ StepOK(ph, st, tot)
  /\ lastPhase' = ph /\ lastStep' = st
  /\ refused' = (refused \/ ~ret)
  /\ UNCHANGED <<cancelled, outcome>>
\* cancel() issued from another thread while an invocation is parked: it has returned before that invocation returns
Cancel == outcome = "running" /\ cancelled' = TRUE /\ UNCHANGED <<lastPhase, lastStep, refused, outcome>>
\* the operation returns: once a callback refused or the context was cancelled before a checkpoint completed,
\* the only admissible outcome is the cancellation error
Finish(o) ==
  /\ outcome = "running"
  /\ o \in {"Ok", "Cancelled", "Err"}
  /\ (refused \/ cancelled) => o = "Cancelled"
  /\ outcome' = o
  /\ UNCHANGED <<lastPhase, lastStep, refused, cancelled>>

Next == \/ \E ph \in Phases, st \in 1..MaxStep, tot \in 0..MaxStep, ret \in BOOLEAN : Callback(ph, st, tot, ret)
        \/ Cancel
        \/ \E o \in {"Ok", "Cancelled", "Err"} : Finish(o)
Spec == Init /\ [][Next]_vars

CancelWins == (outcome # "running" /\ (refused \/ cancelled)) => outcome = "Cancelled"
TypeOK == lastStep \in 0..MaxStep /\ outcome \in {"running", "Ok", "Cancelled", "Err"}
\* after a refusal no further checkpoint may report success of the operation (liveness-free formulation)
NeverOkAfterRefusal == [][refused => outcome' # "Ok"]_vars
====
