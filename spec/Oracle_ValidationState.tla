---- MODULE Oracle_ValidationState ----
(* Binding O for C04: TLC evaluates the spec's State operator on (list, code) sets recorded from   *)
(* real Reader runs (and on replayed vectors), and writes one verdict per record.                  *)
EXTENDS ValidationState, Json, IOUtils
Rec == ndJsonDeserialize(IOEnv.TRACE)

HasPrefix(s, p) == Len(s) >= Len(p) /\ SubSeq(s, 1, Len(p)) = p
\* class of one recorded (list, code) pair -- the explicit toleration rule of the statement
ClassOf(list, code) ==
  IF list = "success" THEN
       (IF code = "claimSignature.validated" THEN "SigValidated"
        ELSE IF code = "claimSignature.insideValidity" THEN "SigInsideValidity"
        ELSE IF code = "signingCredential.trusted" THEN "CredTrusted" ELSE "OtherSuccess")
  ELSE IF list = "informational" THEN "Info"
  ELSE (IF code = "signingCredential.untrusted" THEN "TolUntrusted"
        ELSE IF HasPrefix(code, "cawg.x509.") THEN "TolCawg" ELSE "Fail")
Classes(pairs) == {ClassOf(pairs[i][1], pairs[i][2]) : i \in 1..Len(pairs)}
Verdict(r) == LET a == Classes(r.active)
                  d == [i \in 1..Len(r.deltas) |-> Classes(r.deltas[i])]
                  s == State(r.present, a, d)
              IN [expected |-> s, ok |-> (s = r.state)]
Out == [i \in 1..Len(Rec) |-> Verdict(Rec[i])]
ASSUME ndJsonSerialize(IOEnv.OUT, Out)
ONext == UNCHANGED vars   \* the evaluator has no behaviour of its own
====
