SPECIFICATION Spec
CONSTANTS Depth = 3
INVARIANTS W_DeepRedaction
CHECK_DEADLOCK FALSE
