------------------------------ MODULE Timestamp ------------------------------
(***************************************************************************)
(* C36 -- a time-stamp token next to a claim signature.                     *)
(* Token: imprint (matches the signature it accompanies / was issued for    *)
(* something else), CMS signature (verifies / corrupted), TSA anchoring     *)
(* (its root is a configured anchor / not).  Signing certificate: valid at  *)
(* reading time, or expired at reading time but valid when the token was    *)
(* issued, or valid at reading time but not yet valid when the token was    *)
(* issued.                                                                  *)
(*   Usable == imprint matches /\ CMS signature verifies                    *)
(*   the signing time is taken from the token iff Usable                    *)
(*   an expired certificate is accepted iff a Usable token places the       *)
(*   signing inside its validity                                            *)
(*   an unusable token is reported (mismatch / untrusted / malformed) and   *)
(*   never supplies the time                                                *)
(***************************************************************************)
EXTENDS Naturals, TLC
Imprints == {"match", "other"}
Sigs == {"ok", "corrupt"}
Anchorings == {"anchored", "not-anchored"}
\* "valid-only-after-signing": valid at reading time, but its validity begins after the moment at which the token places the signing
Certs == {"valid", "expired-since-signing", "valid-only-after-signing"}
Tokens == {"present", "absent"}
\* the algorithm the TSA signed the token with: one the validator implements, or one it does not (e.g. ECDSA with SHA-1)
TsaAlgs == {"supported", "unsupported"}
VARIABLES token, imprint, sig, anchoring, cert, tsaAlg
vars == <<token, imprint, sig, anchoring, cert, tsaAlg>>
Init == /\ token \in Tokens /\ imprint \in Imprints /\ sig \in Sigs /\ anchoring \in Anchorings /\ cert \in Certs /\ tsaAlg \in TsaAlgs
        /\ (token = "absent" => imprint = "match" /\ sig = "ok" /\ anchoring = "anchored" /\ tsaAlg = "supported")
Next == UNCHANGED vars
Spec == Init /\ [][Next]_vars
\* a signature that cannot be checked is not a signature that verifies
Usable == token = "present" /\ imprint = "match" /\ sig = "ok" /\ tsaAlg = "supported"
TimeFromToken == Usable
Reported == token = "present" /\ ~Usable          \* a time-stamp problem must be reported
\* "only when": a usable token is necessary for accepting an expired certificate; whether a usable token of a TSA that is not
\* anchored suffices is the validator's choice (the property does not say), so that case is "either"
\* a certificate that only became valid after the signing: a usable token of an anchored TSA proves that the signature was made
\* outside the validity, so the credential must not be reported trusted; without any token the reading time decides
Verdict == IF cert = "valid" THEN "accepted"
           ELSE IF cert = "expired-since-signing"
                THEN (IF ~Usable THEN "not-valid" ELSE IF anchoring = "anchored" THEN "accepted" ELSE "either")
                ELSE (IF token = "absent" THEN "accepted" ELSE IF Usable /\ anchoring = "anchored" THEN "not-trusted" ELSE "either")
TimeOnlyWhenUsable == TimeFromToken => (imprint = "match" /\ sig = "ok" /\ tsaAlg = "supported")
ExpiredNeedsUsableToken == (cert = "expired-since-signing" /\ Verdict = "accepted") => Usable
TokenTimeBinds == (cert = "valid-only-after-signing" /\ Usable /\ anchoring = "anchored") => Verdict = "not-trusted"
\* the time taken from a usable anchored token is the time the certificate is judged at -- in both directions
TimeJudgesBothWays == (Usable /\ anchoring = "anchored") => (Verdict = "accepted" <=> cert # "valid-only-after-signing")
UnusableNeverRescues == (~Usable /\ cert = "expired-since-signing") => Verdict = "not-valid"
=============================================================================
