---- MODULE XmpRef ----
(***************************************************************************)
(* C30 -- the remote manifest reference carried in XMP.  A URL is a        *)
(* sequence of character classes (tokens); an XMP packet is a set of       *)
(* properties on rdf:Description, serialised as XML attributes.  Writing   *)
(* escapes the XML-special characters of a value; reading must undo it.    *)
(* The serialised form is a token string so that a missing escape or       *)
(* unescape shows up as a different value (or a broken attribute).         *)
(***************************************************************************)
EXTENDS Naturals, Sequences, FiniteSets, TLC

\* character classes of a URL ("entamp" = the five characters "&amp;" occurring literally in the URL)
Alphabet == {"plain", "amp", "lt", "gt", "quot", "apos", "pct", "hash", "qm", "eq", "space", "nonascii", "entamp"}
Special == {"amp", "lt", "gt", "quot", "apos"}

\* XML attribute-value escaping on the serialised token string
EscTok(t) == IF t \in Special THEN <<"&", t, ";">>
             ELSE IF t = "entamp" THEN <<"&", "amp", ";", "a", "m", "p", ";">>    \* "&amp;" -> "&amp;amp;"
             ELSE <<t>>
RECURSIVE Esc(_)
Esc(s) == IF s = <<>> THEN <<>> ELSE EscTok(Head(s)) \o Esc(Tail(s))
\* unescape: "&" name ";" -> name;  the literal rest "a" "m" "p" ";" re-forms the entamp class
RECURSIVE Unesc(_)
Unesc(s) ==
  IF s = <<>> THEN <<>>
  ELSE IF Len(s) >= 7 /\ SubSeq(s, 1, 7) = <<"&", "amp", ";", "a", "m", "p", ";">> THEN <<"entamp">> \o Unesc(SubSeq(s, 8, Len(s)))
  ELSE IF Len(s) >= 3 /\ s[1] = "&" /\ s[3] = ";" THEN <<s[2]>> \o Unesc(SubSeq(s, 4, Len(s)))
  ELSE <<Head(s)>> \o Unesc(Tail(s))

\* packet = function from property name to value (token sequence); Embed sets the provenance property
Prov == "dcterms:provenance"
Embed(x, u) == [p \in DOMAIN x \cup {Prov, "xmlns:dcterms"} |->
                  IF p = Prov THEN u ELSE IF p = "xmlns:dcterms" THEN <<"plain">> ELSE x[p]]
\* serialise / parse one attribute value
Ser(v) == Esc(v)
Parse(s) == Unesc(s)
Extract(x) == IF Prov \in DOMAIN x THEN Parse(Ser(x[Prov])) ELSE <<"none">>

UrlRoundTrip(x, u) == Extract(Embed(x, u)) = u
OthersPreserved(x, u) == \A p \in DOMAIN x : p \notin {Prov, "xmlns:dcterms"} => Parse(Ser(Embed(x, u)[p])) = x[p]
\* without the unescape on reading (the defect repaired in the SDK) the law fails for every URL with a special character
RawExtract(x) == Ser(x[Prov])
====
