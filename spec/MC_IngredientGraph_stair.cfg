SPECIFICATION Spec
CONSTANTS N = 4  MaxOut = 3  DepthLimit = 4  Slots = "staircase"
INVARIANTS TypeOK Terminates NeverValidIfBad OkMeansTree
CHECK_DEADLOCK FALSE
