---- MODULE MC_Redaction ----
EXTENDS Redaction, Json
SetToSeq(S) == LET RECURSIVE F(_) F(s) == IF s = {} THEN <<>> ELSE LET x == CHOOSE y \in s : TRUE IN <<x>> \o F(s \ {x}) IN F(S)
Terminal == level = Depth \/ verdict # "valid"
Emit == Terminal => PrintT(<<"VEC", ToJson([depth |-> level, verdict |-> verdict,
                                              requests |-> [j \in 1..level |-> SetToSeq({[m |-> t[1], kind |-> t[2]] : t \in requests[j]})],
                                              present |-> SetToSeq({[m |-> t[1], kind |-> t[2]] : t \in present})])>>)
====
