---- MODULE MC_CborPad ----
EXTENDS CborPad, Sequences
CONSTANT MaxGap
VARIABLE d
Init == d \in 0..MaxGap
Next == UNCHANGED d
Spec == Init /\ [][Next]_d
\* every gap >= 7 can be filled exactly by some (pad, pad2) pair: the statement is satisfiable
Fillable == d >= MinGap => (Reach1(d) \/ Reach2(d))
\* a single pad misses exactly the four gaps at the CBOR length-header boundaries
SkippedExactly == d >= 5 => (~Reach1(d) <=> d \in Skipped)
\* the as-coded routine succeeds only when the gap needs a 3-byte length header
CodedWindow == CodedCose(d) = "Ok" <=> (d = 0 \/ (d >= 263 /\ d <= 65542))
\* hence the mirror violates monotonicity (recorded as a known finding; this invariant is EXPECTED to fail)
CodedMonotone == ~(d >= MinGap /\ CodedCose(d) = "TooSmall" /\ \E e \in MinGap..(d - 1) : CodedCose(e) = "Ok")
====
