\* vector export: all streams <= 4 bytes, <= 2 ranges with start,length in 0..5, markers included
CONSTANTS MaxLen = 4  MaxVal = 5  MaxRanges = 2  WithMarkers = TRUE
SPECIFICATION Spec
INVARIANT Emit
CHECK_DEADLOCK FALSE
