---- MODULE RangeHash ----
(***************************************************************************)
(* C13 -- range hashing.  A stream of `len` bytes; byte p is the token     *)
(* <<"b", p>>, a BMFF offset marker at p is the token <<"m", p>> (its      *)
(* 8-byte big-endian offset).  The digest is an injective function of the  *)
(* token sequence, so the property is about the *selection*:               *)
(*   RefSel   -- written from the statement (property layer)               *)
(*   CodedSel -- transcription of hash_stream_by_alg (mirror layer)        *)
(* Selections are sequences of segments <<"b", a, b>> (bytes a..b-1) and   *)
(* <<"m", p>>, or Err.                                        *)
(***************************************************************************)
EXTENDS Naturals, Sequences, FiniteSets, SequencesExt, TLC

\* a range record: [start, length, marker, moff].  Exclusion mode: marker = TRUE is a pure "BMFF offset marker at
\* moff" (the SDK builds it as HashRange(start = moff, length = 1)).  Inclusion mode: marker = TRUE attaches the
\* 8-byte offset moff in front of the bytes of that inclusion range.
Err == << <<"err">> >>   \* the error outcome (a selection no success can equal)
IsRange(r) == r.start \in Nat /\ r.length \in Nat /\ r.marker \in BOOLEAN

Idx(rs)      == 1..Len(rs)
Plain(rs)    == {k \in Idx(rs) : ~rs[k].marker}
Markers(rs)  == {rs[k].moff : k \in {j \in Idx(rs) : rs[j].marker}}
PastEnd(len, rs) == \E k \in Idx(rs) : rs[k].start + rs[k].length > len
Excluded(p, rs)  == \E k \in Plain(rs) : rs[k].start <= p /\ p < rs[k].start + rs[k].length

\* ------------------------------------------------------------------ property layer
\* Exclusion mode: walk the elementary intervals between all range boundaries and markers.
CutPoints(len, rs) == {0, len} \cup {rs[k].start : k \in Plain(rs)} \cup Markers(rs) \cup {rs[k].start + rs[k].length : k \in Plain(rs)}
SortedCuts(len, rs) == SetToSortSeq({c \in CutPoints(len, rs) : c <= len}, LAMBDA a, b : a < b)
RECURSIVE WalkExcl(_, _, _, _)
WalkExcl(cuts, i, len, rs) ==
  IF i >= Len(cuts) THEN <<>>
  ELSE LET a == cuts[i]  b == cuts[i + 1]
           m == IF a \in Markers(rs) /\ a < len THEN << <<"m", a>> >> ELSE <<>>
           d == IF Excluded(a, rs) THEN <<>> ELSE << <<"b", a, b>> >>
       IN m \o d \o WalkExcl(cuts, i + 1, len, rs)
\* merge adjacent byte segments so that two selections are equal iff they select the same tokens
RECURSIVE Norm(_)
Norm(s) == IF Len(s) < 2 THEN s
           ELSE IF s[1][1] = "b" /\ s[2][1] = "b" /\ s[1][3] = s[2][2]
                THEN Norm(<< <<"b", s[1][2], s[2][3]>> >> \o SubSeq(s, 3, Len(s)))
                ELSE <<s[1]>> \o Norm(Tail(s))
RefExcl(len, rs) == IF PastEnd(len, rs) THEN Err ELSE Norm(WalkExcl(SortedCuts(len, rs), 1, len, rs))

\* Inclusion mode: ranges in order of start (stable), each contributes its bytes; overlaps repeat.
StableSortByStart(rs) == SortSeq(rs, LAMBDA x, y : x.start < y.start)
RECURSIVE WalkIncl(_)
WalkIncl(rs) == IF rs = <<>> THEN <<>>
                ELSE (IF Head(rs).length = 0 THEN <<>>
                      ELSE (IF Head(rs).marker THEN << <<"m", Head(rs).moff>> >> ELSE <<>>)
                           \o << <<"b", Head(rs).start, Head(rs).start + Head(rs).length>> >>)
                     \o WalkIncl(Tail(rs))
RefIncl(len, rs) == IF PastEnd(len, rs) THEN Err ELSE WalkIncl(StableSortByStart(rs))

RefSel(len, rs, excl) == IF excl THEN RefExcl(len, rs) ELSE RefIncl(len, rs)

\* Inputs on which the statement is unambiguous (everything else is judged DRIFT only):
\*  - the stream is not empty; exclusion-mode markers lie inside the data
\*  - inclusion ranges have pairwise distinct starts (order of equal starts is not specified)
\*  - an inclusion list is not empty; no two markers at the same offset
Unambiguous(len, rs, excl) ==
   /\ len > 0
   /\ \A k \in Idx(rs) : (excl /\ rs[k].marker) => (rs[k].moff = rs[k].start /\ rs[k].start < len /\ rs[k].length = 1)
   /\ ~excl => \A i, j \in Idx(rs) : i # j => rs[i].start # rs[j].start
   /\ \A i, j \in Idx(rs) : (i # j /\ rs[i].marker /\ rs[j].marker) => rs[i].start # rs[j].start
   /\ ~excl => rs # <<>>     \* "no ranges" means "whole stream" in the API, whatever the mode

\* Input classes on which the implementation is known to deviate from the statement (see
\* known_findings.json; the mirror layer below reproduces both):
\*  Q1 the byte at a marker is a one-byte piece (next byte excluded, past the end, or another marker):
\*     that byte is hashed as a second marker instead of as data
\*  Q2 a marker sits in an excluded region that is not strictly between the first and the last included byte
InclAt(p, len, rs) == p >= 0 /\ p < len /\ ~Excluded(p, rs)
Q1(len, rs) == \E m \in Markers(rs) : InclAt(m, len, rs) /\ (~InclAt(m + 1, len, rs) \/ (m + 1) \in Markers(rs))
\*  QI (inclusion mode) a one-byte inclusion range starts at an offset that some marker carries: hashed as a marker
QI(len, rs) == \E k \in Idx(rs) : rs[k].length = 1 /\ rs[k].start \in Markers(rs)
Q2(len, rs) == \E m \in Markers(rs) : m < len /\ Excluded(m, rs) /\
                  ~((\E p \in 0..(len - 1) : p < m /\ InclAt(p, len, rs)) /\ (\E p \in 0..(len - 1) : p > m /\ InclAt(p, len, rs)))

\* ------------------------------------------------------------------ mirror layer
\* (as coded after the S7 repair: the end check uses the maximum end over all ranges)
SortedByStart(rs) == SortSeq(rs, LAMBDA x, y : x.start < y.start)
\* maximal included intervals <<a, b>> (inclusive) of 0..len-1 after removing the plain exclusions
Incl(len, rs) == {p \in 0..(len - 1) : ~Excluded(p, rs)}
RunStarts(len, rs) == {p \in Incl(len, rs) : p = 0 \/ (p - 1) \notin Incl(len, rs)}
RunEnd(p, len, rs) == CHOOSE q \in Incl(len, rs) : q >= p /\ (\A x \in p..q : x \in Incl(len, rs)) /\ (q + 1) \notin Incl(len, rs)
Runs(len, rs) == LET st == SetToSortSeq(RunStarts(len, rs), LAMBDA a, b : a < b)
                 IN [i \in 1..Len(st) |-> <<st[i], RunEnd(st[i], len, rs)>>]
\* split one run at the sorted marker offsets (the inner loop of the implementation)
RECURSIVE SplitRun(_, _, _)
SplitRun(cur, ms, i) ==
  IF i > Len(ms) THEN <<cur>>
  ELSE LET os == ms[i] IN
       IF cur[1] <= os /\ os <= cur[2]
       THEN IF cur[1] = os THEN << <<os, os>> >> \o SplitRun(cur, ms, i + 1)
            ELSE << <<cur[1], os - 1>>, <<os, os>> >> \o SplitRun(<<os, cur[2]>>, ms, i + 1)
       ELSE SplitRun(cur, ms, i + 1)
RECURSIVE SplitAll(_, _, _)
SplitAll(runs, ms, i) == IF i > Len(runs) THEN <<>> ELSE SplitRun(runs[i], ms, 1) \o SplitAll(runs, ms, i + 1)
CodedRanges(len, rs) ==
  LET ms   == SetToSortSeq(Markers(rs), LAMBDA a, b : a < b)
      base == SplitAll(Runs(len, rs), ms, 1)
      lo   == IF base = <<>> THEN 0 ELSE base[1][1]
      hi   == IF base = <<>> THEN len - 1 ELSE base[Len(base)][2]
      InAny(os) == \E k \in 1..Len(base) : base[k][1] <= os /\ os <= base[k][2]
      extra == SelectSeq(ms, LAMBDA os : ~InAny(os) /\ os > lo /\ os < hi)
      all  == base \o [k \in 1..Len(extra) |-> <<extra[k], extra[k]>>]
  IN IF Markers(rs) = {} THEN Runs(len, rs) ELSE SortSeq(all, LAMBDA x, y : x[1] < y[1])
CodedTokens(len, rs, rv) == [k \in 1..Len(rv) |->
      IF rv[k][1] \in Markers(rs) /\ rv[k][1] = rv[k][2] THEN <<"m", rv[k][1]>> ELSE <<"b", rv[k][1], rv[k][2] + 1>>]
CodedExcl(len, rs) ==
  IF len < 1 THEN Err
  ELSE IF rs # <<>> /\ PastEnd(len, rs) THEN Err
  ELSE Norm(CodedTokens(len, rs, CodedRanges(len, rs)))
RECURSIVE CodedInclTokens(_, _)
CodedInclTokens(rs, ms) ==      \* a one-byte range whose start is a marker offset is hashed as that marker
  IF rs = <<>> THEN <<>>
  ELSE LET r == Head(rs) IN
       (IF r.length = 0 THEN <<>>
        ELSE (IF r.marker THEN << <<"m", r.moff>> >> ELSE <<>>)
             \o (IF r.length = 1 /\ r.start \in ms THEN << <<"m", r.start>> >> ELSE << <<"b", r.start, r.start + r.length>> >>))
       \o CodedInclTokens(Tail(rs), ms)
CodedIncl(len, rs) ==
  IF len < 1 THEN Err
  ELSE IF rs # <<>> /\ PastEnd(len, rs) THEN Err
  ELSE IF rs = <<>> THEN << <<"b", 0, len>> >>
  ELSE CodedInclTokens(SortedByStart(rs), Markers(rs))
CodedSel(len, rs, excl) == IF excl THEN CodedExcl(len, rs) ELSE CodedIncl(len, rs)

\* expand a selection into the token sequence (used to compare selections exactly)
RECURSIVE Tokens(_)
Tokens(s) == IF s = <<>> THEN <<>>
             ELSE IF Head(s)[1] = "m" THEN << <<"m", Head(s)[2]>> >> \o Tokens(Tail(s))
             ELSE [i \in 1..(Head(s)[3] - Head(s)[2]) |-> <<"b", Head(s)[2] + i - 1>>] \o Tokens(Tail(s))
SameSel(x, y) == IF x = Err \/ y = Err THEN x = y ELSE Tokens(x) = Tokens(y)
====
