CONSTANTS Base = 3000  Magnitudes = {3, 200, 40000, 70000}
SPECIFICATION MCSpec
INVARIANT SizeContract
CHECK_DEADLOCK FALSE
