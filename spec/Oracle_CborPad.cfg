
