---- MODULE Labels ----
(***************************************************************************)
(* C34 -- manifest labels and JUMBF URIs as token sequences.  A string is  *)
(* a sequence of tokens; separator tokens are ":" "/" "=" "_" "__" ".";    *)
(* every other token is an opaque atom of a class (guid, vendor word,      *)
(* number, assertion word).  Fmt* build strings from parts, Parse* split   *)
(* them the way jumbf::labels and Claim do.  The round-trip laws are       *)
(* checked for every combination of part classes the SDK can generate.     *)
(***************************************************************************)
EXTENDS Naturals, Sequences, FiniteSets, TLC

None == "none"          \* absent atom (version, reason, instance, ext)
NoSeq == <<>>            \* absent token sequence (vendor)
Bad == [guid |-> "invalid", v1 |-> FALSE, cgi |-> <<>>, version |-> "none", reason |-> "none"]
Tok(x) == <<x>>
Cat(ss) == IF Len(ss) = 0 THEN <<>> ELSE ss[1] \o (IF Len(ss) = 1 THEN <<>> ELSE ss[2] \o (IF Len(ss) = 2 THEN <<>> ELSE
           ss[3] \o (IF Len(ss) = 3 THEN <<>> ELSE ss[4] \o (IF Len(ss) = 4 THEN <<>> ELSE ss[5]))))

\* split a token sequence on a separator token (like str::split)
RECURSIVE Split(_, _)
Split(s, sep) == IF \A i \in 1..Len(s) : s[i] # sep THEN <<s>>
                 ELSE LET k == CHOOSE i \in 1..Len(s) : s[i] = sep /\ \A j \in 1..(i - 1) : s[j] # sep
                      IN <<SubSeq(s, 1, k - 1)>> \o Split(SubSeq(s, k + 1, Len(s)), sep)
RECURSIVE Join(_, _)
Join(parts, sep) == IF Len(parts) = 0 THEN <<>> ELSE IF Len(parts) = 1 THEN parts[1]
                    ELSE parts[1] \o <<sep>> \o Join(Tail(parts), sep)

\* ---------------- manifest labels
\* parts: [guid, v1, cgi, version, reason]; guid is one atom, cgi a token sequence without ":" (may contain "_" "." "-"),
\* version/reason one number atom each or None
FmtLabel(p) ==
  IF p.v1 THEN (IF p.cgi = NoSeq THEN <<>> ELSE p.cgi \o <<":">>) \o <<"urn", ":", "uuid", ":", p.guid>>
  ELSE <<"urn", ":", "c2pa", ":", p.guid>>
       \o (IF p.cgi = NoSeq THEN <<>> ELSE <<":">> \o p.cgi)
       \o (IF p.version = None THEN <<>>
           ELSE (IF p.cgi = NoSeq THEN <<":", ":">> ELSE <<":">>) \o <<p.version>>
                \o (IF p.reason = None THEN <<>> ELSE <<"_", p.reason>>))
ParseLabel(s) ==
  LET parts == Split(s, ":") IN
  IF Len(parts) < 3 THEN Bad
  ELSE IF parts[1] = <<"urn">> THEN
         IF parts[2] = <<"uuid">> THEN [guid |-> parts[3][1], v1 |-> TRUE, cgi |-> NoSeq, version |-> None, reason |-> None]
         ELSE IF parts[2] # <<"c2pa">> \/ Len(parts) > 5 THEN Bad
         ELSE LET cgi == IF Len(parts) > 3 /\ parts[4] # <<>> THEN parts[4] ELSE NoSeq
                  vr  == IF Len(parts) > 4 /\ parts[5] # <<>> THEN Split(parts[5], "_") ELSE <<>>
              IN [guid |-> parts[3][1], v1 |-> FALSE, cgi |-> cgi,
                  version |-> IF Len(vr) >= 1 THEN vr[1][1] ELSE None,
                  reason  |-> IF Len(vr) >= 2 THEN vr[2][1] ELSE None]
       ELSE IF parts[2] = <<"urn">> /\ parts[3] = <<"uuid">> /\ Len(parts) = 4
            THEN [guid |-> parts[4][1], v1 |-> TRUE, cgi |-> parts[1], version |-> None, reason |-> None]
       ELSE Bad
\* the parts the SDK can generate: v1 has no version/reason; a reason needs a version
Generable(p) == (p.v1 => p.version = None /\ p.reason = None) /\ (p.reason # None => p.version # None)
LabelRoundTrip(p) == Generable(p) => ParseLabel(FmtLabel(p)) = p

\* ---------------- JUMBF URIs  ("self#jumbf" "=" "/" "c2pa" "/" <manifest label> "/" <box> "/" <label>)
Prefix == <<"self#jumbf", "=">>
ManifestUri(m)     == Prefix \o <<"/", "c2pa", "/">> \o m
AssertionUri(m, a) == ManifestUri(m) \o <<"/", "c2pa.assertions", "/">> \o a
SignatureUri(m)    == ManifestUri(m) \o <<"/", "c2pa.signature">>
DataboxUri(m, d)   == ManifestUri(m) \o <<"/", "c2pa.databoxes", "/">> \o d
CredentialUri(m, c) == ManifestUri(m) \o <<"/", "c2pa.credentials", "/">> \o c
Normalize(u) == LET ps == Split(u, "=") IN IF Len(ps) = 1 THEN ps[1] ELSE ps[2]
ManifestFromUri(u) == LET parts == Split(Normalize(u), "/") IN
                      IF Len(parts) > 2 /\ parts[2] = <<"c2pa">> THEN parts[3] ELSE <<"none">>
AssertionFromUri(u) == LET parts == Split(Normalize(u), "/") IN
                      IF Len(parts) > 4 /\ parts[2] = <<"c2pa">> /\ parts[4] \in {<<"c2pa.assertions">>, <<"c2pa.databoxes">>} THEN parts[5]
                      ELSE IF Len(parts) > 1 /\ parts[1] = <<"c2pa.assertions">> THEN parts[2] ELSE <<"none">>
BoxFromUri(u) == LET parts == Split(Normalize(u), "/") IN parts[Len(parts)]
Relative(u) == LET parts == Split(Normalize(u), "/") IN
               IF Len(parts) > 4 /\ parts[2] = <<"c2pa">> THEN Prefix \o Join(SubSeq(parts, 4, Len(parts)), "/") ELSE u
Absolute(m, u) == LET parts == Split(Normalize(u), "/") IN
               IF Len(parts) > 2 /\ parts[2] = <<"c2pa">> THEN u ELSE ManifestUri(m) \o <<"/">> \o Normalize(u)
UriRoundTrip(m, a) ==
  /\ ManifestFromUri(ManifestUri(m)) = m
  /\ ManifestFromUri(AssertionUri(m, a)) = m /\ AssertionFromUri(AssertionUri(m, a)) = a
  /\ ManifestFromUri(SignatureUri(m)) = m /\ BoxFromUri(SignatureUri(m)) = <<"c2pa.signature">>
  /\ ManifestFromUri(DataboxUri(m, a)) = m /\ AssertionFromUri(DataboxUri(m, a)) = a
  /\ ManifestFromUri(CredentialUri(m, a)) = m /\ BoxFromUri(CredentialUri(m, a)) = a
  /\ Absolute(m, Relative(AssertionUri(m, a))) = AssertionUri(m, a)
  /\ AssertionFromUri(Relative(AssertionUri(m, a))) = a

\* ---------------- assertion labels with instance:  base [ "__" n ]   (ingredient thumbnails: type "__" n "." ext)
WithInstance(base, n, thumbExt) ==
  IF n = None THEN base \o (IF thumbExt = None THEN <<>> ELSE <<".", thumbExt>>)
  ELSE IF thumbExt = None THEN base \o <<"__", n>> ELSE base \o <<"__", n, ".", thumbExt>>
LabelFromLink(u, isThumb) ==
  LET parts == Split(Normalize(u), "/")  s == parts[Len(parts)] IN
  IF isThumb
  THEN LET halves == Split(s, "__") IN
       IF Len(halves) = 1 THEN <<s, None>>
       ELSE LET tail == Split(halves[2], ".") IN
            <<halves[1] \o (IF Len(tail) > 1 THEN <<".">> \o Join(Tail(tail), ".") ELSE <<>>), tail[1][1]>>
  ELSE LET halves == Split(s, "__") IN
       IF Len(halves) = 2 THEN <<halves[1], halves[2][1]>> ELSE <<halves[1], None>>
InstanceRoundTrip(m, base, n, ext) ==
  LET lbl == WithInstance(base, n, ext)
      want == IF ext = None THEN base ELSE base \o <<".", ext>>
  IN LabelFromLink(AssertionUri(m, lbl), ext # None) = <<want, n>>
====
