SPECIFICATION Spec
INVARIANT NoClobber
CHECK_DEADLOCK FALSE
