SPECIFICATION Spec
CONSTANTS MaxSteps = 3
INVARIANTS TypeOK ValidMeansClean
PROPERTIES TamperSticks
CHECK_DEADLOCK FALSE
