---- MODULE MC_NetGate ----
EXTENDS NetGate, Json
Emit == result # "pending" => PrintT(<<"VEC", ToJson([cfg |-> cfg, asset |-> asset, op |-> op, expected |-> sent, result |-> result])>>)
====
