SPECIFICATION Spec
INVARIANT ResolveTotal RootInside KnownEscapes
CHECK_DEADLOCK FALSE
