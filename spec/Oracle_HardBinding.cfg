INIT Init
NEXT ONext
CHECK_DEADLOCK FALSE
