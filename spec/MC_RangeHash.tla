---- MODULE MC_RangeHash ----
(* Exhaustive comparison CodedSel = RefSel over all small inputs; every input is a state. *)
EXTENDS RangeHash, Json
CONSTANTS MaxLen, MaxVal, MaxRanges, WithMarkers
VARIABLES len, rs, excl
vars == <<len, rs, excl>>
PlainSet == [start : 0..MaxVal, length : 0..MaxVal, marker : {FALSE}, moff : {0}]
ExclMarkers == {[start |-> m, length |-> 1, marker |-> TRUE, moff |-> m] : m \in 0..MaxVal}
InclMarked == [start : 0..MaxVal, length : 0..MaxVal, marker : {TRUE}, moff : {0, 3, MaxVal}]
RangeSet(e) == PlainSet \cup (IF WithMarkers THEN (IF e THEN ExclMarkers ELSE InclMarked) ELSE {})
Init == /\ len \in 0..MaxLen
        /\ excl \in BOOLEAN
        /\ \E n \in 0..MaxRanges : rs \in [1..n -> RangeSet(excl)]     \* (not a UNION of function sets: TLC would materialise it)
Next == UNCHANGED vars
Spec == Init /\ [][Next]_vars
\* property layer vs mirror layer on the inputs where the statement is unambiguous
Agree == (Unambiguous(len, rs, excl) /\ ~(excl /\ (Q1(len, rs) \/ Q2(len, rs))) /\ ~(~excl /\ QI(len, rs))) => SameSel(CodedSel(len, rs, excl), RefSel(len, rs, excl))
\* rejected inputs are rejected (this half needs no ambiguity restriction beyond len > 0)
PastEndRejected == (len > 0 /\ PastEnd(len, rs)) => CodedSel(len, rs, excl) = Err
\* structural sanity of the reference itself
RefWellFormed == LET s == RefSel(len, rs, excl) IN
   s # Err => \A i \in 1..Len(s) : (s[i][1] = "b" => s[i][2] < s[i][3] /\ s[i][3] <= len)
RefExclOrdered == LET s == RefSel(len, rs, TRUE) IN
   (s # Err) => \A i, j \in 1..Len(s) : (i < j /\ s[i][1] = "b" /\ s[j][1] = "b") => s[i][3] <= s[j][2]
Emit == Unambiguous(len, rs, excl) =>
        PrintT(<<"VEC", ToJson([len |-> len, excl |-> excl, rs |-> rs, sel |-> RefSel(len, rs, excl),
                                q1 |-> excl /\ Q1(len, rs), q2 |-> excl /\ Q2(len, rs), qi |-> ~excl /\ QI(len, rs)])>>)
====
