SPECIFICATION Spec
CONSTANTS Depth = 3
INVARIANTS TypeOK OnlyRequestedRemoved BindingsNeverRedacted OwnNeverRedacted ForbiddenRefused
CHECK_DEADLOCK FALSE
