CONSTANT MaxLen = 3
SPECIFICATION Spec
INVARIANT InvUrl InvOthers RawWrongIffSpecial
CHECK_DEADLOCK FALSE
