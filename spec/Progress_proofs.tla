---- MODULE Progress_proofs ----
(***************************************************************************)
(* C23 -- unbounded (TLAPS) proofs over Progress: for every set of phases  *)
(* and every step bound, an operation that finished after a refusal or a   *)
(* cancellation finished with the cancellation error, and no step after a  *)
(* refusal ends in "Ok".                                                   *)
(***************************************************************************)
EXTENDS Progress, TLAPS

ASSUME MaxStepNat == MaxStep \in Nat

Inv == TypeOK /\ CancelWins

THEOREM InitInv == Init => Inv
  BY MaxStepNat DEF Init, Inv, TypeOK, CancelWins

THEOREM NextInv == Inv /\ [Next]_vars => Inv'
<1> SUFFICES ASSUME Inv, [Next]_vars PROVE Inv'
  OBVIOUS
<1>1. CASE UNCHANGED vars
  BY <1>1 DEF Inv, TypeOK, CancelWins, vars
<1>2. ASSUME NEW ph \in Phases, NEW st \in 1..MaxStep, NEW tot \in 0..MaxStep, NEW ret \in BOOLEAN,
             Callback(ph, st, tot, ret) PROVE Inv'
  BY <1>2, MaxStepNat DEF Inv, TypeOK, CancelWins, Callback
<1>3. CASE Cancel
  BY <1>3 DEF Inv, TypeOK, CancelWins, Cancel
<1>4. ASSUME NEW o \in {"Ok", "Cancelled", "Err"}, Finish(o) PROVE Inv'
  BY <1>4 DEF Inv, TypeOK, CancelWins, Finish
<1> QED BY <1>1, <1>2, <1>3, <1>4 DEF Next

THEOREM Safety == Spec => []Inv
  BY InitInv, NextInv, PTL DEF Spec

\* step form of NeverOkAfterRefusal
THEOREM NeverOkAfterRefusalStep == Inv /\ [Next]_vars /\ refused => outcome' # "Ok"
<1> SUFFICES ASSUME Inv, [Next]_vars, refused PROVE outcome' # "Ok"
  OBVIOUS
<1>1. CASE UNCHANGED vars
  BY <1>1 DEF Inv, TypeOK, CancelWins, vars
<1>2. ASSUME NEW ph \in Phases, NEW st \in 1..MaxStep, NEW tot \in 0..MaxStep, NEW ret \in BOOLEAN,
             Callback(ph, st, tot, ret) PROVE outcome' # "Ok"
  BY <1>2 DEF Callback
<1>3. CASE Cancel
  BY <1>3 DEF Cancel
<1>4. ASSUME NEW o \in {"Ok", "Cancelled", "Err"}, Finish(o) PROVE outcome' # "Ok"
  BY <1>4 DEF Finish
<1> QED BY <1>1, <1>2, <1>3, <1>4 DEF Next
====
