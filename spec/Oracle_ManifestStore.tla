---- MODULE Oracle_ManifestStore ----
EXTENDS ManifestStore, Json, IOUtils
Rec == ndJsonDeserialize(IOEnv.TRACE)
Out == [i \in 1..Len(Rec) |-> [ok |-> Allowed(Rec[i].outcome, Rec[i].report_equal)]]
ASSUME ndJsonSerialize(IOEnv.OUT, Out)
ONext == UNCHANGED vars
====
