\* every leaf count 1..40, every leaf index, every max-proof depth 0..depth
CONSTANT MaxN = 40
SPECIFICATION Spec
INVARIANT InvComplete InvSoundLeaf InvSoundIndex InvTamper InvLayout
CHECK_DEADLOCK FALSE
