CONSTANTS Names <- MCNames  Parent <- MCParent  InternalHosts <- MCInternal  GlobalHosts <- MCGlobal
          Schemes <- MCSchemes  Ports <- MCPorts  MaxRedirects = 10  Mode = "allow"
SPECIFICATION MCSpec
INVARIANT OnlyMatchingReachTransport ElseDisallowed NoInternalHop AtMostTen DisabledMeansNone NoCredentialForward
PROPERTY Terminates
