CONSTANTS Stores <- MCStores  Size <- MCSize  Place = 3
SPECIFICATION Spec
INVARIANT ReadAfterWrite SingleStore RemoveClears MediaPreserved RemoveIdempotent SameSizeLocal MapOrderedDisjointCovering
CHECK_DEADLOCK FALSE
