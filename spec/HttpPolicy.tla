---- MODULE HttpPolicy ----
(***************************************************************************)
(* C26 / C27 -- the HTTP policy stack  Redirect(Restricted(transport)).    *)
(* One behaviour = one call of http_resolve: the stack sends requests to   *)
(* the transport, the (scripted, untrusted) transport answers with a final *)
(* response or a redirect, until a result is returned.                     *)
(*   hosts are classes: a few DNS names with a sub-domain relation, and    *)
(*   address classes that are "internal" (localhost names, loopback,       *)
(*   private, link-local, unspecified, multicast, broadcast, documentation,*)
(*   shared address space, IPv6 equivalents, IPv4-mapped) or global.       *)
(***************************************************************************)
EXTENDS Naturals, Sequences, FiniteSets, TLC

CONSTANTS Names,          \* DNS name classes
          Parent,         \* Parent[n] = the name n is an immediate sub-domain of, or "none"
          InternalHosts,  \* host classes that must never be the target of a followed redirect
          GlobalHosts,    \* other address classes (global IPs)
          Schemes, Ports, \* Ports contains "none" (omitted) and explicit ports; "dflt" = the scheme's default written explicitly
          MaxRedirects    \* 10

Hosts == Names \cup InternalHosts \cup GlobalHosts
Sensitive == {"Authorization", "Cookie", "Proxy-Authorization", "Host"}
HeaderNames == Sensitive \cup {"Accept"}

RECURSIVE Ancestor(_, _)
Ancestor(h, base) == h \in Names /\ Parent[h] # "none" /\ (Parent[h] = base \/ Ancestor(Parent[h], base))

\* a pattern: [scheme ("none" or a scheme), host ("none" or a name/address class), wild (BOOLEAN), port]
\* documented rules: exact host or wildcard sub-domain, optional scheme, port must match
HostOK(p, u) == IF p.wild THEN Ancestor(u.host, p.host) ELSE u.host = p.host
SchemeOK(p, u) == p.scheme = "none" \/ p.scheme = u.scheme
MatchStrict(p, u) ==                       \* as coded: ports compared literally; scheme-only patterns ignore the port
  IF p.host = "none" THEN p.scheme # "none" /\ p.scheme = u.scheme
  ELSE HostOK(p, u) /\ SchemeOK(p, u) /\ p.port = u.port
PortLoose(p, u) == p.port = u.port \/ {p.port, u.port} = {"none", "dflt"}   \* an explicit default port may be read as "omitted"
Match(p, u) ==                             \* the most permissive reading of the documented rules (used for VIOLATION)
  IF p.host = "none" THEN p.scheme # "none" /\ p.scheme = u.scheme
  ELSE HostOK(p, u) /\ SchemeOK(p, u) /\ PortLoose(p, u)
Allowed(restr, allow, u) == ~restr \/ \E i \in 1..Len(allow) : Match(allow[i], u)
AllowedStrict(restr, allow, u) == ~restr \/ \E i \in 1..Len(allow) : MatchStrict(allow[i], u)

\* transport answers: [kind |-> "final" | "error" | "redirect", loc |-> location]   (loc only meaningful for redirects)
\* location: [kind |-> "rel" (same origin) | "abs" | "bad" (unparsable), uri |-> u]  (uri only meaningful for "abs")
Target(from, loc) == IF loc.kind = "rel" THEN from ELSE loc.uri

VARIABLES restricted, allow,               \* is an allow-list configured, and the list
          allowRedirects, script,          \* redirect setting; the transport's script (constant during a behaviour)
          req,        \* request about to be sent: [uri, headers]
          sent,       \* requests that reached the transport
          result      \* "pending" | "ok" | "uriDisallowed" | "redirectDisallowed" | "targetDisallowed" | "tooMany" | "badLocation" | "transportError"
vars == <<restricted, allow, allowRedirects, script, req, sent, result>>

Answer == IF Len(sent) < Len(script) THEN script[Len(sent) + 1] ELSE [kind |-> "final", loc |-> [kind |-> "rel", uri |-> req.uri]]

\* one iteration of the redirect loop: Restricted check, transport call, redirect handling
Send ==
  /\ result = "pending"
  /\ IF ~AllowedStrict(restricted, allow, req.uri)
     THEN /\ result' = "uriDisallowed" /\ UNCHANGED <<sent, req>>
     ELSE /\ sent' = Append(sent, req)
          /\ LET a == Answer IN
             IF a.kind = "final" THEN result' = "ok" /\ UNCHANGED req
             ELSE IF a.kind = "error" THEN result' = "transportError" /\ UNCHANGED req
             ELSE IF ~allowRedirects THEN result' = "redirectDisallowed" /\ UNCHANGED req
             ELSE IF a.loc.kind = "bad" THEN result' = "badLocation" /\ UNCHANGED req
             ELSE LET t == Target(req.uri, a.loc) IN
                  IF t.host \in InternalHosts THEN result' = "targetDisallowed" /\ UNCHANGED req
                  ELSE IF Len(sent) + 1 > MaxRedirects THEN result' = "tooMany" /\ UNCHANGED req
                  ELSE /\ req' = [uri |-> t, headers |-> req.headers \ Sensitive]
                       /\ result' = "pending"
  /\ UNCHANGED <<restricted, allow, allowRedirects, script>>
Done == result # "pending" /\ UNCHANGED vars
Next == Send \/ Done

\* ---------------- properties
\* C26: only requests whose URI matches a configured pattern reach the transport (initial request and every hop)
OnlyMatchingReachTransport == \A k \in 1..Len(sent) : Allowed(restricted, allow, sent[k].uri)
\* ... and a non-matching initial request is refused with the URI-disallowed error
ElseDisallowed == (result # "pending" /\ sent = <<>>) => result = "uriDisallowed"
\* C27
NoInternalHop == \A k \in 2..Len(sent) : sent[k].uri.host \notin InternalHosts
AtMostTen == Len(sent) <= MaxRedirects + 1
DisabledMeansNone == ~allowRedirects => Len(sent) <= 1
NoCredentialForward == \A k \in 2..Len(sent) : sent[k].headers \cap Sensitive = {}
Terminates == <>(result # "pending")
====
