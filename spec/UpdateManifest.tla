---------------------------- MODULE UpdateManifest ----------------------------
(***************************************************************************)
(* C21 -- update manifests.  A standard manifest binds the asset content   *)
(* (hard binding).  An update manifest carries no hard binding; it must    *)
(* have exactly one ingredient, a parentOf, only actions from the allowed  *)
(* list, and the content bound by the nearest standard manifest below it   *)
(* must be unchanged.  Steps: Update(extra, action) adds an update         *)
(* manifest (extra = a second ingredient is supplied, action = which kind  *)
(* of additional action is declared), Tamper changes one content byte.     *)
(* Verdict of the final asset: Valid iff every update manifest is well     *)
(* formed and the content is intact; an ill-formed update may also be      *)
(* refused at signing (then nothing is built on it).                       *)
(***************************************************************************)
EXTENDS Naturals, Sequences, TLC
CONSTANTS MaxSteps
Actions == {"none", "allowed", "disallowed"}
VARIABLES steps,      \* the history
          updates,    \* number of update manifests in the asset
          wellformed, \* all update manifests so far obey the rules
          intact      \* content equals what the standard manifest bound
vars == <<steps, updates, wellformed, intact>>
Init == steps = <<>> /\ updates = 0 /\ wellformed = TRUE /\ intact = TRUE
Update(extra, action) ==
   /\ Len(steps) < MaxSteps /\ wellformed      \* nothing is built on a refused / ill-formed update
   /\ steps' = Append(steps, [op |-> "U", extra |-> extra, action |-> action])
   /\ updates' = updates + 1
   /\ wellformed' = (~extra /\ action # "disallowed")
   /\ UNCHANGED intact
Tamper == /\ Len(steps) < MaxSteps /\ intact /\ wellformed
          /\ steps' = Append(steps, [op |-> "T", extra |-> FALSE, action |-> "none"])
          /\ intact' = FALSE /\ UNCHANGED <<updates, wellformed>>
Next == (\E e \in BOOLEAN, a \in Actions : Update(e, a)) \/ Tamper
Spec == Init /\ [][Next]_vars
Verdict == IF wellformed /\ intact THEN "valid" ELSE "not-valid"
\* properties of the design
TamperSticks == [][~intact => ~intact']_vars                      \* no later update manifest re-binds changed content
ValidMeansClean == Verdict = "valid" => (\A i \in 1..Len(steps) : steps[i].op = "U" /\ ~steps[i].extra /\ steps[i].action # "disallowed")
TypeOK == updates <= MaxSteps
W_TwoUpdatesValid == ~(updates = 2 /\ Verdict = "valid")
=============================================================================
