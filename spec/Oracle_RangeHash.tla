---- MODULE Oracle_RangeHash ----
(* Binding O for C13: TLC evaluates RefSel on inputs recorded from the real hash_stream_by_alg. *)
EXTENDS RangeHash, Json, IOUtils
Rec == ndJsonDeserialize(IOEnv.TRACE)
Verdict(r) == [sel   |-> RefSel(r.len, r.rs, r.excl),
               unamb |-> Unambiguous(r.len, r.rs, r.excl),
               q1    |-> r.excl /\ Q1(r.len, r.rs),
               q2    |-> r.excl /\ Q2(r.len, r.rs),
               qi    |-> ~r.excl /\ QI(r.len, r.rs)]
Out == [i \in 1..Len(Rec) |-> Verdict(Rec[i])]
ASSUME ndJsonSerialize(IOEnv.OUT, Out)
====
