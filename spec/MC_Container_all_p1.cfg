\* exhaustive over every layout of up to 5 segments (thorough tier)
CONSTANTS Stores <- MCStores  Size <- MCSize  Place = 1  Layouts <- MCLayoutsAll
SPECIFICATION Spec
INVARIANT ReadAfterWrite SingleStore RemoveClears MediaPreserved RemoveIdempotent SameSizeLocal MapOrderedDisjointCovering
CHECK_DEADLOCK FALSE
