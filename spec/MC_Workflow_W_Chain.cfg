SPECIFICATION Spec
CONSTANTS MaxOps = 4  MaxIng = 2  MaxArch = 0
INVARIANTS W_Chain
CHECK_DEADLOCK FALSE
