------------------------------ MODULE TrustPolicy ------------------------------
(***************************************************************************)
(* C05 -- the trust decision for a signing credential.                      *)
(* Credential: a leaf certificate under `inter` intermediates under a root; *)
(* the manifest carries the intermediates in some form (all / the leaf's    *)
(* direct issuer missing / reordered); the leaf may have been issued by a   *)
(* different CA that merely has the same name (wrongIssuer); its EKU is one *)
(* the default policy accepts or another one.                               *)
(* Configuration: where the root is configured (system anchors, user        *)
(* anchors, nowhere, or the leaf's direct issuer configured as an anchor),  *)
(* whether the leaf is on the end-entity allow list, whether the EKU list   *)
(* was extended to include the other EKU, whether trust is verified at all. *)
(* Decision == "none" | "trusted" | "untrusted".                            *)
(***************************************************************************)
EXTENDS Naturals, TLC
Inter == 0..2
Supplied == {"all", "missing", "reordered"}
Ekus == {"accepted", "other"}
Anchors == {"system", "user", "none", "issuer"}
\* the end-entity allow list holds nothing relevant, the leaf itself, or the certificate of the leaf's direct issuer (a CA on the
\* end-entity list vouches for nothing: the list is matched against the signing certificate only)
Allows == {"none", "leaf", "issuer"}
VARIABLES inter, supplied, wrongIssuer, eku, anchor, allow, ekuConfig, verifyTrust
vars == <<inter, supplied, wrongIssuer, eku, anchor, allow, ekuConfig, verifyTrust>>
Init == /\ inter \in Inter /\ supplied \in Supplied /\ wrongIssuer \in BOOLEAN /\ eku \in Ekus
        /\ anchor \in Anchors /\ allow \in Allows /\ ekuConfig \in {"default", "extended"} /\ verifyTrust \in BOOLEAN
        /\ (inter = 0 => supplied = "all")                 \* nothing to omit or reorder
        /\ (anchor = "issuer" => inter >= 1)               \* with no intermediate the issuer is the root itself
        /\ (allow = "issuer" => inter >= 1)
Next == UNCHANGED vars
Spec == Init /\ [][Next]_vars

EkuOK == eku = "accepted" \/ ekuConfig = "extended"
\* can a path be built from the leaf to something configured as an anchor, using only what the manifest supplies?
PathOK == /\ ~wrongIssuer
          /\ CASE anchor = "none" -> FALSE
               [] anchor = "issuer" -> TRUE                                   \* partial chain: the issuer itself is the anchor
               [] OTHER -> (inter = 0 \/ supplied # "missing")                \* the direct issuer must be available to reach the root
Decision == IF ~verifyTrust THEN "none"
            ELSE IF allow = "leaf" THEN "trusted"
            ELSE IF EkuOK /\ PathOK THEN "trusted" ELSE "untrusted"

\* properties of the policy
NeverTrustedWithoutBasis == Decision = "trusted" => allow = "leaf" \/ (anchor # "none" /\ ~wrongIssuer)
OffMeansSilent == ~verifyTrust => Decision = "none"
AllowListSuffices == (verifyTrust /\ allow = "leaf") => Decision = "trusted"
IssuerOnAllowListIsNoBasis == (verifyTrust /\ allow = "issuer" /\ anchor = "none") => Decision = "untrusted"
OrderIrrelevant == supplied = "reordered" => Decision = (IF ~verifyTrust THEN "none" ELSE IF allow = "leaf" \/ (EkuOK /\ ~wrongIssuer /\ anchor # "none") THEN "trusted" ELSE "untrusted")
=============================================================================
