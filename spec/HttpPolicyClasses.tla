---- MODULE HttpPolicyClasses ----
(* host / scheme / port classes shared by the model-checking and oracle modules *)
\* name classes: A = a.example, SA = sub.a.example, SSA = x.sub.a.example, FA = fakea.example (suffix trap), B = b.example
MCNames == {"A", "SA", "SSA", "FA", "B"}
MCParent == [n \in MCNames |-> CASE n = "SA" -> "A" [] n = "SSA" -> "SA" [] OTHER -> "none"]
MCInternal == {"localhost", "sub.localhost", "loopback", "private10", "private172", "private192", "linklocal", "unspecified",
               "zeronet", "multicast", "broadcast", "doc1", "doc2", "doc3", "cgnat",
               "v6unspecified", "v6loopback", "v6ula", "v6linklocal", "v6multicast", "mapped-loopback", "mapped-private", "mapped-linklocal"}
MCGlobal == {"ip4global", "ip6global"}
MCSchemes == {"http", "https"}
MCPorts == {"none", "dflt", "8080"}

====
