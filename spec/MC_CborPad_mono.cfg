CONSTANT MaxGap = 66000
SPECIFICATION Spec
INVARIANT CodedMonotone
CHECK_DEADLOCK FALSE
