---- MODULE CliFs ----
(***************************************************************************)
(* C32 -- c2patool never clobbers existing outputs unless forced, and what *)
(* it reports as signed validates.  File-system entries are abstract:      *)
(* "absent", "file" (some pre-existing content) or "dir" (a directory with *)
(* a pre-existing file in it).  One behaviour = one invocation in signing  *)
(* mode (-m manifest -o output [--sidecar] [-f]) or report-folder mode     *)
(* (-o folder [-f]).                                                       *)
(***************************************************************************)
EXTENDS Naturals, FiniteSets, TLC

Kinds == {"absent", "file", "dir"}
VARIABLES mode,          \* "sign" | "report"
          force, sidecarFlag, sameAsInput, remote,      \* remote: -r URL (a remote manifest reference is embedded)
          output, sidecar,     \* pre-existing state of the output path and of output.with_extension("c2pa")
          outputAfter, sidecarAfter, inputAfter,   \* "unchanged" | "replaced" | "created" | "removed"
          exit           \* "pending" | "ok" | "fail"
vars == <<mode, force, sidecarFlag, sameAsInput, remote, output, sidecar, outputAfter, sidecarAfter, inputAfter, exit>>

Init == /\ mode \in {"sign", "report"} /\ force \in BOOLEAN /\ sidecarFlag \in BOOLEAN /\ sameAsInput \in BOOLEAN /\ remote \in BOOLEAN
        /\ output \in Kinds /\ sidecar \in Kinds
        /\ (sameAsInput => output = "file" /\ mode = "sign")
        /\ (mode = "report" => ~sidecarFlag /\ ~sameAsInput /\ ~remote)
        /\ outputAfter = "unchanged" /\ sidecarAfter = "unchanged" /\ inputAfter = "unchanged" /\ exit = "pending"

\* signing mode, as coded after the S15 repair (an existing sidecar is protected like the output)
RunSign ==
  /\ mode = "sign" /\ exit = "pending"
  /\ IF output # "absent" /\ ~force THEN exit' = "fail" /\ UNCHANGED <<outputAfter, sidecarAfter, inputAfter>>
     ELSE IF sidecarFlag /\ sidecar # "absent" /\ ~force THEN exit' = "fail" /\ UNCHANGED <<outputAfter, sidecarAfter, inputAfter>>
     ELSE IF output = "dir" THEN exit' = "fail" /\ UNCHANGED <<outputAfter, sidecarAfter, inputAfter>>       \* remove_file on a directory fails
     ELSE IF sidecarFlag /\ sidecar = "dir" THEN exit' \in {"fail"} /\ outputAfter' = (IF output = "absent" THEN "created" ELSE "replaced")
                                                 /\ inputAfter' = (IF sameAsInput THEN "replaced" ELSE "unchanged") /\ UNCHANGED sidecarAfter
     ELSE /\ exit' = "ok"
          /\ outputAfter' = (IF output = "absent" THEN "created" ELSE "replaced")
          /\ inputAfter' = (IF sameAsInput THEN "replaced" ELSE "unchanged")
          /\ sidecarAfter' = (IF ~sidecarFlag THEN "unchanged" ELSE IF sidecar = "absent" THEN "created" ELSE "replaced")
\* report-folder mode
RunReport ==
  /\ mode = "report" /\ exit = "pending"
  /\ IF output = "file" THEN exit' = "fail" /\ UNCHANGED <<outputAfter, sidecarAfter, inputAfter>>
     ELSE IF output = "dir" /\ ~force THEN exit' = "fail" /\ UNCHANGED <<outputAfter, sidecarAfter, inputAfter>>
     ELSE /\ exit' = "ok" /\ outputAfter' = (IF output = "absent" THEN "created" ELSE "replaced")
          /\ UNCHANGED <<sidecarAfter, inputAfter>>
Next == ((RunSign \/ RunReport) /\ UNCHANGED <<mode, force, sidecarFlag, sameAsInput, remote, output, sidecar>>) \/ (exit # "pending" /\ UNCHANGED vars)
Spec == Init /\ [][Next]_vars

\* without force no pre-existing entry is modified, replaced or deleted
NoClobber == ~force => /\ (output # "absent" => outputAfter = "unchanged")
                       /\ (sidecar # "absent" => sidecarAfter = "unchanged")
                       /\ inputAfter = "unchanged"
====
