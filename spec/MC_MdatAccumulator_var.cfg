CONSTANTS Total = 16  Leaf = 0  Skip = 8
SPECIFICATION Spec
INVARIANT LeavesCoverExactly FixedIndependent
CHECK_DEADLOCK FALSE
