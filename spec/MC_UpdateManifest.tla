---- MODULE MC_UpdateManifest ----
EXTENDS UpdateManifest, Json
Emit == (Len(steps) >= 1) => PrintT(<<"VEC", ToJson([steps |-> steps, verdict |-> Verdict, updates |-> updates])>>)
====
