---- MODULE Trace_MdatAccumulator ----
(* Binding T for C17: recorded hash_bmff_mdat_bytes call sequences of real placeholder workflows are replayed on    *)
(* MdatAccumulator with the real payload length / leaf size / skip; at the flush the leaf sizes recorded in the     *)
(* signed BmffHash must equal the spec's leaves, and the patched asset must have read back Valid.                   *)
(* Events: [e |-> "reset", total, leaf, skip] | [e |-> "chunk", n] | [e |-> "flush", sizes, valid]                  *)
EXTENDS Naturals, Sequences, TLC, Json, IOUtils
Rec == ndJsonDeserialize(IOEnv.TRACE)
CONSTANTS Total, Leaf, Skip     \* unused here: the recorded values are carried in variables
VARIABLES total, leaf, skip, fed, skipLeft, leaves, rem, flushed, l, bad
M == INSTANCE MdatAccumulator
tvars == <<total, leaf, skip, fed, skipLeft, leaves, rem, flushed, l, bad>>
Ev == Rec[l]
TInit == /\ total = 0 /\ leaf = 0 /\ skip = 0 /\ fed = 0 /\ skipLeft = 0 /\ leaves = <<>> /\ rem = <<0, 0>> /\ flushed = TRUE
         /\ l = 1 /\ bad = <<>>
TReset == /\ Ev.e = "reset"
          /\ total' = Ev.total /\ leaf' = Ev.leaf /\ skip' = Ev.skip
          /\ fed' = 0 /\ skipLeft' = Ev.skip /\ leaves' = <<>> /\ rem' = <<0, 0>> /\ flushed' = FALSE
          /\ UNCHANGED bad
TChunk == Ev.e = "chunk" /\ M!AddChunkP(total, leaf, Ev.n) /\ UNCHANGED <<total, leaf, skip, bad>>
Sizes(ls) == [i \in 1..Len(ls) |-> ls[i][2] - ls[i][1]]
TFlush == /\ Ev.e = "flush" /\ M!FlushP(total) /\ UNCHANGED <<total, leaf, skip>>
          \* property layer: Valid read-back; fixed leaf size => recorded leaf sizes are the required ones
          /\ bad' = IF ~Ev.valid THEN Append(bad, <<l, "not-valid">>)
                    ELSE IF leaf > 0 /\ Ev.sizes # Sizes(M!RequiredP(total, leaf, skip)) THEN Append(bad, <<l, "fixed-leaves-differ">>)
                    ELSE IF Ev.sizes # Sizes(leaves') THEN Append(bad, <<l, "drift-leaves">>)
                    ELSE bad
TNext == l <= Len(Rec) /\ l' = l + 1 /\ (TReset \/ TChunk \/ TFlush)
TSpec == TInit /\ [][TNext]_tvars
Accepted == LET d == TLCGet("stats").diameter IN PrintT(<<"TRACE_MATCHED", d - 1>>) /\ d - 1 = Len(Rec)
AtEnd == l = Len(Rec) + 1 => PrintT(<<"VERDICT", ToJson([bad |-> bad])>>)
====
