---- MODULE ContextIsolation_proofs ----
(***************************************************************************)
(* C24 -- unbounded (TLAPS) proof over ContextIsolation: for any number of *)
(* threads, contexts and checkpoints, Isolation, CancelWins and            *)
(* AtMostOneCallbackAfterCancel hold in every reachable state.             *)
(***************************************************************************)
EXTENDS ContextIsolation, TLAPS

ASSUME Consts == Threads # {} /\ Contexts # {} /\ Values # {} /\ MaxCheckpoints \in Nat

OpRec == [st : {"idle", "cb", "flag"}, c : Contexts, k : Nat, after : Nat, lateStart : BOOLEAN]
DoneRec == [t : Threads, c : Contexts, res : {"none", "cancelled", "sequential"}, after : Nat,
            lateStart : BOOLEAN, ctxCancelled : BOOLEAN]

Types == /\ cancelled \in [Contexts -> BOOLEAN]
         /\ op \in [Threads -> OpRec]
         /\ done \in [Threads -> DoneRec]

\* the facts about a running operation that carry the three properties
OpInv(t) == /\ op[t].st = "idle" => op[t].after = 0
            /\ op[t].st = "cb" => op[t].after = 0
            /\ op[t].st = "flag" => (op[t].after <= 1 /\ op[t].k >= 1 /\ (op[t].after = 1 => cancelled[op[t].c]))
            /\ (op[t].st # "idle" /\ op[t].lateStart) => cancelled[op[t].c]
            /\ (op[t].st = "cb" /\ op[t].k >= 1) => ~op[t].lateStart
DoneInv(t) == /\ done[t].res = "cancelled" => done[t].ctxCancelled
              /\ done[t].lateStart => done[t].res = "cancelled"
              /\ done[t].after <= 1

Inv == Types /\ \A t \in Threads : OpInv(t) /\ DoneInv(t)

LEMMA IdleType == Idle \in OpRec /\ Idle.st = "idle" /\ Idle.after = 0
  BY Consts DEF Idle, OpRec
LEMMA NoneType == None \in DoneRec /\ None.res = "none" /\ None.after = 0 /\ None.lateStart = FALSE
  BY Consts DEF None, DoneRec

THEOREM InitInv == Init => Inv
  BY IdleType, NoneType DEF Init, Inv, Types, OpInv, DoneInv

THEOREM NextInv == Inv /\ [Next]_vars => Inv'
<1> SUFFICES ASSUME Inv, [Next]_vars PROVE Inv'
  OBVIOUS
<1> USE DEF Inv, Types, OpInv, DoneInv, OpRec, DoneRec
<1>1. CASE UNCHANGED vars
  BY <1>1 DEF vars
<1>2. ASSUME NEW t \in Threads, NEW c \in Contexts, Start(t, c) PROVE Inv'
  BY <1>2 DEF Start
<1>3. ASSUME NEW t \in Threads, Callback(t) PROVE Inv'
  BY <1>3, Consts DEF Callback
<1>4. ASSUME NEW t \in Threads, FlagRead(t) PROVE Inv'
  BY <1>4, IdleType DEF FlagRead
<1>5. ASSUME NEW t \in Threads, Finish(t) PROVE Inv'
  BY <1>5, IdleType DEF Finish
<1>6. ASSUME NEW t \in Threads, BuildSettings(t) PROVE Inv'
  BY <1>6 DEF BuildSettings, vars
<1>7. ASSUME NEW c \in Contexts, Cancel(c) PROVE Inv'
  BY <1>7 DEF Cancel
<1>8. ASSUME NEW t \in Threads, NEW v \in Values, LegacySet(t, v) PROVE Inv'
  BY <1>8 DEF LegacySet
<1> QED BY <1>1, <1>2, <1>3, <1>4, <1>5, <1>6, <1>7, <1>8 DEF Next

THEOREM Safety == Spec => []Inv
  BY InitInv, NextInv, PTL DEF Spec

THEOREM InvImplies == Inv => Isolation /\ CancelWins /\ AtMostOneCallbackAfterCancel /\ LateStartNoSecondCallback
  BY DEF Inv, Types, OpInv, DoneInv, OpRec, DoneRec, Isolation, CancelWins, AtMostOneCallbackAfterCancel,
         LateStartNoSecondCallback, Done
====
