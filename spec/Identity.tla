------------------------------- MODULE Identity -------------------------------
(***************************************************************************)
(* C33 -- a CAWG X.509 identity assertion inside a C2PA manifest.           *)
(* The identity assertion carries a signer payload (the hashed references   *)
(* to the assertions it vouches for) and a signature over that payload.     *)
(* mode     : how the credential holder behaved -- "ok", it signed a        *)
(*            payload other than the stored one, or the stored signature    *)
(*            is damaged                                                    *)
(* changed  : which stored assertion was altered after signing -- none, one *)
(*            the identity assertion references, one it does not            *)
(* Two verdicts: the CAWG verdict (binding intact?) and the C2PA manifest   *)
(* state; CAWG failures are tolerated by the manifest state.                *)
(***************************************************************************)
EXTENDS Naturals, TLC
Modes == {"ok", "altered-payload", "bad-signature"}
\* "padding": a non-zero byte in a padding field of the identity assertion (first / middle / last byte of pad1 or pad2)
Changes == {"none", "referenced", "unreferenced", "padding"}
VARIABLES mode, changed, nrefs
vars == <<mode, changed, nrefs>>
Init == mode \in Modes /\ changed \in Changes /\ nrefs \in 0..2 /\ (changed = "referenced" => nrefs >= 1)
Next == UNCHANGED vars
Spec == Init /\ [][Next]_vars
CawgIntact == mode = "ok" /\ changed \notin {"referenced", "padding"}
CawgVerdict == IF CawgIntact THEN "validated" ELSE "failure"
\* the C2PA layer has its own binding of every assertion (hashed URIs in the claim)
ManifestVerdict == IF changed = "none" THEN "not-invalid" ELSE "invalid"
CawgNeverInvalidates == (changed = "none") => ManifestVerdict = "not-invalid"
AnyBindingBreakReported == (mode # "ok" \/ changed \in {"referenced", "padding"}) => CawgVerdict = "failure"
CreatedValidates == (mode = "ok" /\ changed = "none") => CawgVerdict = "validated"
=============================================================================
