SPECIFICATION Spec
CONSTANTS Threads = {t1, t2}  Contexts = {c1, c2}  MaxCheckpoints = 2  Values = {v0, v1}
INVARIANTS W_CancelledOp
CHECK_DEADLOCK FALSE
