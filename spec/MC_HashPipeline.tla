---- MODULE MC_HashPipeline ----
EXTENDS HashPipeline
NC_quick == <<3, 1, 2, 4>>
NC_thorough == <<4, 1, 1, 3, 5, 2>>
====
