SPECIFICATION Spec
CONSTANTS MaxOps = 3  MaxIng = 2  MaxArch = 1  Variants = FALSE
INVARIANTS TypeOK FlavourArchiveInvisible ManifestsCarried UnsignedClean TamperedIngredientRecorded ProfileLocal
PROPERTIES DescStable
CHECK_DEADLOCK FALSE
