---- MODULE Oracle_ResourceFs ----
(* Binding O for C29: every recorded ResourceStore operation is judged by Confined with RealLoc computed by the spec. *)
EXTENDS ResourceFs, Json, IOUtils
Rec == ndJsonDeserialize(IOEnv.TRACE)
Obs(r) == [op |-> r.op, base |-> r.base, id |-> r.id, result |-> r.result, content |-> r.content,
           touched |-> {r.touched[i] : i \in 1..Len(r.touched)}]
Judge(r) == LET o == Obs(r) IN [read |-> ReadOK(o), write |-> WriteOK(o), exists |-> ExistsOK(o), path |-> PathOK(o),
                                 escapes |-> (LET q == RealLoc(o.base, o.id) IN q.ok /\ ~Inside(q.loc))]
Out == [i \in 1..Len(Rec) |-> Judge(Rec[i])]
ASSUME ndJsonSerialize(IOEnv.OUT, Out)
====
