SPECIFICATION Spec
CONSTANTS InputLen = 4  MaxDepth = 2  MaxInflate = 3  ReserveCap = 2  MaxCount = 2  MaxDeclared = 5  Capped = TRUE
INVARIANTS DepthBounded AllocBounded CountBounded WorkBounded
PROPERTIES Stops
CHECK_DEADLOCK FALSE
