\* trees of depth <= 2 over keys {a,b}, leaves {1,null}: 146 x 146 (settings, overlay) pairs; depth limit 64 as coded
CONSTANTS MaxDepth = 64  LeafVals = {"1", "null"}
SPECIFICATION Spec
INVARIANT InvMergeLaw InvIdempotent InvEmpty InvSetGet InvJudgeSound
CHECK_DEADLOCK FALSE
