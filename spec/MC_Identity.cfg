SPECIFICATION Spec
INVARIANTS CawgNeverInvalidates AnyBindingBreakReported CreatedValidates
CHECK_DEADLOCK FALSE
