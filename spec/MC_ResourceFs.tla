---- MODULE MC_ResourceFs ----
EXTENDS ResourceFs, Json
\* identifiers: up to 3 components from the traversal alphabet (ABS = leading slash, BSL = a backslash-separated
\* "..\outside\secret.txt" component, ENC = percent-encoded "..")
Comps == {"a.txt", "sub", "b.txt", "deep", "c.txt", "..", ".", "link_in", "link_out", "link_file_out", "chain", "dangling", "up_out",
          "secret.txt", "dir", "t.txt", "new.txt", "outside", "ENC", "BSL"}
Ids == {<<a>> : a \in Comps \cup {"ABS"}} \cup {<<a, b>> : a \in Comps \cup {"ABS"}, b \in Comps} \cup {<<a, b, c>> : a \in Comps, b \in Comps, c \in {"secret.txt", "t.txt", "new.txt", "b.txt", "..", "dir"}}
Bases == {<<"root">>, <<"root", "sub">>}
Ops == {"add", "get", "exists", "write_stream", "path_for_id"}
VARIABLES op, base, id
vars == <<op, base, id>>
Init == op \in Ops /\ base \in Bases /\ id \in Ids
Next == UNCHANGED vars
Spec == Init /\ [][Next]_vars
\* classification used to prioritise replay: does the identifier's real location leave the root?
Escapes == LET r == RealLoc(base, id) IN r.ok /\ ~Inside(r.loc)
ThroughLink == \E i \in 1..Len(id) : id[i] \in {"link_in", "link_out", "link_file_out", "chain", "dangling", "up_out"}
Emit == PrintT(<<"VEC", ToJson([op |-> op, base |-> base, id |-> id, escapes |-> Escapes, link |-> ThroughLink])>>)
\* sanity of the model itself
ResolveTotal == RealLoc(base, id).ok \in BOOLEAN
RootInside == Inside(<<"root", "a.txt">>) /\ ~Inside(<<"outside", "secret.txt">>)
KnownEscapes == /\ RealLoc(<<"root">>, <<"link_out", "secret.txt">>).loc = <<"outside", "secret.txt">>
                /\ RealLoc(<<"root">>, <<"chain", "dir", "t.txt">>).loc = <<"outside", "dir", "t.txt">>
                /\ RealLoc(<<"root", "sub">>, <<"up_out", "t.txt">>).loc = <<"outside", "dir", "t.txt">>
                /\ RealLoc(<<"root">>, <<"link_in", "b.txt">>).loc = <<"root", "sub", "b.txt">>
                /\ RealLoc(<<"root">>, <<"link_out", "..", "root", "a.txt">>).loc = <<"root", "a.txt">>
                /\ ~RealLoc(<<"root">>, <<"dangling", "x">>).ok
====
