---- MODULE MC_IngredientGraph ----
EXTENDS IngredientGraph, Json
Emit == verdict # "run" => PrintT(<<"VEC", ToJson([edges |-> edge, verdict |-> verdict, cyclic |-> Cyclic, dangling |-> Dangling, deep |-> TooDeep, visited |-> Cardinality(visited)])>>)
====
