---- MODULE MC_Workflow_TTrace_1790099019 ----
EXTENDS Sequences, TLCExt, MC_Workflow, Toolbox, Naturals, TLC

_expression ==
    LET MC_Workflow_TEExpression == INSTANCE MC_Workflow_TEExpression
    IN MC_Workflow_TEExpression!expression
----

_trace ==
    LET MC_Workflow_TETrace == INSTANCE MC_Workflow_TETrace
    IN MC_Workflow_TETrace!trace
----

_inv ==
    ~(
        TLCGet("level") = Len(_TETrace)
        /\
        hist = (<<[i |-> 0, op |-> "S", cv |-> 1, ings |-> <<>>, arch |-> 0, fl |-> "sync", via |-> "stream"], [i |-> 0, op |-> "S", cv |-> 1, ings |-> <<1>>, arch |-> 0, fl |-> "sync", via |-> "stream"], [i |-> 0, op |-> "S", cv |-> 2, ings |-> <<2>>, arch |-> 0, fl |-> "sync", via |-> "stream"]>>)
        /\
        legacy = (FALSE)
        /\
        assets = (<<[kind |-> "signed", base |-> 0, cv |-> 1, ings |-> <<>>, arch |-> 0, fl |-> "sync", via |-> "stream"], [kind |-> "signed", base |-> 0, cv |-> 1, ings |-> <<1>>, arch |-> 0, fl |-> "sync", via |-> "stream"], [kind |-> "signed", base |-> 0, cv |-> 2, ings |-> <<2>>, arch |-> 0, fl |-> "sync", via |-> "stream"]>>)
    )
----

_init ==
    /\ legacy = _TETrace[1].legacy
    /\ hist = _TETrace[1].hist
    /\ assets = _TETrace[1].assets
----

_next ==
    /\ \E i,j \in DOMAIN _TETrace:
        /\ \/ /\ j = i + 1
              /\ i = TLCGet("level")
        /\ legacy  = _TETrace[i].legacy
        /\ legacy' = _TETrace[j].legacy
        /\ hist  = _TETrace[i].hist
        /\ hist' = _TETrace[j].hist
        /\ assets  = _TETrace[i].assets
        /\ assets' = _TETrace[j].assets

\* Uncomment the ASSUME below to write the states of the error trace
\* to the given file in Json format. Note that you can pass any tuple
\* to `JsonSerialize`. For example, a sub-sequence of _TETrace.
    \* ASSUME
    \*     LET J == INSTANCE Json
    \*         IN J!JsonSerialize("MC_Workflow_TTrace_1790099019.json", _TETrace)

=============================================================================

 Note that you can extract this module `MC_Workflow_TEExpression`
  to a dedicated file to reuse `expression` (the module in the 
  dedicated `MC_Workflow_TEExpression.tla` file takes precedence 
  over the module `MC_Workflow_TEExpression` below).

---- MODULE MC_Workflow_TEExpression ----
EXTENDS Sequences, TLCExt, MC_Workflow, Toolbox, Naturals, TLC

expression == 
    [
        \* To hide variables of the `MC_Workflow` spec from the error trace,
        \* remove the variables below.  The trace will be written in the order
        \* of the fields of this record.
        legacy |-> legacy
        ,hist |-> hist
        ,assets |-> assets
        
        \* Put additional constant-, state-, and action-level expressions here:
        \* ,_stateNumber |-> _TEPosition
        \* ,_legacyUnchanged |-> legacy = legacy'
        
        \* Format the `legacy` variable as Json value.
        \* ,_legacyJson |->
        \*     LET J == INSTANCE Json
        \*     IN J!ToJson(legacy)
        
        \* Lastly, you may build expressions over arbitrary sets of states by
        \* leveraging the _TETrace operator.  For example, this is how to
        \* count the number of times a spec variable changed up to the current
        \* state in the trace.
        \* ,_legacyModCount |->
        \*     LET F[s \in DOMAIN _TETrace] ==
        \*         IF s = 1 THEN 0
        \*         ELSE IF _TETrace[s].legacy # _TETrace[s-1].legacy
        \*             THEN 1 + F[s-1] ELSE F[s-1]
        \*     IN F[_TEPosition - 1]
    ]

=============================================================================



Parsing and semantic processing can take forever if the trace below is long.
 In this case, it is advised to uncomment the module below to deserialize the
 trace from a generated binary file.

\*
\*---- MODULE MC_Workflow_TETrace ----
\*EXTENDS IOUtils, MC_Workflow, TLC
\*
\*trace == IODeserialize("MC_Workflow_TTrace_1790099019.bin", TRUE)
\*
\*=============================================================================
\*

---- MODULE MC_Workflow_TETrace ----
EXTENDS MC_Workflow, TLC

trace == 
    <<
    ([hist |-> <<>>,legacy |-> FALSE,assets |-> <<>>]),
    ([hist |-> <<[i |-> 0, op |-> "S", cv |-> 1, ings |-> <<>>, arch |-> 0, fl |-> "sync", via |-> "stream"]>>,legacy |-> FALSE,assets |-> <<[kind |-> "signed", base |-> 0, cv |-> 1, ings |-> <<>>, arch |-> 0, fl |-> "sync", via |-> "stream"]>>]),
    ([hist |-> <<[i |-> 0, op |-> "S", cv |-> 1, ings |-> <<>>, arch |-> 0, fl |-> "sync", via |-> "stream"], [i |-> 0, op |-> "S", cv |-> 1, ings |-> <<1>>, arch |-> 0, fl |-> "sync", via |-> "stream"]>>,legacy |-> FALSE,assets |-> <<[kind |-> "signed", base |-> 0, cv |-> 1, ings |-> <<>>, arch |-> 0, fl |-> "sync", via |-> "stream"], [kind |-> "signed", base |-> 0, cv |-> 1, ings |-> <<1>>, arch |-> 0, fl |-> "sync", via |-> "stream"]>>]),
    ([hist |-> <<[i |-> 0, op |-> "S", cv |-> 1, ings |-> <<>>, arch |-> 0, fl |-> "sync", via |-> "stream"], [i |-> 0, op |-> "S", cv |-> 1, ings |-> <<1>>, arch |-> 0, fl |-> "sync", via |-> "stream"], [i |-> 0, op |-> "S", cv |-> 2, ings |-> <<2>>, arch |-> 0, fl |-> "sync", via |-> "stream"]>>,legacy |-> FALSE,assets |-> <<[kind |-> "signed", base |-> 0, cv |-> 1, ings |-> <<>>, arch |-> 0, fl |-> "sync", via |-> "stream"], [kind |-> "signed", base |-> 0, cv |-> 1, ings |-> <<1>>, arch |-> 0, fl |-> "sync", via |-> "stream"], [kind |-> "signed", base |-> 0, cv |-> 2, ings |-> <<2>>, arch |-> 0, fl |-> "sync", via |-> "stream"]>>])
    >>
----


=============================================================================

---- CONFIG MC_Workflow_TTrace_1790099019 ----
CONSTANTS
    MaxOps = 3
    MaxIng = 1
    MaxArch = 0
    Variants = TRUE

INVARIANT
    _inv

CHECK_DEADLOCK
    \* CHECK_DEADLOCK off because of PROPERTY or INVARIANT above.
    FALSE

INIT
    _init

NEXT
    _next

CONSTANT
    _TETrace <- _trace

ALIAS
    _expression
=============================================================================
\* Generated on Tue Sep 22 17:43:45 UTC 2026