SPECIFICATION Spec
INVARIANTS TimeOnlyWhenUsable ExpiredNeedsUsableToken UnusableNeverRescues
CHECK_DEADLOCK FALSE
