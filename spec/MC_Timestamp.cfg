SPECIFICATION Spec
INVARIANTS TimeOnlyWhenUsable ExpiredNeedsUsableToken UnusableNeverRescues TokenTimeBinds TimeJudgesBothWays
CHECK_DEADLOCK FALSE
