---- MODULE SettingsMerge ----
(***************************************************************************)
(* C25 -- settings updates.  A settings/overlay document is a tree:        *)
(*   [k |-> "obj", kids |-> [key |-> tree]]  or  [k |-> "leaf", v |-> id]  *)
(* where a leaf id is the canonical JSON text of a non-object value        *)
(* (arrays, numbers, strings, booleans and null are leaves: merging only   *)
(* descends into objects).  Merge is the recursive overlay; Apply is       *)
(* atomic: the settings change only if the merged document is valid.       *)
(***************************************************************************)
EXTENDS Naturals, Sequences, FiniteSets, TLC

CONSTANT MaxDepth            \* MERGE_MAX_DEPTH of the implementation (64)

Obj(kids) == [k |-> "obj", kids |-> kids]
Leaf(v)   == [k |-> "leaf", v |-> v]
NullLeaf  == Leaf("null")
IsObj(n)  == n.k = "obj"
Keys(n)   == DOMAIN n.kids

RECURSIVE Merge(_, _, _)
Merge(t, o, depth) ==
  IF IsObj(t) /\ IsObj(o) /\ depth < MaxDepth
  THEN Obj([key \in Keys(t) \cup Keys(o) |->
              IF key \in Keys(o)
              THEN Merge(IF key \in Keys(t) THEN t.kids[key] ELSE NullLeaf, o.kids[key], depth + 1)
              ELSE t.kids[key]])
  ELSE o

\* path = sequence of keys; Missing when the path does not resolve
Missing == [k |-> "missing"]
RECURSIVE Get(_, _)
Get(n, p) == IF p = <<>> THEN n
             ELSE IF IsObj(n) /\ Head(p) \in Keys(n) THEN Get(n.kids[Head(p)], Tail(p)) ELSE Missing
Defines(n, p) == Get(n, p) # Missing

RECURSIVE Set(_, _, _)
Set(n, p, v) ==     \* set_at_path: intermediate non-objects are replaced by objects
  LET base == IF IsObj(n) THEN n ELSE Obj(<<>>) IN
  IF Len(p) = 1 THEN Obj([key \in Keys(base) \cup {p[1]} |-> IF key = p[1] THEN v ELSE base.kids[key]])
  ELSE Obj([key \in Keys(base) \cup {p[1]} |->
              IF key = p[1] THEN Set(IF p[1] \in Keys(base) THEN base.kids[p[1]] ELSE Obj(<<>>), Tail(p), v)
              ELSE base.kids[key]])

RECURSIVE LeafPaths(_)
LeafPaths(n) == IF ~IsObj(n) THEN {<<>>}
                ELSE UNION {{<<key>> \o q : q \in LeafPaths(n.kids[key])} : key \in Keys(n)}
IsPrefix(p, q) == Len(p) <= Len(q) /\ SubSeq(q, 1, Len(p)) = p

\* ---- the laws
\* every leaf of the merged document comes from the overlay where the overlay defines that path
\* (or a prefix of it as a leaf), and from the old settings otherwise
MergeLaw(s, d) == LET m == Merge(s, d, 0) IN
  \A p \in LeafPaths(m) : Get(m, p) = (IF Defines(d, p) THEN Get(d, p) ELSE Get(s, p))
Idempotent(s, d) == Merge(Merge(s, d, 0), d, 0) = Merge(s, d, 0)
EmptyOverlay(s) == IsObj(s) => Merge(s, Obj(<<>>), 0) = s
SetGet(s, p, v) == LET t == Set(s, p, v) IN
  /\ Get(t, p) = v
  /\ \A q \in LeafPaths(s) : (~IsPrefix(p, q) /\ ~IsPrefix(q, p)) => Get(t, q) = Get(s, q)

\* ---- acceptance of one observed update (binding O)
\* before/after are the settings as JSON trees; `ok` the call's result; in-place calls also report `after_inplace`.
\* On success every leaf path of the resulting settings must equal the merged document at that path
\* (the typed settings struct may drop unknown keys and fill defaults, so only its own leaf paths are compared).
Mismatches(before, doc, after) == LET m == Merge(before, doc, 0) IN
  {p \in LeafPaths(after) : Defines(m, p) /\ ~IsObj(Get(m, p)) /\ Get(after, p) # Get(m, p)}
Untouched(before, doc, after) ==      \* paths the overlay does not mention keep their value
  {p \in LeafPaths(before) : ~Defines(doc, p) /\ (\A i \in 1..Len(p) : ~(Defines(doc, SubSeq(p, 1, i)) /\ ~IsObj(Get(doc, SubSeq(p, 1, i)))))
                              /\ Get(after, p) # Get(before, p)}
====
