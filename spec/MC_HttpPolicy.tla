---- MODULE MC_HttpPolicy ----
EXTENDS HttpPolicy, HttpPolicyClasses, Json
CONSTANT Mode     \* "allow" = allow-list focus, "redirect" = redirect focus, "chain" = long chains
U(s, h, p) == [scheme |-> s, host |-> h, port |-> p]
AllUris == {U(s, h, p) : s \in MCSchemes, h \in MCNames \cup {"loopback", "ip4global"}, p \in MCPorts}
Pat(s, h, w, p) == [scheme |-> s, host |-> h, wild |-> w, port |-> p]
Patterns == {Pat(s, h, FALSE, p) : s \in {"none", "https"}, h \in {"A", "SA", "ip4global"}, p \in {"none", "8080"}}
            \cup {Pat(s, "A", TRUE, p) : s \in {"none", "http"}, p \in {"none", "dflt"}}
            \cup {Pat("https", "none", FALSE, "none")}
U0 == U("https", "A", "none")
Redirect(loc) == [kind |-> "redirect", loc |-> loc]
Abs(u) == [kind |-> "abs", uri |-> u]
Rel == [kind |-> "rel", uri |-> U0]
BadLoc == [kind |-> "bad", uri |-> U0]
TransportError == [kind |-> "error", loc |-> Rel]
\* allow-list focus: every pattern list of length <= 2 (sampled), every initial URI, scripts of <= 1 hop to a few targets
\* (the empty list is a configured allow-list that matches nothing: every request is refused)
AllowLists == {<<>>} \cup {<<p>> : p \in Patterns} \cup {<<p, q>> : p \in {Pat("none", "A", FALSE, "none"), Pat("https", "none", FALSE, "none")}, q \in Patterns}
HopTargets == {U("https", "A", "none"), U("http", "SA", "8080"), U("https", "B", "none"), U("https", "FA", "none"), U("https", "loopback", "none")}
AllowScripts == {<<>>} \cup {<<Redirect(Rel)>>} \cup {<<Redirect(Abs(t))>> : t \in HopTargets}
\* redirect focus: no allow-list or one wildcard; all scripts of <= 2 hops over every location class
RedirLocs == {Rel, BadLoc} \cup {Abs(U("https", h, "none")) : h \in MCInternal \cup MCGlobal \cup {"B"}}
RedirScripts == {<<>>} \cup {<<Redirect(l)>> : l \in RedirLocs} \cup {<<Redirect(l), Redirect(m)>> : l \in {Rel, Abs(U("https", "B", "none"))}, m \in RedirLocs}
                \cup {<<TransportError>>, <<Redirect(Abs(U("https", "B", "none"))), TransportError>>}
\* long chains of global redirects, optionally ending in an internal target
Chain(n, last) == [i \in 1..n |-> IF i = n /\ last # "none" THEN Redirect(Abs(U("https", last, "none")))
                                  ELSE Redirect(Abs(U("https", IF i % 2 = 0 THEN "A" ELSE "B", "none")))]
ChainScripts == {Chain(n, l) : n \in 0..13, l \in {"none", "loopback", "v6ula"}}
HeaderSets == {{}, {"Authorization", "Accept"}, HeaderNames}

MCInit ==
  /\ result = "pending" /\ sent = <<>>
  /\ \/ /\ Mode = "allow"
        /\ restricted = TRUE /\ allow \in AllowLists /\ allowRedirects \in BOOLEAN /\ script \in AllowScripts
        /\ \E u \in AllUris : req = [uri |-> u, headers |-> {"Authorization", "Accept"}]
     \/ /\ Mode = "redirect"
        /\ \/ restricted = FALSE /\ allow = <<>>
           \/ restricted = TRUE /\ allow \in {<<Pat("none", "A", TRUE, "none")>>, <<Pat("none", "B", FALSE, "none"), Pat("none", "A", FALSE, "none")>>}
        /\ allowRedirects \in BOOLEAN /\ script \in RedirScripts
        /\ \E u \in {U("https", "A", "none"), U("http", "SA", "none"), U("https", "loopback", "8080")}, hs \in HeaderSets : req = [uri |-> u, headers |-> hs]
     \/ /\ Mode = "chain"
        /\ \/ restricted = FALSE /\ allow = <<>>
           \/ restricted = TRUE /\ allow = <<Pat("none", "B", FALSE, "none"), Pat("none", "A", FALSE, "none")>>
        /\ allowRedirects = TRUE /\ script \in ChainScripts
        /\ req = [uri |-> U("https", "A", "none"), headers |-> HeaderNames]
MCSpec == MCInit /\ [][Next]_vars /\ WF_vars(Send)
\* the configuration is hidden from the vector only through the initial request: export on terminal states
Emit == result # "pending" =>
        PrintT(<<"VEC", ToJson([restricted |-> restricted, allow |-> allow, allowRedirects |-> allowRedirects, script |-> script,
                                sent |-> [k \in 1..Len(sent) |-> [uri |-> sent[k].uri, headers |-> sent[k].headers]],
                                result |-> result, first |-> (IF sent = <<>> THEN req ELSE sent[1])])>>)
\* vacuity witnesses (expected to be violated)
NoTooMany == result # "tooMany"
NoTargetDisallowed == result # "targetDisallowed"
NoUriDisallowedOnHop == ~(result = "uriDisallowed" /\ Len(sent) > 0)
====
