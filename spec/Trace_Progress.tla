---- MODULE Trace_Progress ----
(* Binding T for C23: the recorded callback stream of real operations is validated against Progress.        *)
(* Events: [e |-> "reset"] | [e |-> "cb", phase, step, total, ret] | [e |-> "cancel"] | [e |-> "finish", o] *)
(* Many runs are concatenated with reset events.  Two layers: the cancellation rule (CancelWins) is         *)
(* enforced by Finish; the step grammar by Callback.  To report them separately the trace spec takes        *)
(* grammar-violating callbacks through a marked action and counts them.                                      *)
EXTENDS Progress, Json, IOUtils, TLCExt
Rec == ndJsonDeserialize(IOEnv.TRACE)
VARIABLES l, badGrammar, badFinish
tvars == <<vars, l, badGrammar, badFinish>>
TInit == Init /\ l = 1 /\ badGrammar = <<>> /\ badFinish = <<>>
Ev == Rec[l]
TReset == /\ Ev.e = "reset"
          /\ lastPhase' = "none" /\ lastStep' = 0 /\ refused' = FALSE /\ cancelled' = FALSE /\ outcome' = "running"
          /\ UNCHANGED <<badGrammar, badFinish>>
TCallback == /\ Ev.e = "cb"
             /\ IF StepOK(Ev.phase, Ev.step, Ev.total)
                THEN Callback(Ev.phase, Ev.step, Ev.total, Ev.ret) /\ UNCHANGED badGrammar
                ELSE /\ badGrammar' = Append(badGrammar, l)
                     /\ lastPhase' = Ev.phase /\ lastStep' = Ev.step /\ refused' = (refused \/ ~Ev.ret)
                     /\ UNCHANGED <<cancelled, outcome>>
             /\ UNCHANGED badFinish
TCancel == Ev.e = "cancel" /\ Cancel /\ UNCHANGED <<badGrammar, badFinish>>
TFinish == /\ Ev.e = "finish"
           /\ IF ENABLED Finish(Ev.o) THEN Finish(Ev.o) /\ UNCHANGED badFinish
              ELSE /\ badFinish' = Append(badFinish, l) /\ outcome' = Ev.o
                   /\ UNCHANGED <<lastPhase, lastStep, refused, cancelled>>
           /\ UNCHANGED badGrammar
TNext == l <= Len(Rec) /\ l' = l + 1 /\ (TReset \/ TCallback \/ TCancel \/ TFinish)
TSpec == TInit /\ [][TNext]_tvars
\* acceptance: the whole trace was consumed; the verdict lists are printed for the driver
Accepted == LET d == TLCGet("stats").diameter IN
  /\ PrintT(<<"TRACE_MATCHED", d - 1>>)
  /\ d - 1 = Len(Rec)
AtEnd == l = Len(Rec) + 1 => PrintT(<<"VERDICT", ToJson([badGrammar |-> badGrammar, badFinish |-> badFinish])>>)
====
