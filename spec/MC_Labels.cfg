SPECIFICATION Spec
INVARIANT InvLabel InvUri InvInstance
CHECK_DEADLOCK FALSE
