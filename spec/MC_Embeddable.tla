---- MODULE MC_Embeddable ----
EXTENDS Embeddable, Json
\* exclusion lists are drawn by shape: n ranges, all with the same magnitude pair (keeps the space small and
\* covers every (count, start magnitude, length magnitude) combination)
Mags == {3, 200, 40000, 70000}
Shapes == {[i \in 1..n |-> <<s, l>>] : n \in 1..12, s \in Mags, l \in Mags}
MCNext == Placeholder \/ UpdateHash \/ SignEmbeddable \/ (\E es \in Shapes : SetExclusions(es)) \/ (pc = "done" /\ UNCHANGED vars)
MCSpec == Init /\ [][MCNext]_vars
Emit == pc = "done" => PrintT(<<"VEC", ToJson([n |-> Len(excl), start |-> excl[1][1], length |-> excl[1][2], fits |-> Fits(excl), kind |-> ret.kind])>>)
TenSmallFit == \A n \in 1..10 : Fits([i \in 1..n |-> <<3, 3>>])
SomeOutgrow == \E es \in Shapes : ~Fits(es)
ASSUME TenSmallFit /\ SomeOutgrow
====
