---- MODULE MC_Embeddable ----
EXTENDS Embeddable, Json
\* exclusion lists are drawn by shape: n ranges, all with the same magnitude pair (keeps the space small and
\* covers every (count, start magnitude, length magnitude) combination)
Mags == {3, 200, 40000, 70000}
Shapes == {[i \in 1..n |-> <<s, l>>] : n \in 1..12, s \in Mags, l \in Mags}
\* second-round shapes (a smaller and a larger list than a typical first round)
Shapes2 == {[i \in 1..n |-> <<s, l>>] : n \in {1, 11}, s \in {3, 40000}, l \in {3, 200}}
MCNext == Placeholder \/ Again \/ UpdateHash \/ SignEmbeddable
          \/ (\E es \in (IF round = 1 THEN Shapes ELSE Shapes2) : SetExclusions(es)) \/ (pc = "done" /\ UNCHANGED vars)
VARIABLE hist        \* exclusion shapes of the rounds so far (history variable for vector export)
HNext == MCNext /\ hist' = IF pc = "placed" /\ pc' = "excluded" THEN Append(hist, [n |-> Len(excl'), start |-> excl'[1][1], length |-> excl'[1][2]]) ELSE hist
HSpec == (Init /\ hist = <<>>) /\ [][HNext]_<<vars, hist>>
MCSpec == HSpec
Emit == (pc = "done") => PrintT(<<"VEC", ToJson([rounds |-> hist, kind |-> ret.kind, round |-> round])>>)
TenSmallFit == \A n \in 1..10 : Fits([i \in 1..n |-> <<3, 3>>])
SomeOutgrow == \E es \in Shapes : ~Fits(es)
ASSUME TenSmallFit /\ SomeOutgrow
====
