\* exhaustive: 9 classes for the active manifest, up to 2 ingredient deltas over 4 failure classes
CONSTANT MaxDeltas = 2
SPECIFICATION Spec
INVARIANT TypeOK HardFailInvalid ValidNeedsSig TrustedNoFailure
PROPERTY Monotone MonotoneAnyFailure
CHECK_DEADLOCK FALSE
