
