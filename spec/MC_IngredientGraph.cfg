SPECIFICATION Spec
CONSTANTS N = 3  MaxOut = 2  DepthLimit = 2  Slots = "full"
INVARIANTS TypeOK Terminates NeverValidIfBad OkMeansTree
CHECK_DEADLOCK FALSE
