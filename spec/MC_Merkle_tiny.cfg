\* every leaf count 1..24, every leaf index, every max-proof depth 0..depth
CONSTANT MaxN = 24
SPECIFICATION Spec
INVARIANT InvComplete InvSoundLeaf InvSoundIndex InvTamper InvLayout
CHECK_DEADLOCK FALSE
