\* ranges with 3,1,2,4 chunks: every interleaving of the reader and the hashing worker
CONSTANT NChunks <- NC_thorough
SPECIFICATION Spec
INVARIANT InOrder DoneRight OneOwner
PROPERTY Terminates
CHECK_DEADLOCK FALSE
