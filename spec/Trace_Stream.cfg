SPECIFICATION TSpec
CONSTANTS DataLen = 1  MaxSteps = 1  MaxChunk = 1  AllowSingle = FALSE
INVARIANT AtEnd
POSTCONDITION Accepted
CHECK_DEADLOCK FALSE
