CONSTANTS Manifests = {1, 2}  NAssert = 1
INIT Init
NEXT ONext
CHECK_DEADLOCK FALSE
