\* same space with the depth limit lowered to 1: below the limit objects replace instead of merging
CONSTANTS MaxDepth = 1  LeafVals = {"1", "null"}
SPECIFICATION Spec
INVARIANT InvIdempotent InvEmpty
CHECK_DEADLOCK FALSE
