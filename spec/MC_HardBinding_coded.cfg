SPECIFICATION Spec
INVARIANT TamperEvidentCoded
CHECK_DEADLOCK FALSE
