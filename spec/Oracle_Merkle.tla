---- MODULE Oracle_Merkle ----
(* Binding O for C16: for each recorded (n, maxp) batch TLC computes, with the abstract injective hash,   *)
(* whether each recorded verification attempt must be accepted, and compares with what the real           *)
(* check_merkle_tree answered.  A batch = one tree; checks = <<i, kind, param, accepted>>.                *)
EXTENDS Merkle, Json, IOUtils
Rec == ndJsonDeserialize(IOEnv.TRACE)
Expect(n, t, row, maxp, c) ==
  LET i == c[1]  kind == c[2]  q == c[3]
      p == TLCEval(ProofFrom(t, 1, i, maxp))
  IN CASE kind = "ok"      -> Check(n, row, i, Leaf(i), p)
       [] kind = "leaf"    -> Check(n, row, i, Leaf(q), p)
       [] kind = "index"   -> Check(n, row, q, Leaf(i), p)
       [] kind = "replace" -> Check(n, row, i, Leaf(i), Replace(p, q, Junk))
       [] kind = "drop"    -> Check(n, row, i, Leaf(i), DropAt(p, q))
       [] kind = "none"    -> CheckNone(n, row, i, Leaf(i))
Judge(r) == LET t == TLCEval(Tree(r.n))       \* force evaluation: TLC would otherwise re-evaluate lazily
                row == TLCEval(StoredRowT(t, r.maxp))
                bad == {k \in 1..Len(r.checks) : Expect(r.n, t, row, r.maxp, r.checks[k]) # r.checks[k][4]}
            IN [bad |-> bad, rowlen |-> Len(row), layers |-> Len(t)]
Out == [k \in 1..Len(Rec) |-> Judge(Rec[k])]
ASSUME ndJsonSerialize(IOEnv.OUT, Out)
====
