CONSTANTS Total = 19  Leaf = 4  Skip = 8
SPECIFICATION Spec
INVARIANT LeavesCoverExactly FixedIndependent
CHECK_DEADLOCK FALSE
