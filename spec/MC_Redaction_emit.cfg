SPECIFICATION Spec
CONSTANTS Depth = 3
INVARIANTS Emit
CHECK_DEADLOCK FALSE
