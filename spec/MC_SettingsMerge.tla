---- MODULE MC_SettingsMerge ----
EXTENDS SettingsMerge
\* all trees of depth <= 2 over keys {a, b} and leaf values {1, 2, null}
CONSTANT LeafVals
KeysU == {"a", "b"}
Leaves == {Leaf(v) : v \in LeafVals}
ObjsOver(S) == {Obj(f) : f \in UNION {[K -> S] : K \in SUBSET KeysU}}
T1 == Leaves \cup ObjsOver(Leaves)
T2 == Leaves \cup ObjsOver(T1)
Paths == {<<x>> : x \in KeysU} \cup {<<x, y>> : x \in KeysU, y \in KeysU}
VARIABLES s, d
vars == <<s, d>>
Init == s \in T2 /\ d \in T2
Next == UNCHANGED vars
Spec == Init /\ [][Next]_vars
InvMergeLaw == MergeLaw(s, d)
InvIdempotent == Idempotent(s, d)
InvEmpty == EmptyOverlay(s)
InvSetGet == \A p \in Paths : SetGet(s, p, d)
\* the observation judge accepts the ideal implementation (no false alarm by construction)
InvJudgeSound == Mismatches(s, d, Merge(s, d, 0)) = {} /\ (IsObj(s) /\ IsObj(d) => Untouched(s, d, Merge(s, d, 0)) = {})
====
