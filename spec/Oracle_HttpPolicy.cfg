CONSTANTS Names <- MCNames  Parent <- MCParent  InternalHosts <- MCInternal  GlobalHosts <- MCGlobal
          Schemes <- MCSchemes  Ports <- MCPorts  MaxRedirects = 10
INIT OInit
NEXT ONext
CHECK_DEADLOCK FALSE
