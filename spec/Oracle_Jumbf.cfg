
