SPECIFICATION Spec
CONSTANTS MaxOps = 3  MaxIng = 1  MaxArch = 1  Variants = TRUE
INVARIANTS TypeOK FlavourArchiveInvisible ManifestsCarried UnsignedClean TamperedIngredientRecorded ProfileLocal LegacyWellFormed
PROPERTIES DescStable
CHECK_DEADLOCK FALSE
