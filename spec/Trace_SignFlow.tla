---- MODULE Trace_SignFlow ----
(* Binding T for C03: the serialisation events (hook H3) of real signing operations.                       *)
(* Events: [e |-> "begin"] | [e |-> "jumbf", len, signed] | [e |-> "end", ok]                                *)
(* Within one successful signing every serialisation of the store being signed has the same length         *)
(* (the signed one included), and at least one unsigned and one signed serialisation are observed.         *)
EXTENDS Naturals, Sequences, TLC, Json, IOUtils
Rec == ndJsonDeserialize(IOEnv.TRACE)
VARIABLES l, lens, sawSigned, bad
tvars == <<l, lens, sawSigned, bad>>
Ev == Rec[l]
TInit == l = 1 /\ lens = <<>> /\ sawSigned = FALSE /\ bad = <<>>
TBegin == Ev.e = "begin" /\ lens' = <<>> /\ sawSigned' = FALSE /\ UNCHANGED bad
TJumbf == Ev.e = "jumbf" /\ lens' = Append(lens, Ev.len) /\ sawSigned' = (sawSigned \/ Ev.signed) /\ UNCHANGED bad
Stable == \A i, j \in 1..Len(lens) : lens[i] = lens[j]
TEnd == /\ Ev.e = "end" /\ UNCHANGED <<lens, sawSigned>>
        /\ bad' = IF Ev.ok /\ ~Stable THEN Append(bad, <<l, "sizes-differ">>)
                  ELSE IF Ev.ok /\ (Len(lens) < 2 \/ ~sawSigned) THEN Append(bad, <<l, "drift-steps">>)
                  ELSE bad
TNext == l <= Len(Rec) /\ l' = l + 1 /\ (TBegin \/ TJumbf \/ TEnd)
TSpec == TInit /\ [][TNext]_tvars
Accepted == LET d == TLCGet("stats").diameter IN PrintT(<<"TRACE_MATCHED", d - 1>>) /\ d - 1 = Len(Rec)
AtEnd == l = Len(Rec) + 1 => PrintT(<<"VERDICT", ToJson([bad |-> bad])>>)
====
