SPECIFICATION Spec
INVARIANTS ViolationNeverAccepted ConformingNeverFlagged OnlyValidityDependsOnTime StampRescuesExpired
CHECK_DEADLOCK FALSE
