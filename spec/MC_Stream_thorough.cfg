SPECIFICATION Spec
CONSTANTS DataLen = 4  MaxSteps = 3  MaxChunk = 3  AllowSingle = FALSE
INVARIANTS TypeOK ChunkingInvisible FaultsSurface NoLostWrites ErrOnlyWithCause
CHECK_DEADLOCK FALSE
