
