---- MODULE SignFlow ----
(***************************************************************************)
(* C03 -- the two-pass signing pipeline (Store::save_to_stream):           *)
(*   Prepare   serialise the store with a placeholder signature of the     *)
(*             signer's reserve size and a placeholder hash      -> j0     *)
(*   Embed     write j0 bytes into the asset at the format's position      *)
(*   Locate    ask the handler where the manifest container is             *)
(*   Hash      hash the asset around the container, store the hash,        *)
(*             re-serialise                                       -> j1    *)
(*   Sign      sign the claim, pad the signature to the reserve,           *)
(*             re-serialise                                       -> j2    *)
(*   Patch     replace the embedded j0 bytes by the j2 bytes in place      *)
(*   Verify    read back                                                   *)
(* The pipeline is correct only if the three serialisations have the same  *)
(* size and the same-size replacement touches nothing else.  The contracts *)
(* it relies on are parameters: each is a property of its own (C08, C13,   *)
(* C14, C18); TLC shows the round trip holds given all of them and fails   *)
(* when any one is dropped.                                                *)
(***************************************************************************)
EXTENDS Naturals, Sequences, TLC

CONSTANTS G_SameHashLen,   \* the placeholder hash has the length of the real hash
          G_PadExact,      \* the signature is padded to exactly the reserve size (C14)
          G_Locality,      \* same-size replacement changes only the manifest container (C08)
          G_RangeHash      \* hashing excludes exactly the located container (C13)

Modes == {"embed", "sidecar", "remote", "embed+remote"}
VARIABLES pc, mode, j0, j1, j2, assetOK, bound, verdict
vars == <<pc, mode, j0, j1, j2, assetOK, bound, verdict>>
Base == 1000
Init == pc = "start" /\ mode \in Modes /\ j0 = 0 /\ j1 = 0 /\ j2 = 0 /\ assetOK = TRUE /\ bound = FALSE /\ verdict = "none"
Embedded == mode \in {"embed", "embed+remote"}

Prepare == pc = "start" /\ j0' = Base /\ pc' = "prepared" /\ UNCHANGED <<mode, j1, j2, assetOK, bound, verdict>>
Embed   == pc = "prepared" /\ pc' = "embedded" /\ UNCHANGED <<mode, j0, j1, j2, assetOK, bound, verdict>>
Locate  == pc = "embedded" /\ pc' = "located" /\ UNCHANGED <<mode, j0, j1, j2, assetOK, bound, verdict>>
Hash    == /\ pc = "located"
           /\ j1' = (IF G_SameHashLen THEN j0 ELSE j0 + 16)
           /\ bound' = G_RangeHash            \* the stored hash really binds the bytes outside the container
           /\ pc' = "hashed" /\ UNCHANGED <<mode, j0, j2, assetOK, verdict>>
Sign    == /\ pc = "hashed"
           /\ j2' = (IF G_PadExact THEN j1 ELSE j1 - 3)
           /\ pc' = "signed" /\ UNCHANGED <<mode, j0, j1, assetOK, bound, verdict>>
\* as coded: a size mismatch between the serialisations is an error (JumbfCreationError), never a silent patch
Patch   == /\ pc = "signed"
           /\ IF j2 # j0 \/ j1 # j0 THEN pc' = "failed" /\ UNCHANGED assetOK
              ELSE pc' = "patched" /\ assetOK' = (IF Embedded THEN G_Locality ELSE TRUE)
           /\ UNCHANGED <<mode, j0, j1, j2, bound, verdict>>
Verify  == /\ pc = "patched"
           /\ verdict' = IF assetOK /\ bound THEN "Valid" ELSE "Invalid"
           /\ pc' = "done" /\ UNCHANGED <<mode, j0, j1, j2, assetOK, bound>>
Next == Prepare \/ Embed \/ Locate \/ Hash \/ Sign \/ Patch \/ Verify \/ (pc \in {"done", "failed"} /\ UNCHANGED vars)
Spec == Init /\ [][Next]_vars /\ WF_vars(Next)

SizesStable == pc \in {"patched", "done"} => (j1 = j0 /\ j2 = j0)
RoundTrip == pc = "done" => verdict = "Valid"
SigningSucceeds == <>(pc = "done")
====
