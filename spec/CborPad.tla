---- MODULE CborPad ----
(***************************************************************************)
(* C14 -- reserved-size padding.  CBOR sizes are exact integers here.      *)
(* A COSE_Sign1 of unpadded size `cur` must be padded to exactly `end` by  *)
(* adding the unprotected-header entries "pad" (and "pad2"): zero-filled   *)
(* byte strings.  A data-hash assertion is padded by growing its "pad"     *)
(* byte string (always present) and, when needed, adding "pad2".           *)
(***************************************************************************)
EXTENDS Naturals, Integers, FiniteSets, TLC

HdrLen(n) == IF n < 24 THEN 1 ELSE IF n < 256 THEN 2 ELSE IF n < 65536 THEN 3 ELSE 5
BytesLen(n) == HdrLen(n) + n
PadEntry(p)  == 4 + BytesLen(p)     \* text(3) "pad"  + bstr(p)
Pad2Entry(q) == 5 + BytesLen(q)     \* text(4) "pad2" + bstr(q)

\* ---- design lemmas (TLC evaluates them over the whole reserve window)
\* gaps reachable with "pad" alone, and with "pad" + "pad2"
Reach1(d) == \E h \in {1, 2, 3, 5} : d - 4 - h >= 0 /\ HdrLen(d - 4 - h) = h
Reach2(d) == \E q \in 0..8 : d - Pad2Entry(q) >= 5 /\ Reach1(d - Pad2Entry(q))
Skipped == {29, 262, 65543, 65544}    \* gaps a single pad steps over (length-header growth at 24, 256, 65536)
MinGap == 7                           \* the SDK's PAD_OFFSET: smallest positive gap it promises to fill

\* ---- mirror layer: pad_cose_sig as coded.  First guess g = d - 7 (assumes a 3-byte length header);
\* the recursive call re-checks "cur + 7 > end" with the pad already inside, so only an exact first guess succeeds.
CodedCose(d) == IF d = 0 THEN "Ok"
                ELSE IF d < MinGap THEN "TooSmall"
                ELSE IF PadEntry(d - MinGap) = d THEN "Ok" ELSE "TooSmall"

\* ---- property layer.  An observation is (gap d = end - cur, outcome, size returned).
\*  Exact:    a success returns exactly the reserved size
\*  NoPanic:  never a panic
\*  Monotone: no size error for a gap >= MinGap that is larger than a gap >= MinGap that succeeded (judged per sweep)
ExactOK(d, outcome, size, end) == outcome = "Ok" => size = end
====
