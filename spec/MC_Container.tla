---- MODULE MC_Container ----
EXTENDS Container
MCStores == {"old", "A", "B", "C"}
MCSize == [s \in MCStores |-> IF s \in {"A", "B"} THEN 1 ELSE IF s = "C" THEN 2 ELSE 0]   \* A and B have the same size
\* every layout of 1..MaxLen segments over the five kinds with at most one manifest container (ids = positions, so
\* segments are distinguishable); replaces the three hand-picked Layouts in the *_all configurations
MCMaxLen == 5
MCKinds == {"head", "media", "meta", "tail", "c2pa"}
MCLayoutsAll == UNION { { [i \in 1..n |-> Seg(k[i], IF k[i] = "c2pa" THEN "old" ELSE i)] :
                            k \in { f \in [1..n -> MCKinds] : Cardinality({i \in 1..n : f[i] = "c2pa"}) <= 1 } } : n \in 1..MCMaxLen }
====
