---- MODULE MC_Container ----
EXTENDS Container
MCStores == {"old", "A", "B", "C"}
MCSize == [s \in MCStores |-> IF s \in {"A", "B"} THEN 1 ELSE IF s = "C" THEN 2 ELSE 0]   \* A and B have the same size
====
