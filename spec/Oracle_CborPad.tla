---- MODULE Oracle_CborPad ----
(* Binding O for C14: TLC judges recorded padding sweeps {cur, obs: <<gap, outcome, size>>...} *)
EXTENDS CborPad, Sequences, Json, IOUtils
Rec == ndJsonDeserialize(IOEnv.TRACE)
\* per sweep: indices violating Exact / NoPanic / Monotone, and indices where the mirror predicted otherwise (DRIFT)
Judge(r) ==
  LET o == r.obs
      N == Len(o)
      okAt(i)   == o[i][2] = "Ok"
      gap(i)    == o[i][1]
      inexact   == {i \in 1..N : okAt(i) /\ o[i][3] # r.cur + gap(i)}
      panics    == {i \in 1..N : o[i][2] = "Panic"}
      firstOk   == {i \in 1..N : okAt(i) /\ gap(i) >= MinGap}
      nonmono   == {i \in 1..N : o[i][2] = "TooSmall" /\ gap(i) >= MinGap /\ \E j \in firstOk : gap(j) < gap(i)}
      drift     == IF r.kind = "cose" THEN {i \in 1..N : o[i][2] \in {"Ok", "TooSmall"} /\ o[i][2] # CodedCose(gap(i))} ELSE {}
      notvalid  == IF r.kind = "e2e" THEN {i \in 1..N : okAt(i) /\ o[i][4] \notin {"Valid", "Trusted"}} ELSE {}
  IN [inexact |-> inexact, panics |-> panics, nonmono |-> nonmono, drift |-> drift, notvalid |-> notvalid]
Out == [i \in 1..Len(Rec) |-> Judge(Rec[i])]
ASSUME ndJsonSerialize(IOEnv.OUT, Out)
====
