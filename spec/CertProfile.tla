------------------------------ MODULE CertProfile ------------------------------
(***************************************************************************)
(* C06 -- the C2PA certificate profile as a rule set.  A signing            *)
(* certificate is described by the set of rules it violates; a time-stamp   *)
(* may fix the signing time inside or outside the validity window.          *)
(* Verdict: "ok" (the profile checks flag nothing) or "invalid" with the    *)
(* expected failure code.  TLC checks over all certificates violating at    *)
(* most two rules that a violation is never accepted, that conforming       *)
(* certificates are never flagged, and that only the validity rule is       *)
(* sensitive to the signing time.                                           *)
(***************************************************************************)
EXTENDS Naturals, FiniteSets, TLC
Rules == {"v1", "ca", "self-signed", "sig-alg", "weak-rsa", "curve", "no-ds-keyusage", "certsign-keyusage", "no-eku", "any-eku",
          "critical-unknown", "expired", "not-yet-valid", "unique-ids"}
TimeRules == {"expired", "not-yet-valid"}
Stamps == {"none", "inside", "outside"}     \* where a matching, valid time-stamp puts the signing time relative to the validity window
VARIABLES violated, stamp
vars == <<violated, stamp>>
Init == /\ violated \in {S \in SUBSET Rules : Cardinality(S) <= 2 /\ ~({"expired", "not-yet-valid"} \subseteq S)}
        /\ stamp \in Stamps
Next == UNCHANGED vars
Spec == Init /\ [][Next]_vars
\* the validity rule is judged at the signing time when a time-stamp fixes it, else now
TimeViolated == IF stamp = "inside" THEN FALSE ELSE IF stamp = "outside" THEN TRUE ELSE violated \cap TimeRules # {}
Effective == (violated \ TimeRules) \cup (IF TimeViolated THEN {"validity"} ELSE {})
Verdict == IF Effective = {} THEN "ok" ELSE "invalid"
Code == IF Effective = {} THEN "none" ELSE IF Effective = {"validity"} THEN "signingCredential.expired" ELSE "signingCredential.invalid"
ViolationNeverAccepted == (violated \ TimeRules # {}) => Verdict = "invalid"
ConformingNeverFlagged == (violated = {} /\ stamp # "outside") => Verdict = "ok"
OnlyValidityDependsOnTime == \A s \in Stamps : (violated \cap TimeRules = {} /\ stamp \in {"none", "inside"}) => Verdict = (IF violated = {} THEN "ok" ELSE "invalid")
StampRescuesExpired == (violated = {"expired"} /\ stamp = "inside") => Verdict = "ok"
=============================================================================
