---- MODULE MdatAccumulator ----
(***************************************************************************)
(* C17 -- incremental hashing of one mdat payload (MerkleAccumulator).     *)
(* The caller feeds the payload (the bytes after the box header) in chunks *)
(* of any size; the first Skip bytes are not covered by the Merkle tree    *)
(* (Skip = 8 for a standard box, 0 for a large-size box); leaves are       *)
(* intervals <<a, b>> (bytes a..b-1 of the payload).  With a fixed leaf    *)
(* size the leaves depend only on the payload; otherwise one leaf per      *)
(* (non-empty) chunk.  Flush happens in update_hash_from_stream.           *)
(***************************************************************************)
EXTENDS Naturals, Sequences, TLC

CONSTANTS Total,     \* payload length
          Leaf,      \* fixed leaf size, 0 = variable (one leaf per chunk)
          Skip       \* 8 or 0

VARIABLES fed,        \* payload bytes fed so far
          skipLeft,   \* bytes still to be skipped
          leaves,     \* completed leaves
          rem,        \* <<a, b>> buffered bytes of an incomplete fixed-size leaf, or <<0, 0>>
          flushed
vars == <<fed, skipLeft, leaves, rem, flushed>>
Init == fed = 0 /\ skipLeft = Skip /\ leaves = <<>> /\ rem = <<0, 0>> /\ flushed = FALSE

\* cut the interval [a, b) (continuing a buffered remainder) into fixed-size leaves
\* (the P-operators take the payload length T, leaf size L and skip S as parameters so that the trace
\*  specification can use values recorded at run time; the constant-based actions below instantiate them)
RECURSIVE Cut(_, _, _, _)
Cut(L, a, b, acc) ==      \* acc = <<leaves, rem>>
  IF a >= b THEN acc
  ELSE LET start == IF acc[2][2] > acc[2][1] THEN acc[2][1] ELSE a
           take  == IF (b - start) >= L THEN L - (a - start) ELSE b - a
           nxt   == TLCEval(IF (a + take) - start = L
                            THEN <<Append(acc[1], <<start, a + take>>), <<0, 0>>>>
                            ELSE <<acc[1], <<start, a + take>>>>)
       IN IF (a + take) - start = L THEN Cut(L, a + take, b, nxt) ELSE nxt

AddChunkP(T, L, n) ==
  /\ ~flushed /\ fed + n <= T
  /\ LET sk == IF n <= skipLeft THEN n ELSE skipLeft
         a  == fed + sk
         b  == fed + n
     IN /\ skipLeft' = skipLeft - sk
        /\ fed' = b
        /\ IF a >= b THEN UNCHANGED <<leaves, rem>>
           ELSE IF L = 0 THEN leaves' = Append(leaves, <<a, b>>) /\ UNCHANGED rem
           ELSE LET r == Cut(L, a, b, <<leaves, rem>>) IN leaves' = r[1] /\ rem' = r[2]
  /\ UNCHANGED flushed
AddChunk(n) == AddChunkP(Total, Leaf, n)
FlushP(T) ==
  /\ ~flushed /\ fed = T
  /\ leaves' = IF rem[2] > rem[1] THEN Append(leaves, rem) ELSE leaves
  /\ rem' = <<0, 0>> /\ flushed' = TRUE /\ UNCHANGED <<fed, skipLeft>>
Flush == FlushP(Total)
Next == (\E n \in 0..Total : AddChunk(n)) \/ Flush \/ (flushed /\ UNCHANGED vars)
Spec == Init /\ [][Next]_vars /\ WF_vars(Flush)

\* ---- properties
Contiguous(ls, from, to) == /\ (ls = <<>> => from >= to)
                            /\ (ls # <<>> => ls[1][1] = from /\ ls[Len(ls)][2] = to)
                            /\ \A i \in 1..Len(ls) : ls[i][1] < ls[i][2]
                            /\ \A i \in 1..(Len(ls) - 1) : ls[i][2] = ls[i + 1][1]
Lo == IF Skip < Total THEN Skip ELSE Total
\* after the flush the leaves are a partition of [Skip, Total): every payload byte after the skipped header
\* bytes is covered exactly once, whatever the chunking
LeavesCoverExactly == flushed => Contiguous(leaves, Lo, Total)
\* with a fixed leaf size the leaves depend only on the payload
RequiredP(T, L, S) == LET lo == IF S < T THEN S ELSE T IN
   [i \in 1..((T - lo + L - 1) \div (IF L = 0 THEN 1 ELSE L)) |->
               <<lo + (i - 1) * L, IF lo + i * L < T THEN lo + i * L ELSE T>>]
Required == RequiredP(Total, Leaf, Skip)
FixedIndependent == (flushed /\ Leaf > 0) => leaves = Required
====
