SPECIFICATION Spec
INVARIANTS RevokedNeverValid ForeignIgnored GoodKeeps BatchIrrelevant
CHECK_DEADLOCK FALSE
