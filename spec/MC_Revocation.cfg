SPECIFICATION Spec
INVARIANTS RevokedNeverValid ForeignIgnored GoodKeeps
CHECK_DEADLOCK FALSE
