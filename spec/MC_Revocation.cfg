SPECIFICATION Spec
INVARIANTS RevokedNeverValid ForeignIgnored GoodKeeps BatchIrrelevant ChainIrrelevant
CHECK_DEADLOCK FALSE
