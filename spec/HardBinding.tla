---- MODULE HardBinding ----
(***************************************************************************)
(* C01 -- tamper evidence of the signed asset content.                     *)
(* An asset is a sequence of regions; each region has a kind and a content *)
(* id.  Signing records a binding: which regions are hashed, and which the *)
(* hard-binding assertion declares excluded.  Tampering changes a region   *)
(* (flip), or inserts / deletes / appends / truncates regions.  Reading    *)
(* recomputes the binding on the current asset.                            *)
(*   kinds: "sig" header/signature, "media", "meta" (XMP etc.), "c2pa"     *)
(*   (the manifest container), "trailer" (bytes after the format's end     *)
(*   marker), "offsets" (BMFF chunk-offset tables, declared excluded)      *)
(***************************************************************************)
EXTENDS Naturals, Sequences, FiniteSets, TLC

Bindings == {"data", "box", "bmff"}
\* declared excluded by the signed assertion
DeclaredExcluded(b, r) == r.kind = "c2pa" \/ (b = "bmff" /\ r.kind \in {"offsets", "free"})

\* --- verification, property layer: the digest covers every region that is not declared excluded, in order
Covered(b, asset) == SelectSeq(asset, LAMBDA r : ~DeclaredExcluded(b, r))
Digest(b, asset) == [i \in 1..Len(Covered(b, asset)) |-> <<Covered(b, asset)[i].kind, Covered(b, asset)[i].id>>]
RefVerdict(b, signed, cur) == IF Digest(b, signed) = Digest(b, cur) THEN "Valid" ELSE "Invalid"

\* --- mirror layer (as coded): the box-hash verifier walks the boxes the format handler reports; bytes after the
\* format's end marker ("trailer" regions) are not part of any reported box, so they are never examined
Visible(b, r) == ~(b = "box" /\ r.kind = "trailer")
CodedDigest(b, asset) == LET c == SelectSeq(asset, LAMBDA r : ~DeclaredExcluded(b, r) /\ Visible(b, r))
                         IN [i \in 1..Len(c) |-> <<c[i].kind, c[i].id>>]
CodedVerdict(b, signed, cur) == IF CodedDigest(b, signed) = CodedDigest(b, cur) THEN "Valid" ELSE "Invalid"

VARIABLES binding, signed, cur, op
vars == <<binding, signed, cur, op>>
R(k, i) == [kind |-> k, id |-> i]
Layouts == { <<R("sig", 1), R("c2pa", 2), R("meta", 3), R("media", 4)>>,
             <<R("sig", 1), R("media", 4), R("c2pa", 2), R("media", 5)>>,
             <<R("sig", 1), R("c2pa", 2), R("offsets", 6), R("media", 4), R("free", 7)>> }
Init == binding \in Bindings /\ signed \in Layouts /\ cur = signed /\ op = "none"
New(k) == R(k, 99)
Flip(i) == cur' = [cur EXCEPT ![i] = [@ EXCEPT !.id = 98]] /\ op' = "flip"
Insert(i, k) == cur' = SubSeq(cur, 1, i) \o <<New(k)>> \o SubSeq(cur, i + 1, Len(cur)) /\ op' = "insert"
Delete(i) == cur' = SubSeq(cur, 1, i - 1) \o SubSeq(cur, i + 1, Len(cur)) /\ op' = "delete"
AppendTrailer == cur' = Append(cur, New("trailer")) /\ op' = "append"
Truncate == Len(cur) > 1 /\ cur' = SubSeq(cur, 1, Len(cur) - 1) /\ op' = "truncate"
Next == /\ op = "none" /\ UNCHANGED <<binding, signed>>
        /\ \/ \E i \in 1..Len(cur) : Flip(i) \/ Delete(i)
           \/ \E i \in 0..Len(cur), k \in {"media", "meta"} : Insert(i, k)
           \/ AppendTrailer \/ Truncate
Spec == Init /\ [][Next]_vars

\* which regions differ between signed and cur that are NOT declared excluded
ChangedOutsideExcluded == Digest(binding, signed) # Digest(binding, cur)
\* the property: a Valid verdict implies that all changes are confined to declared-excluded regions
TamperEvidentRef == RefVerdict(binding, signed, cur) = "Valid" => ~ChangedOutsideExcluded
TamperEvidentCoded == CodedVerdict(binding, signed, cur) = "Valid" => ~ChangedOutsideExcluded
\* the mirror satisfies the property except for appended trailing data under the box binding (known finding S2)
TamperEvidentCodedButTrailer == (CodedVerdict(binding, signed, cur) = "Valid" /\ ChangedOutsideExcluded) => (binding = "box" /\ op = "append")

\* acceptance of one observation (binding O): state, whether the edit lies inside declared-excluded bytes, report equality
Allowed(state, inExcluded, reportEqual) == state \in {"Valid", "Trusted"} => (inExcluded /\ reportEqual)
====
