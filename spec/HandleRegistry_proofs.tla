---- MODULE HandleRegistry_proofs ----
(***************************************************************************)
(* C31 -- unbounded (TLAPS) proofs over HandleRegistry: for every number   *)
(* of addresses and types, every reachable registry maps live addresses to *)
(* declared types, no invalid address is dereferenced, and releasing an    *)
(* address that is not live leaves the registry as it was.                 *)
(***************************************************************************)
EXTENDS HandleRegistry, TLAPS

Inv == TypeOK /\ NoInvalidDeref

THEOREM InitInv == Init => Inv
  BY DEF Init, Inv, TypeOK, NoInvalidDeref, Live

THEOREM NextInv == Inv /\ [Next]_vars => Inv'
<1> SUFFICES ASSUME Inv, [Next]_vars PROVE Inv'
  OBVIOUS
<1>1. CASE UNCHANGED vars
  BY <1>1 DEF Inv, TypeOK, NoInvalidDeref, Live, vars
<1>2. ASSUME NEW T \in Types, NEW a \in Addrs, Ctor(T, a) PROVE Inv'
  BY <1>2 DEF Inv, TypeOK, NoInvalidDeref, Live, Ctor, Add
<1>3. ASSUME NEW a \in Addrs \cup {NULL}, NEW T \in Types, Borrow(a, T) PROVE Inv'
  BY <1>3 DEF Inv, TypeOK, NoInvalidDeref, Live, Borrow, Valid, vars
<1>4. ASSUME NEW a \in Addrs \cup {NULL}, NEW T \in Types, NEW T2 \in Types, NEW r \in Addrs \cup {NULL},
             Consume(a, T, T2, r) PROVE Inv'
  BY <1>4 DEF Inv, TypeOK, NoInvalidDeref, Live, Consume, Valid, Add, Drop
<1>5. ASSUME NEW a \in Addrs \cup {NULL}, Free(a) PROVE Inv'
  BY <1>5 DEF Inv, TypeOK, NoInvalidDeref, Live, Free, Drop, vars
<1> QED BY <1>1, <1>2, <1>3, <1>4, <1>5 DEF Next

THEOREM Safety == Spec => []Inv
  BY InitInv, NextInv, PTL DEF Spec

\* releasing an address that is not live never changes the registry (the step form of FreeOnce)
THEOREM FreeOnceStep == \A a \in Addrs : (a \notin Live /\ a # NULL /\ Free(a)) => tracked' = tracked
  BY DEF Free, Live
====
