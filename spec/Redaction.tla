------------------------------ MODULE Redaction ------------------------------
(***************************************************************************)
(* C20 -- redaction along an edit chain.                                   *)
(* Manifest 1 is a plain creation; manifest j > 1 is an edit whose parent  *)
(* ingredient is the asset carrying manifests 1..j-1.  Every manifest has  *)
(* four assertions: two custom ones (c1, c2), its actions and its hard     *)
(* binding.  An edit may request redactions: a set of targets <<m, kind>>. *)
(*   allowed   : a custom assertion of a manifest of the ingredient chain  *)
(*               (m < j) that is still present                             *)
(*   forbidden : actions or hard-binding assertions, and assertions of the *)
(*               manifest itself (m = j)                                   *)
(* An edit with only allowed targets signs, validates, lists exactly its   *)
(* requests and removes exactly those assertions; an edit with a forbidden *)
(* target is never Valid (signing refuses or the result is Invalid).       *)
(***************************************************************************)
EXTENDS Naturals, Sequences, FiniteSets, TLC

CONSTANTS Depth            \* number of manifests in the chain (2..3)
Kinds == {"c1", "c2", "actions", "hash"}
Custom == {"c1", "c2"}

VARIABLES level,      \* manifests signed so far
          present,    \* set of <<m, kind>> assertions whose data is still in the store
          requests,   \* requests[j] = the redaction set of edit j (j >= 2)
          verdict     \* "valid" | "refused" | "invalid" (sticky: nothing is built on a refused or invalid edit)
vars == <<level, present, requests, verdict>>

All(j) == {<<j, k>> : k \in Kinds}
Targets(j) == {<<m, k>> : m \in 1..j, k \in Kinds}
Allowed(j, t) == t[1] < j /\ t[2] \in Custom /\ t \in present

Init == level = 1 /\ present = All(1) /\ requests = <<{}>> /\ verdict = "valid"

Edit(R) == /\ level < Depth /\ verdict = "valid"
           /\ LET j == level + 1 IN
              /\ R \subseteq Targets(j)
              /\ \A t \in R : t[1] = j \/ t \in present      \* a request names something that exists (or the edit's own assertion)
              /\ level' = j
              /\ requests' = Append(requests, R)
              /\ IF \A t \in R : Allowed(j, t)
                 THEN verdict' = "valid" /\ present' = (present \ R) \cup All(j)
                 ELSE verdict' = "refused" /\ UNCHANGED present
\* a generator that does not refuse: the forbidden redaction of an ingredient manifest's actions / hard binding is carried out
\* and signed; the validator goes by the redaction list of the claim and must call the result invalid
RogueEdit(R) == /\ level < Depth /\ verdict = "valid"
                /\ LET j == level + 1 IN
                   /\ R \subseteq Targets(j) /\ R # {}
                   /\ \A t \in R : t[1] < j /\ t \in present
                   /\ \E t \in R : t[2] \notin Custom
                   /\ level' = j
                   /\ requests' = Append(requests, R)
                   /\ present' = (present \ R) \cup All(j)
                   /\ verdict' = "invalid"
Conforming == \E R \in SUBSET Targets(level + 1) : Edit(R)
Rogue == \E R \in SUBSET Targets(level + 1) : RogueEdit(R)
Next == Conforming \/ Rogue
Spec == Init /\ [][Next]_vars

\* ---- properties of the design
OnlyRequestedRemoved == verdict = "valid" =>
      present = (UNION {All(j) : j \in 1..level}) \ (UNION {requests[j] : j \in 1..level})
BindingsNeverRedacted == \A j \in 1..level : verdict = "valid" => (<<j, "hash">> \in present /\ <<j, "actions">> \in present)
OwnNeverRedacted == verdict = "valid" => \A j \in 2..level : \A t \in requests[j] : t[1] < j
ForbiddenRefused == (\E j \in 2..level : \E t \in requests[j] : t[2] \notin Custom \/ t[1] = j) => verdict \in {"refused", "invalid"}
TypeOK == level \in 1..Depth /\ verdict \in {"valid", "refused", "invalid"}
W_Rogue == verdict # "invalid"
W_DeepRedaction == ~(level = 3 /\ verdict = "valid" /\ <<1, "c1">> \in requests[3])
=============================================================================
