---- MODULE MC_Merkle ----
EXTENDS Merkle
CONSTANT MaxN
\* the tree, the stored row and the proof are computed once per input (state variables), so that the
\* invariants evaluate the verifier on concrete values
VARIABLES n, i, maxp, tree, row, proof
vars == <<n, i, maxp, tree, row, proof>>
Depth(k) == Len(Layout(k))
Init == /\ n \in 1..MaxN
        /\ i \in 0..(MaxN - 1) /\ i < n
        /\ maxp \in 0..7 /\ maxp <= Depth(n)
        /\ tree = Tree(n)
        /\ row = StoredRowT(tree, maxp)
        /\ proof = ProofFrom(tree, 1, i, maxp)
Next == UNCHANGED vars
Spec == Init /\ [][Next]_vars
InvComplete == Complete(n, i, row, proof)
InvSoundLeaf == SoundLeaf(n, i, row, proof)
InvSoundIndex == SoundIndex(n, i, row, proof)
InvTamper == ProofTamper(n, i, row, proof)
InvLayout == LayoutAgrees(n, tree)
====
