------------------------------ MODULE Revocation ------------------------------
(***************************************************************************)
(* C37 -- revocation evidence stapled to a signature.                       *)
(* An OCSP response says `status` about a certificate (`about`: the signing *)
(* certificate or another certificate of the same CA) and is signed by a    *)
(* responder (`responder`: a responder delegated by the CA, the CA itself,  *)
(* or an unrelated key).  It binds only if it is about the signing          *)
(* certificate and validly signed on behalf of its issuer.                  *)
(*   Binds /\ revoked  => never Valid / Trusted                             *)
(*   ~Binds            => the verdict is the verdict without the response   *)
(***************************************************************************)
EXTENDS Naturals, TLC
Statuses == {"good", "revoked", "unknown"}
Abouts == {"signing", "other"}
Responders == {"delegated", "ca", "unrelated"}
\* a response may carry several SingleResponses: besides the entry described by (status, about) a second entry saying
\* "good" about the OTHER certificate, before or after it
Batches == {"single", "other-good-first", "other-good-last"}
\* what the signature carries in its x5chain besides the signing certificate: its issuer, or its issuer and the root
\* (both are conforming; the root is the only configured anchor either way)
Chains == {"issuer", "issuer+root"}
VARIABLES status, about, responder, batch, chain
vars == <<status, about, responder, batch, chain>>
Init == status \in Statuses /\ about \in Abouts /\ responder \in Responders /\ batch \in Batches /\ chain \in Chains
Next == UNCHANGED vars
Spec == Init /\ [][Next]_vars
Binds == about = "signing" /\ responder \in {"delegated", "ca"}
Baseline == "trusted"                        \* the verdict of the same asset without any response
Verdict == IF Binds /\ status = "revoked" THEN "not-valid" ELSE Baseline
RevokedNeverValid == (Binds /\ status = "revoked") => Verdict = "not-valid"
ForeignIgnored == ~Binds => Verdict = Baseline
GoodKeeps == (Binds /\ status = "good") => Verdict = Baseline
\* the verdict is a function of (Binds, status) alone: the form of the x5chain and the batching play no part
ChainIrrelevant == Verdict = (IF Binds /\ status = "revoked" THEN "not-valid" ELSE Baseline)
\* an entry about another certificate never vouches for the signing certificate, wherever it stands in the response
BatchIrrelevant == Verdict = (IF Binds /\ status = "revoked" THEN "not-valid" ELSE Baseline)
=============================================================================
