CONSTANTS Total = 7  Leaf = 3  Skip = 8
SPECIFICATION Spec
INVARIANT LeavesCoverExactly FixedIndependent
CHECK_DEADLOCK FALSE
