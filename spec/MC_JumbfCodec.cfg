SPECIFICATION Spec
CONSTANTS MaxPayload = 1
INVARIANTS RoundTrip Canonical SizesAddUp
CHECK_DEADLOCK FALSE
