---- MODULE CborPad_proofs ----
(***************************************************************************)
(* C14 -- unbounded (TLAPS) proofs of the CborPad design lemmas: TLC       *)
(* evaluates them for gaps 0..70000; here they hold for every natural gap  *)
(* (with HdrLen = 5 for every length from 65536 on, as in the module).     *)
(***************************************************************************)
EXTENDS CborPad, TLAPS

\* a single pad misses exactly the four gaps at the CBOR length-header boundaries
THEOREM SkippedExactlyAll == \A d \in Nat : d >= 5 => (~Reach1(d) <=> d \in Skipped)
<1> TAKE d \in Nat
<1> HAVE d >= 5
<1>1. CASE d < 5 + 24
  <2>1. CASE d = 29  BY <2>1 DEF Reach1, HdrLen, Skipped
  <2>2. CASE d # 29
    <3>1. d - 4 - 1 >= 0 /\ HdrLen(d - 4 - 1) = 1  BY <1>1, <2>2 DEF HdrLen
    <3> QED BY <3>1, <1>1, <2>2 DEF Reach1, Skipped
  <2> QED BY <2>1, <2>2
<1>2. CASE d >= 29 /\ d < 6 + 256
  <2>1. CASE d = 29  BY <2>1 DEF Reach1, HdrLen, Skipped
  <2>2. CASE d # 29
    <3>1. d - 4 - 2 >= 0 /\ HdrLen(d - 4 - 2) = 2  BY <1>2, <2>2 DEF HdrLen
    <3> QED BY <3>1, <1>2, <2>2 DEF Reach1, Skipped
  <2> QED BY <2>1, <2>2
<1>3. CASE d >= 262 /\ d < 7 + 65536
  <2>1. CASE d = 262  BY <2>1 DEF Reach1, HdrLen, Skipped
  <2>2. CASE d # 262
    <3>1. d - 4 - 3 >= 0 /\ HdrLen(d - 4 - 3) = 3  BY <1>3, <2>2 DEF HdrLen
    <3> QED BY <3>1, <1>3, <2>2 DEF Reach1, Skipped
  <2> QED BY <2>1, <2>2
<1>4. CASE d >= 65543
  <2>1. CASE d = 65543 \/ d = 65544  BY <2>1 DEF Reach1, HdrLen, Skipped
  <2>2. CASE d > 65544
    <3>1. d - 4 - 5 >= 0 /\ HdrLen(d - 4 - 5) = 5  BY <1>4, <2>2 DEF HdrLen
    <3> QED BY <3>1, <1>4, <2>2 DEF Reach1, Skipped
  <2> QED BY <1>4, <2>1, <2>2
<1> QED BY <1>1, <1>2, <1>3, <1>4

\* every gap >= 7 can be filled exactly by "pad" alone or by "pad" + "pad2"
THEOREM FillableAll == \A d \in Nat : d >= MinGap => (Reach1(d) \/ Reach2(d))
<1> TAKE d \in Nat
<1> HAVE d >= MinGap
<1>1. CASE d \notin Skipped
  BY <1>1, SkippedExactlyAll DEF MinGap
<1>2. CASE d \in Skipped
  <2>1. 0 \in 0..8 /\ Pad2Entry(0) = 6  BY DEF Pad2Entry, BytesLen, HdrLen
  <2>2. d - 6 \in Nat /\ d - 6 >= 5 /\ d - 6 \notin Skipped  BY <1>2 DEF Skipped
  <2>3. Reach1(d - 6)  BY <2>2, SkippedExactlyAll
  <2> QED BY <2>1, <2>2, <2>3 DEF Reach2
<1> QED BY <1>1, <1>2
====
