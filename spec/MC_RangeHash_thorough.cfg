\* all streams <= 4 bytes, <= 3 ranges with start,length in 0..5, markers included
CONSTANTS MaxLen = 4  MaxVal = 5  MaxRanges = 3  WithMarkers = TRUE
SPECIFICATION Spec
INVARIANT Agree PastEndRejected RefWellFormed RefExclOrdered
CHECK_DEADLOCK FALSE
