SPECIFICATION Spec
CONSTANTS InputLen = 4  MaxDepth = 2  MaxInflate = 3  ReserveCap = 2  MaxCount = 2  MaxDeclared = 50  Capped = FALSE
INVARIANTS AllocBounded
CHECK_DEADLOCK FALSE
