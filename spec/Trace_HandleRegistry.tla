---- MODULE Trace_HandleRegistry ----
(* Binding T for C31: the recorded event stream of real C API call sequences (driver events + registry hook events)  *)
(* is replayed on the HandleRegistry state.  Registry events must be explainable by the model (track only a non-live *)
(* address, validate/untrack succeed iff the address is live with that type, free succeeds iff live or NULL); at the *)
(* end of every call the API-level obligations are evaluated with the validity of its arguments AT CALL START.       *)
(* Events: reset | reg(op, a, ty, ok) | callstart(name, args) | call(name, ind, ret, errset) | crash                 *)
EXTENDS Naturals, Sequences, FiniteSets, TLC, Json, IOUtils
Rec == ndJsonDeserialize(IOEnv.TRACE)
VARIABLES tracked, pend, l, bad
tvars == <<tracked, pend, l, bad>>
Live == DOMAIN tracked
Valid(a, T) == a \in Live /\ tracked[a] = T
Drop(a) == [x \in Live \ {a} |-> tracked[x]]
Add(f, a, T) == [x \in DOMAIN f \cup {a} |-> IF x = a THEN T ELSE f[x]]
Ev == Rec[l]
TInit == tracked = << >> /\ pend = <<>> /\ l = 1 /\ bad = <<>>
Flag(what) == bad' = Append(bad, <<l, what>>)

TReset == Ev.e = "reset" /\ tracked' = << >> /\ pend' = <<>> /\ UNCHANGED bad
TReg ==
  /\ Ev.e = "reg" /\ UNCHANGED pend
  /\ CASE Ev.op = "track" ->
            /\ tracked' = Add(tracked, Ev.a, Ev.ty)
            /\ IF Ev.a \in Live THEN Flag("track-of-live-address") ELSE UNCHANGED bad
       [] Ev.op = "validate" ->
            /\ UNCHANGED tracked
            /\ IF Ev.ok # Valid(Ev.a, Ev.ty) THEN Flag("validate-answer") ELSE UNCHANGED bad
       [] Ev.op = "untrack" ->
            /\ tracked' = IF Ev.ok /\ Ev.a \in Live THEN Drop(Ev.a) ELSE tracked
            /\ IF Ev.ok # Valid(Ev.a, Ev.ty) THEN Flag("untrack-answer") ELSE UNCHANGED bad
       [] Ev.op = "free" ->
            /\ tracked' = IF Ev.a \in Live THEN Drop(Ev.a) ELSE tracked
            /\ IF Ev.ok # (Ev.a = 0 \/ Ev.a \in Live) THEN Flag("free-answer") ELSE UNCHANGED bad
TCallStart ==
  /\ Ev.e = "callstart" /\ UNCHANGED <<tracked, bad>>
  /\ pend' = [i \in 1..Len(Ev.args) |->
                [a |-> Ev.args[i].a, role |-> Ev.args[i].role, cls |-> Ev.args[i].cls,
                 valid |-> IF Ev.args[i].role = "free" THEN (Ev.args[i].a = 0 \/ Ev.args[i].a \in Live)
                           ELSE Valid(Ev.args[i].a, Ev.args[i].ty)]]
\* obligations at the end of a call
Misuse == \E i \in 1..Len(pend) : ~pend[i].valid
Problems ==
  (IF Misuse /\ Ev.ind = "ok" THEN {"misuse-succeeded"} ELSE {})
  \cup (IF Misuse /\ ~Ev.errset THEN {"misuse-without-error-message"} ELSE {})
  \cup (IF ~Misuse /\ Ev.ind = "err" /\ (\E i \in 1..Len(pend) : pend[i].role = "free") THEN {"valid-free-rejected"} ELSE {})
  \cup (IF Ev.ret # 0 /\ Ev.ret \notin Live THEN {"returned-handle-not-registered"} ELSE {})
  \cup (IF \E i \in 1..Len(pend) : pend[i].role = "consume" /\ pend[i].valid /\ pend[i].a \in Live /\ pend[i].a # Ev.ret
        THEN {"consumed-handle-still-live"} ELSE {})
  \cup (IF \E i \in 1..Len(pend) : pend[i].role = "free" /\ pend[i].valid /\ pend[i].a # 0 /\ pend[i].a \in Live
        THEN {"freed-handle-still-live"} ELSE {})
  \cup (IF \E i \in 1..Len(pend) : pend[i].cls = "right" /\ ~pend[i].valid THEN {"drift-driver-mirror"} ELSE {})
TCall ==
  /\ Ev.e = "call" /\ UNCHANGED tracked /\ pend' = <<>>
  /\ bad' = IF Problems = {} THEN bad ELSE Append(bad, <<l, Problems>>)
TCrash == Ev.e = "crash" /\ Flag("crash") /\ UNCHANGED <<tracked, pend>>
TOther == Ev.e \in {"end"} /\ UNCHANGED <<tracked, pend, bad>>
TNext == l <= Len(Rec) /\ l' = l + 1 /\ (TReset \/ TReg \/ TCallStart \/ TCall \/ TCrash \/ TOther)
TSpec == TInit /\ [][TNext]_tvars
Accepted == LET d == TLCGet("stats").diameter IN PrintT(<<"TRACE_MATCHED", d - 1>>) /\ d - 1 = Len(Rec)
AtEnd == l = Len(Rec) + 1 => PrintT(<<"VERDICT", ToJson([bad |-> bad])>>)
====
