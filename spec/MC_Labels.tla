---- MODULE MC_Labels ----
EXTENDS Labels, Json
\* part classes (atoms stand for whole classes of concrete strings; the harness draws random members)
Guids    == {"G"}
\* (d4 / d2 / d1: vendors made of digits only -- they must not be mistaken for a version field)
Cgis     == {NoSeq, <<"vend">>, <<"my", "_", "vendor">>, <<"a", ".", "b", "-", "c">>, <<"v32">>, <<"9d">>, <<"d4">>, <<"d2", "_", "d2">>, <<"d1">>}
Versions == {None, "1", "12"}
Reasons  == {None, "0", "3"}
Bases    == {<<"c2pa", ".", "actions">>, <<"c2pa", ".", "ingredient", ".", "v3">>, <<"org", ".", "x", "-", "y", ".", "z_w">>,
             <<"c2pa", ".", "hash", ".", "data">>}
Insts    == {None, "1", "27"}
Thumb    == <<"c2pa", ".", "thumbnail", ".", "ingredient">>
VARIABLES p, base, inst, ext
vars == <<p, base, inst, ext>>
Init == /\ p \in [guid : Guids, v1 : BOOLEAN, cgi : Cgis, version : Versions, reason : Reasons]
        /\ base \in Bases \cup {Thumb}
        /\ inst \in Insts
        /\ ext \in (IF base = Thumb THEN {"jpeg", "png"} ELSE {None})
Next == UNCHANGED vars
Spec == Init /\ [][Next]_vars
InvLabel == LabelRoundTrip(p)
InvUri == Generable(p) => UriRoundTrip(FmtLabel(p), WithInstance(base, inst, ext))
InvInstance == Generable(p) => InstanceRoundTrip(FmtLabel(p), base, inst, ext)
Emit == Generable(p) => PrintT(<<"VEC", ToJson([p |-> p, base |-> base, inst |-> inst, ext |-> ext])>>)
====
