---- MODULE Merkle ----
(***************************************************************************)
(* C16 -- the C2PA Merkle tree variant: all leaves on the bottom row, an   *)
(* odd last node is promoted unchanged, a stored row of hashes plus a      *)
(* per-leaf proof.  Hashing is an abstract injective constructor:          *)
(* H(l, r) = <<"H", l, r>>, leaf i = <<"L", i>>.                           *)
(* Layer indices and leaf indices are 0-based as in the implementation;    *)
(* TLA+ sequences are 1-based, hence the +1 when indexing.                 *)
(***************************************************************************)
EXTENDS Naturals, Sequences, FiniteSets, TLC

H(l, r) == <<"H", l, r>>
Leaf(i) == <<"L", i>>

\* parent row of a row (sequence of node values)
Parent(row) == [k \in 1..((Len(row) + 1) \div 2) |->
                  IF 2 * k <= Len(row) THEN H(row[2 * k - 1], row[2 * k]) ELSE row[2 * k - 1]]
RECURSIVE LayersFrom(_)
\* (TLCEval forces the argument: TLC would otherwise re-evaluate the lazily passed row at every use)
LayersFrom(row) == IF Len(row) <= 1 THEN <<row>> ELSE LET p == TLCEval(Parent(row)) IN <<row>> \o LayersFrom(p)
Tree(n) == LayersFrom([i \in 1..n |-> Leaf(i - 1)])          \* generate_tree
RECURSIVE Layout(_)
Layout(n) == IF n <= 1 THEN <<n>> ELSE <<n>> \o Layout((n + 1) \div 2)   \* to_layout
\* the row stored in the MerkleMap for a given max-proof depth
StoredRowT(t, maxp) == LET r == IF maxp < Len(t) - 1 THEN maxp ELSE Len(t) - 1 IN t[r + 1]
StoredRow(n, maxp) == StoredRowT(Tree(n), maxp)

\* get_proof_by_index(leaf i, maxp)
RECURSIVE ProofFrom(_, _, _, _)
ProofFrom(t, layer, index, left) ==
  IF layer > Len(t) \/ left = 0 THEN <<>>
  ELSE LET row == t[layer]
           sib == IF index % 2 = 1 THEN index - 1 ELSE index + 1
           here == IF sib < Len(row) THEN <<row[sib + 1]>> ELSE <<>>
       IN here \o ProofFrom(t, layer + 1, index \div 2, left - 1)
Proof(n, i, maxp) == ProofFrom(Tree(n), 1, i, maxp)

\* check_merkle_tree(count, stored row, location, leaf hash, proof); CheckNone is the proof = None arm
RECURSIVE Playback(_, _, _, _, _, _, _)
Playback(layout, li, stored, index, hash, proof, pi) ==
  IF li > Len(layout) \/ layout[li] = Len(stored) THEN <<TRUE, index, hash>>
  ELSE LET layer == layout[li]
           right == index % 2 = 1
           need  == IF right THEN index - 1 < layer ELSE index + 1 < layer
       IN IF need
          THEN IF pi > Len(proof) THEN <<FALSE, index, hash>>
               ELSE LET h2 == TLCEval(IF right THEN H(proof[pi], hash) ELSE H(hash, proof[pi]))
                    IN Playback(layout, li + 1, stored, index \div 2, h2, proof, pi + 1)
          ELSE Playback(layout, li + 1, stored, index \div 2, hash, proof, pi)
RECURSIVE SkipUp(_, _, _, _)
SkipUp(layout, li, stored, index) ==
  IF li > Len(layout) \/ layout[li] = Len(stored) THEN index ELSE SkipUp(layout, li + 1, stored, index \div 2)
CheckNone(count, stored, location, hash) ==
  IF location >= count THEN FALSE
  ELSE LET idx == SkipUp(Layout(count), 1, stored, location)
       IN idx < Len(stored) /\ stored[idx + 1] = hash
Check(count, stored, location, hash, proof) ==
  IF location >= count THEN FALSE
  ELSE LET res == Playback(Layout(count), 1, stored, location, hash, proof, 1)
       IN res[1] /\ res[2] < Len(stored) /\ stored[res[2] + 1] = res[3]

\* ---------------- the property (row = stored row, p = the proof generated for leaf i)
Complete(n, i, row, p)   == Check(n, row, i, Leaf(i), p)
SoundLeaf(n, i, row, p)  == \A j \in 0..(n - 1) : j # i => ~Check(n, row, i, Leaf(j), p)
SoundIndex(n, i, row, p) == \A k \in 0..(n - 1) : k # i => ~Check(n, row, k, Leaf(i), p)
Junk == <<"J">>
Replace(s, k, v) == [s EXCEPT ![k] = v]
DropAt(s, k) == SubSeq(s, 1, k - 1) \o SubSeq(s, k + 1, Len(s))
ProofTamper(n, i, row, p) ==
   /\ \A k \in 1..Len(p) : ~Check(n, row, i, Leaf(i), Replace(p, k, Junk))
   /\ \A k \in 1..Len(p) : ~Check(n, row, i, Leaf(i), DropAt(p, k))
\* the layout used by the verifier agrees with the tree the builder generates
LayoutAgrees(n, t) == Len(Layout(n)) = Len(t) /\ \A l \in 1..Len(t) : Layout(n)[l] = Len(t[l])
====
