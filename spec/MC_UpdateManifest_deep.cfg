\* thorough tier: chains of up to 8 steps (6 400 states); the exported vectors stay at MaxSteps = 3
SPECIFICATION Spec
CONSTANTS MaxSteps = 8
INVARIANTS TypeOK ValidMeansClean
PROPERTIES TamperSticks
CHECK_DEADLOCK FALSE
