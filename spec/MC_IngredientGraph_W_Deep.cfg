SPECIFICATION Spec
CONSTANTS N = 3  MaxOut = 2  DepthLimit = 2  Slots = "full"
INVARIANTS W_Deep
CHECK_DEADLOCK FALSE
