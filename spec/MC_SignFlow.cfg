CONSTANTS G_SameHashLen = TRUE  G_PadExact = TRUE  G_Locality = TRUE  G_RangeHash = TRUE
SPECIFICATION Spec
INVARIANT SizesStable RoundTrip
PROPERTY SigningSucceeds
