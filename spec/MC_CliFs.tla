---- MODULE MC_CliFs ----
EXTENDS CliFs, Json
Emit == exit # "pending" => PrintT(<<"VEC", ToJson([mode |-> mode, force |-> force, sidecarFlag |-> sidecarFlag, sameAsInput |-> sameAsInput, remote |-> remote,
          output |-> output, sidecar |-> sidecar, exit |-> exit, outputAfter |-> outputAfter, sidecarAfter |-> sidecarAfter, inputAfter |-> inputAfter])>>)
====
