SPECIFICATION Spec
INVARIANTS Emit
CHECK_DEADLOCK FALSE
