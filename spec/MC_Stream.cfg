SPECIFICATION Spec
CONSTANTS DataLen = 3  MaxSteps = 3  MaxChunk = 2  AllowSingle = FALSE
INVARIANTS TypeOK ChunkingInvisible FaultsSurface NoLostWrites ErrOnlyWithCause
CHECK_DEADLOCK FALSE
