SPECIFICATION Spec
CONSTANTS MaxOps = 3  MaxIng = 2  MaxArch = 1
INVARIANTS Emit
CHECK_DEADLOCK FALSE
