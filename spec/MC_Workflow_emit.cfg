SPECIFICATION Spec
CONSTANTS MaxOps = 3  MaxIng = 2  MaxArch = 1  Variants = FALSE
INVARIANTS Emit
CHECK_DEADLOCK FALSE
