\* all streams <= 5 bytes, <= 2 ranges with start,length in 0..6, markers included
CONSTANTS MaxLen = 5  MaxVal = 6  MaxRanges = 2  WithMarkers = TRUE
SPECIFICATION Spec
INVARIANT Agree PastEndRejected RefWellFormed RefExclOrdered
CHECK_DEADLOCK FALSE
