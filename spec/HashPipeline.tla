---- MODULE HashPipeline ----
(***************************************************************************)
(* C13 -- the reader/worker pipeline of hash_stream_by_alg (non-wasm arm). *)
(* The main thread reads chunk i+1 while a worker thread hashes chunk i    *)
(* and hands the hasher back over a channel.  `hashed` is the sequence of  *)
(* chunk ids fed to the hasher; the property is that it equals the chunks  *)
(* of every range in order, whatever the interleaving, and that the        *)
(* hand-off never deadlocks.                                               *)
(***************************************************************************)
EXTENDS Naturals, Sequences, TLC
CONSTANTS NChunks     \* sequence: number of chunks of each range, e.g. <<3, 1, 2>>

(* --algorithm Pipeline
variables hashed = <<>>,          \* what the hasher has consumed, as <<range, chunk>> ids
          hasherAt = "main",      \* who owns the hasher: "main", "worker", "chan"
          range = 1, idx = 1,     \* main thread position
          cur = <<>>, nxt = <<>>, \* chunk buffers
          job = <<>>,             \* chunk handed to the worker
          ticks = 0;
define
  Total == LET RECURSIVE Sum(_) Sum(i) == IF i > Len(NChunks) THEN 0 ELSE NChunks[i] + Sum(i + 1) IN Sum(1)
end define;
fair process main = "main"
begin
 NextRange:
  while range <= Len(NChunks) do
    ticks := ticks + 1;           \* progress(step, total) at the start of each range
    idx := 1;
   ReadFirst:
    cur := <<range, idx>>;
   Loop:
    while TRUE do
      if idx = NChunks[range] then
        \* no next chunk: hash inline (hasher must be on this thread)
        assert hasherAt = "main";
        hashed := Append(hashed, cur);
        goto Done_Range;
      else
        \* spawn worker with (hasher, chunk)
        assert hasherAt = "main";
        job := cur; hasherAt := "worker";
       ReadNext:
        nxt := <<range, idx + 1>>;   \* overlaps with the worker's hashing
       Recv:
        await hasherAt = "chan";
        hasherAt := "main";
        ticks := ticks + 1;
        cur := nxt; idx := idx + 1;
      end if;
    end while;
   Done_Range:
    range := range + 1;
  end while;
end process;
fair process worker = "worker"
begin
 W:
  while TRUE do
    await hasherAt = "worker";
    hashed := Append(hashed, job);
   Send:
    hasherAt := "chan";
  end while;
end process;
end algorithm; *)
\* BEGIN TRANSLATION
VARIABLES pc, hashed, hasherAt, range, idx, cur, nxt, job, ticks

(* define statement *)
Total == LET RECURSIVE Sum(_) Sum(i) == IF i > Len(NChunks) THEN 0 ELSE NChunks[i] + Sum(i + 1) IN Sum(1)


vars == << pc, hashed, hasherAt, range, idx, cur, nxt, job, ticks >>

ProcSet == {"main"} \cup {"worker"}

Init == (* Global variables *)
        /\ hashed = <<>>
        /\ hasherAt = "main"
        /\ range = 1
        /\ idx = 1
        /\ cur = <<>>
        /\ nxt = <<>>
        /\ job = <<>>
        /\ ticks = 0
        /\ pc = [self \in ProcSet |-> CASE self = "main" -> "NextRange"
                                        [] self = "worker" -> "W"]

NextRange == /\ pc["main"] = "NextRange"
             /\ IF range <= Len(NChunks)
                   THEN /\ ticks' = ticks + 1
                        /\ idx' = 1
                        /\ pc' = [pc EXCEPT !["main"] = "ReadFirst"]
                   ELSE /\ pc' = [pc EXCEPT !["main"] = "Done"]
                        /\ UNCHANGED << idx, ticks >>
             /\ UNCHANGED << hashed, hasherAt, range, cur, nxt, job >>

ReadFirst == /\ pc["main"] = "ReadFirst"
             /\ cur' = <<range, idx>>
             /\ pc' = [pc EXCEPT !["main"] = "Loop"]
             /\ UNCHANGED << hashed, hasherAt, range, idx, nxt, job, ticks >>

Loop == /\ pc["main"] = "Loop"
        /\ IF idx = NChunks[range]
              THEN /\ Assert(hasherAt = "main", 
                             "Failure of assertion at line 35, column 9.")
                   /\ hashed' = Append(hashed, cur)
                   /\ pc' = [pc EXCEPT !["main"] = "Done_Range"]
                   /\ UNCHANGED << hasherAt, job >>
              ELSE /\ Assert(hasherAt = "main", 
                             "Failure of assertion at line 40, column 9.")
                   /\ job' = cur
                   /\ hasherAt' = "worker"
                   /\ pc' = [pc EXCEPT !["main"] = "ReadNext"]
                   /\ UNCHANGED hashed
        /\ UNCHANGED << range, idx, cur, nxt, ticks >>

ReadNext == /\ pc["main"] = "ReadNext"
            /\ nxt' = <<range, idx + 1>>
            /\ pc' = [pc EXCEPT !["main"] = "Recv"]
            /\ UNCHANGED << hashed, hasherAt, range, idx, cur, job, ticks >>

Recv == /\ pc["main"] = "Recv"
        /\ hasherAt = "chan"
        /\ hasherAt' = "main"
        /\ ticks' = ticks + 1
        /\ cur' = nxt
        /\ idx' = idx + 1
        /\ pc' = [pc EXCEPT !["main"] = "Loop"]
        /\ UNCHANGED << hashed, range, nxt, job >>

Done_Range == /\ pc["main"] = "Done_Range"
              /\ range' = range + 1
              /\ pc' = [pc EXCEPT !["main"] = "NextRange"]
              /\ UNCHANGED << hashed, hasherAt, idx, cur, nxt, job, ticks >>

main == NextRange \/ ReadFirst \/ Loop \/ ReadNext \/ Recv \/ Done_Range

W == /\ pc["worker"] = "W"
     /\ hasherAt = "worker"
     /\ hashed' = Append(hashed, job)
     /\ pc' = [pc EXCEPT !["worker"] = "Send"]
     /\ UNCHANGED << hasherAt, range, idx, cur, nxt, job, ticks >>

Send == /\ pc["worker"] = "Send"
        /\ hasherAt' = "chan"
        /\ pc' = [pc EXCEPT !["worker"] = "W"]
        /\ UNCHANGED << hashed, range, idx, cur, nxt, job, ticks >>

worker == W \/ Send

Next == main \/ worker

Spec == /\ Init /\ [][Next]_vars
        /\ WF_vars(main)
        /\ WF_vars(worker)

\* END TRANSLATION
RECURSIVE Expected(_)
Expected(r) == IF r > Len(NChunks) THEN <<>> ELSE [i \in 1..NChunks[r] |-> <<r, i>>] \o Expected(r + 1)
InOrder == \A i \in 1..Len(hashed) : hashed[i] = Expected(1)[i]
DoneRight == pc["main"] = "Done" => (hashed = Expected(1) /\ ticks = Total)
OneOwner == hasherAt \in {"main", "worker", "chan"}
Terminates == <>(pc["main"] = "Done")
====
