CONSTANTS Manifests = {1, 2, 3}  NAssert = 2
SPECIFICATION Spec
INVARIANT AllCovered StoreEvident
CHECK_DEADLOCK FALSE
