---- MODULE MC_ValidationState ----
EXTENDS ValidationState, Json
\* Binding R: every reachable state is exported as a vector with the state the spec predicts.
SetToSeq(S) == CHOOSE f \in [1..Cardinality(S) -> S] : \A i, j \in 1..Cardinality(S) : i # j => f[i] # f[j]
RECURSIVE SeqOfSet(_)
SeqOfSet(S) == IF S = {} THEN <<>> ELSE LET x == CHOOSE x \in S : TRUE IN <<x>> \o SeqOfSet(S \ {x})
Emit == PrintT(<<"VEC", ToJson([present |-> present, active |-> SeqOfSet(active),
                                deltas |-> [i \in 1..Len(deltas) |-> SeqOfSet(deltas[i])],
                                state |-> State(present, active, deltas)])>>)
\* vacuity witnesses: each must be reachable (checked as an invariant expected to FAIL)
NoValid   == State(present, active, deltas) # "Valid"
NoTrusted == State(present, active, deltas) # "Trusted"
NoTolValid == ~(State(present, active, deltas) = "Valid" /\ AllFailures(active, deltas) # {})
====
