---------------------------- MODULE IngredientGraph ----------------------------
(***************************************************************************)
(* C19 -- walking the ingredient graph of a manifest store.                 *)
(* Nodes 1..N are the manifests of the store; node N is the active one.     *)
(* edge[i] is the sequence of ingredient references of manifest i; a        *)
(* reference is a node or 0 (a label that is not in the store).             *)
(* Walk is the validator's traversal (Store::get_claim_referenced_          *)
(* manifests_impl): a depth-first walk with                                 *)
(*   - a `visited` map: a manifest already recorded is not expanded again   *)
(*   - the `path` of manifests being expanded: a reference back into the    *)
(*     path is a cycle and ends the walk with an error                      *)
(*   - a depth limit on the path                                            *)
(*   - a reference to a missing manifest is logged as a failure             *)
(* The walk is an explicit machine (one frame per path entry) so that TLC   *)
(* can count its steps.                                                     *)
(* TLC decides over every graph of the family:                              *)
(*   Terminates       the walk ends within N * (MaxOut + 2) + 1 steps       *)
(*   NeverValidIfBad  cyclic (incl. self), dangling and over-deep graphs    *)
(*                    never end with verdict "ok"                           *)
(*   OkMeansTree      verdict ok => every manifest reachable from the       *)
(*                    active one was visited exactly once                   *)
(***************************************************************************)
EXTENDS Naturals, Sequences, FiniteSets, TLC

CONSTANTS N,          \* manifests
          MaxOut,     \* ingredient references per manifest (at most)
          DepthLimit, \* MAX_INGREDIENT_DEPTH of the model
          Slots       \* "full": any out-degree <= MaxOut for every node; "staircase": node i has exactly i-1 references

Nodes == 1..N
Targets == 0..N
OutSeqs(i) == IF Slots = "staircase" THEN [1..(i - 1) -> Targets]
              ELSE UNION {[1..k -> Targets] : k \in 0..MaxOut}

VARIABLES edge,      \* [Nodes -> Seq(Targets)]  the graph (fixed per behaviour)
          path,      \* sequence of frames [n, k]: node being expanded and the next reference to look at
          visited,   \* set of recorded manifests
          failures,  \* set of logged failure kinds
          verdict,   \* "run" | "ok" | "cyclic" | "deep" | "failed"
          steps
vars == <<edge, path, visited, failures, verdict, steps>>

\* the graphs of the family, node by node (a product, so that TLC does not enumerate and filter a huge function space)
Graphs == IF N = 3 THEN {<<a, b, c>> : a \in OutSeqs(1), b \in OutSeqs(2), c \in OutSeqs(3)}
          ELSE {<<a, b, c, d>> : a \in OutSeqs(1), b \in OutSeqs(2), c \in OutSeqs(3), d \in OutSeqs(4)}
Init == /\ edge \in Graphs
        /\ path = <<[n |-> N, k |-> 1]>> /\ visited = {N} /\ failures = {} /\ verdict = "run" /\ steps = 0

Top == path[Len(path)]
OnPath(x) == \E i \in 1..Len(path) : path[i].n = x
Pop == IF Len(path) = 1
       THEN /\ path' = <<>> /\ verdict' = (IF failures = {} THEN "ok" ELSE "failed")
       ELSE /\ path' = SubSeq(path, 1, Len(path) - 1) /\ UNCHANGED verdict
Bump == [path EXCEPT ![Len(path)].k = @ + 1]

Step == /\ verdict = "run"
        /\ steps' = steps + 1
        /\ IF Top.k > Len(edge[Top.n])
           THEN Pop /\ UNCHANGED <<visited, failures>>
           ELSE LET t == edge[Top.n][Top.k] IN
                IF t = 0
                THEN /\ failures' = failures \cup {"missing"} /\ path' = Bump /\ UNCHANGED <<visited, verdict>>
                ELSE IF OnPath(t)
                THEN /\ verdict' = "cyclic" /\ failures' = failures \cup {"cyclic"} /\ UNCHANGED <<path, visited>>
                \* entering a manifest: the depth guard comes first, then the visited map (the order matters: a manifest
                \* that was recorded through a short path is still refused when it is met again at the bottom of an over-deep one)
                ELSE IF Len(path) >= DepthLimit
                THEN /\ verdict' = "deep" /\ failures' = failures \cup {"deep"} /\ UNCHANGED <<path, visited>>
                ELSE IF t \in visited
                THEN /\ path' = Bump /\ UNCHANGED <<visited, failures, verdict>>          \* shared sub-graph: not expanded again
                ELSE /\ path' = Append(Bump, [n |-> t, k |-> 1]) /\ visited' = visited \cup {t} /\ UNCHANGED <<failures, verdict>>
        /\ UNCHANGED edge
Done == verdict # "run" /\ UNCHANGED vars
Next == Step \/ Done
Spec == Init /\ [][Next]_vars

\* ---- graph facts, computed independently of the walk
Succ(i) == {edge[i][j] : j \in 1..Len(edge[i])}
RECURSIVE Reach(_, _)
Reach(S, k) == IF k = 0 THEN S ELSE Reach(S \cup UNION {Succ(i) : i \in S \ {0}}, k - 1)
Reachable == Reach({N}, N)
Cyclic == \E i \in Reachable \ {0} : i \in Reach(Succ(i), N)
Dangling == 0 \in Reachable
\* longest simple path from N, in nodes (small graphs: enumerate)
RECURSIVE Longest(_, _)
Longest(i, seen) == LET nx == (Succ(i) \ {0}) \ seen IN IF nx = {} THEN 1 ELSE 1 + (CHOOSE m \in {Longest(j, seen \cup {j}) : j \in nx} : \A x \in {Longest(j, seen \cup {j}) : j \in nx} : m >= x)
\* over-deep is meant for chains: with shared sub-graphs the walk records a manifest the first time it meets it, so whether a
\* long path is walked to its end depends on the order of discovery; what always holds is PathBounded
IsChain == \A i \in Reachable \ {0} : Cardinality(Succ(i)) <= 1
TooDeep == ~Cyclic /\ IsChain /\ Longest(N, {N}) > DepthLimit
PathBounded == Len(path) <= DepthLimit
\* the walk never follows a reference (to a manifest that is in the store and not on the path) from a full path
DeepEntryRejected == (verdict = "run" /\ Len(path) >= DepthLimit /\ Top.k <= Len(edge[Top.n]))
                        => LET t == edge[Top.n][Top.k] IN t = 0 \/ OnPath(t) \/ ENABLED Step

Terminates == steps <= N * (MaxOut + 2) + 1
NeverValidIfBad == verdict = "ok" => ~Cyclic /\ ~Dangling /\ ~TooDeep
OkMeansTree == verdict = "ok" => visited = Reachable
BadIsCaught == verdict \in {"ok", "failed", "cyclic", "deep"} => (Cyclic => verdict \in {"cyclic", "deep"}) \/ verdict # "ok"
TypeOK == verdict \in {"run", "ok", "cyclic", "deep", "failed"} /\ Len(path) <= N /\ PathBounded
W_Cycle == verdict # "cyclic"
W_Deep == verdict # "deep"
W_Shared == ~(verdict = "ok" /\ \E i \in Nodes, j \in Nodes : i # j /\ \E t \in Nodes : t \in Succ(i) /\ t \in Succ(j))
=============================================================================
