---- MODULE MC_Identity ----
EXTENDS Identity, Json
Emit == PrintT(<<"VEC", ToJson([mode |-> mode, changed |-> changed, nrefs |-> nrefs, cawg |-> CawgVerdict, manifest |-> ManifestVerdict])>>)
====
