CONSTANTS Phases = {"Reading", "VerifyingAssetHash", "Hashing"}  MaxStep = 3
SPECIFICATION Spec
INVARIANT TypeOK CancelWins
PROPERTY NeverOkAfterRefusal
CHECK_DEADLOCK FALSE
