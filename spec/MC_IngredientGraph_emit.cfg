SPECIFICATION Spec
CONSTANTS N = 4  MaxOut = 3  DepthLimit = 4  Slots = "staircase"
INVARIANTS Emit
CHECK_DEADLOCK FALSE
