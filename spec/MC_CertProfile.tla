---- MODULE MC_CertProfile ----
EXTENDS CertProfile, Json, Sequences
SetToSeq(S) == LET RECURSIVE F(_) F(s) == IF s = {} THEN <<>> ELSE LET x == CHOOSE y \in s : TRUE IN <<x>> \o F(s \ {x}) IN F(S)
Emit == (Cardinality(violated) <= 1 /\ stamp = "none") => PrintT(<<"VEC", ToJson([violated |-> SetToSeq(violated), verdict |-> Verdict, code |-> Code])>>)
====
