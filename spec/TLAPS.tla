------------------------------- MODULE TLAPS --------------------------------

(* Backend pragmas. *)


(***************************************************************************)
(* Each of these pragmas can be cited with a BY or a USE.  The pragma that *)
(* is added to the context of an obligation most recently is the one whose *)
(* effects are triggered.                                                  *)
(***************************************************************************)

(***************************************************************************)
(* The following pragmas should be used only as a last resource.  They are *)
(* dependent upon the particular backend provers, and are unlikely to have *)
(* any effect if the set of backend provers changes.  Moreover, they are   *)
(* meaningless to a reader of the proof.                                   *)
(***************************************************************************)


(**************************************************************************)
(* Backend pragma: use the SMT solver for arithmetic.                     *)
(*                                                                        *)
(* This method exists under this name for historical reasons.             *)
(**************************************************************************)

SimpleArithmetic == TRUE (*{ by (prover:"smt3") }*)


(**************************************************************************)
(* Backend pragma: SMT solver                                             *)
(*                                                                        *)
(* This method translates the proof obligation to SMTLIB2. The supported  *)
(* fragment includes first-order logic, set theory, functions and         *)
(* records.                                                               *)
(* SMT calls the smt-solver with the default timeout of 5 seconds         *)
(* while SMTT(n) calls the smt-solver with a timeout of n seconds.        *)
(*                                                                        *)
(* SMTT also accepts a string argument of the form "rN" to bound the      *)
(* underlying Z3 solver by a deterministic `rlimit` budget instead of a    *)
(* wall-clock timeout, e.g. SMTT("r5"). N is a multiple of a fixed base    *)
(* resource count, so a small readable budget like "r5" is meaningful.     *)
(* Unlike a wall-clock timeout, an `rlimit` budget does not depend on CPU  *)
(* speed or load, so the proof's pass/fail outcome reproduces on any       *)
(* machine and every rerun (for a fixed Z3 build); how long it takes to    *)
(* consume the budget still varies by machine. This is Z3-specific.        *)
(**************************************************************************)

SMT == TRUE (*{ by (prover:"smt3") }*)
SMTT(X) == TRUE (*{ by (prover:"smt3"; timeout:@) }*)


(**************************************************************************)
(* Backend pragma: CVC4 SMT solver                                        *)
(*                                                                        *)
(* These methods translate the proof obligation to SMTLIB2 and call CVC4. *)
(**************************************************************************)

(* The CVC3* methods are here for backward compatibility. They call CVC4. *)
CVC3 == TRUE (*{ by (prover: "cvc33") }*)
CVC3T(X) == TRUE (*{ by (prover:"cvc33"; timeout:@) }*)

CVC4 == TRUE (*{ by (prover: "cvc33") }*)
CVC4T(X) == TRUE (*{ by (prover:"cvc33"; timeout:@) }*)


(**************************************************************************)
(* Backend pragma: Yices SMT solver                                       *)
(*                                                                        *)
(* This method translates the proof obligation to Yices native language.  *)
(**************************************************************************)

Yices == TRUE (*{ by (prover: "yices3") }*)
YicesT(X) == TRUE (*{ by (prover:"yices3"; timeout:@) }*)

(**************************************************************************)
(* Backend pragma: veriT SMT solver                                       *)
(*                                                                        *)
(* This method translates the proof obligation to SMTLIB2 and calls veriT.*)
(**************************************************************************)

veriT == TRUE (*{ by (prover: "verit") }*)
veriTT(X) == TRUE (*{ by (prover:"verit"; timeout:@) }*)

(**************************************************************************)
(* Backend pragma: Zipperposition solver                                  *)
(*                                                                        *)
(* This method translates the proof obligation to TPTP and                *)
(* calls Zipperposition.                                                  *)
(**************************************************************************)

Zipper == TRUE (*{ by (prover: "zipper") }*)
ZipperT(X) == TRUE (*{ by (prover:"zipper"; timeout:@) }*)

(**************************************************************************)
(* Backend pragma: Z3 SMT solver                                          *)
(*                                                                        *)
(* This method translates the proof obligation to SMTLIB2 and calls Z3.   *)
(* Z3 is used by default but you can also explicitly call it.             *)
(* Z3T(n) bounds Z3 by a wall-clock timeout of n seconds, while Z3T("rN")  *)
(* bounds it by a deterministic `rlimit` budget of N base units, which      *)
(* reproduces the same outcome on any machine (see SMTT).                   *)
(**************************************************************************)

Z3 == TRUE (*{ by (prover: "z33") }*)
Z3T(X) == TRUE (*{ by (prover:"z33"; timeout:@) }*)

(**************************************************************************)
(* Backend pragma: SPASS superposition prover                             *)
(*                                                                        *)
(* This method translates the proof obligation to the DFG format language *)
(* supported by the ATP SPASS. The translation is based on the SMT one.   *)
(**************************************************************************)

Spass == TRUE (*{ by (prover: "spass") }*)
SpassT(X) == TRUE (*{ by (prover:"spass"; timeout:@) }*)

(**************************************************************************)
(* Backend pragma: The PTL propositional linear time temporal logic       *)
(* prover.  It currently is the LS4 backend.                              *)
(*                                                                        *)
(* This method translates the negetation of the proof obligation to       *)
(* Seperated Normal Form (TRP++ format) and checks for unsatisfiability   *)
(**************************************************************************)

LS4 == TRUE (*{ by (prover: "ls4") }*)
LS4T(X) == TRUE (*{ by (prover: "ls4"; timeout:@) }*)
PTL == TRUE (*{ by (prover: "ls4") }*)

(**************************************************************************)
(* Backend pragma: Zenon with different timeouts (default is 10 seconds)  *)
(*                                                                        *)
(**************************************************************************)

Zenon == TRUE (*{ by (prover:"zenon") }*)
ZenonT(X) == TRUE (*{ by (prover:"zenon"; timeout:@) }*)

(********************************************************************)
(* Backend pragma: Isabelle with different timeouts and tactics     *)
(*  (default is 30 seconds/auto)                                    *)
(********************************************************************)

Isa == TRUE (*{ by (prover:"isabelle") }*)
IsaT(X) ==  TRUE (*{ by (prover:"isabelle"; timeout:@) }*)
IsaM(X) ==  TRUE (*{ by (prover:"isabelle"; tactic:@) }*)
IsaMT(X,Y) ==  TRUE (*{ by (prover:"isabelle"; tactic:@; timeout:@) }*)

(***************************************************************************)
(* The following theorem expresses the (useful implication of the) law of  *)
(* set extensionality, which can be written as                             *)
(*                                                                         *)
(*    THEOREM  \A S, T : (S = T) <=> (\A x : (x \in S) <=> (x \in T))      *)
(*                                                                         *)
(* Theorem SetExtensionality is sometimes required by the SMT backend for  *)
(* reasoning about sets. It is usually counterproductive to include        *)
(* theorem SetExtensionality in a BY clause for the Zenon or Isabelle      *)
(* backends. Instead, use the pragma IsaWithSetExtensionality to instruct  *)
(* the Isabelle backend to use the rule of set extensionality.             *)
(***************************************************************************)
IsaWithSetExtensionality == TRUE
           (*{ by (prover:"isabelle"; tactic:"(auto intro: setEqualI)")}*)

THEOREM SetExtensionality == \A S,T : (\A x : x \in S <=> x \in T) => S = T
OBVIOUS

(***************************************************************************)
(* The following theorem is needed to deduce NotInSetS \notin SetS from    *)
(* the definition                                                          *)
(*                                                                         *)
(*   NotInSetS == CHOOSE v : v \notin SetS                                 *)
(***************************************************************************)
THEOREM NoSetContainsEverything == \A S : \E x : x \notin S
OBVIOUS (*{by (isabelle "(auto intro: inIrrefl)")}*)
-----------------------------------------------------------------------------



(********************************************************************)
(********************************************************************)
(********************************************************************)


(********************************************************************)
(* Old versions of Zenon and Isabelle pragmas below                 *)
(* (kept for compatibility)                                         *)
(********************************************************************)


(**************************************************************************)
(* Backend pragma: Zenon with different timeouts (default is 10 seconds)  *)
(*                                                                        *)
(**************************************************************************)

SlowZenon == TRUE (*{ by (prover:"zenon"; timeout:20) }*)
SlowerZenon == TRUE (*{ by (prover:"zenon"; timeout:40) }*)
VerySlowZenon == TRUE (*{ by (prover:"zenon"; timeout:80) }*)
SlowestZenon == TRUE (*{ by (prover:"zenon"; timeout:160) }*)



(********************************************************************)
(* Backend pragma: Isabelle's automatic search ("auto")             *)
(*                                                                  *)
(* This pragma bypasses Zenon. It is useful in situations involving *)
(* essentially simplification and equational reasoning.             *)
(* Default imeout for all isabelle tactics is 30 seconds.           *)
(********************************************************************)
Auto == TRUE (*{ by (prover:"isabelle"; tactic:"auto") }*)
SlowAuto == TRUE (*{ by (prover:"isabelle"; tactic:"auto"; timeout:120) }*)
SlowerAuto == TRUE (*{ by (prover:"isabelle"; tactic:"auto"; timeout:480) }*)
SlowestAuto == TRUE (*{ by (prover:"isabelle"; tactic:"auto"; timeout:960) }*)

(********************************************************************)
(* Backend pragma: Isabelle's "force" tactic                        *)
(*                                                                  *)
(* This pragma bypasses Zenon. It is useful in situations involving *)
(* quantifier reasoning.                                            *)
(********************************************************************)
Force == TRUE (*{ by (prover:"isabelle"; tactic:"force") }*)
SlowForce == TRUE (*{ by (prover:"isabelle"; tactic:"force"; timeout:120) }*)
SlowerForce == TRUE (*{ by (prover:"isabelle"; tactic:"force"; timeout:480) }*)
SlowestForce == TRUE (*{ by (prover:"isabelle"; tactic:"force"; timeout:960) }*)

(***********************************************************************)
(* Backend pragma: Isabelle's "simplification" tactics                 *)
(*                                                                     *)
(* These tactics simplify the goal before running one of the automated *)
(* tactics. They are often necessary for obligations involving record  *)
(* or tuple projections. Use the SimplfyAndSolve tactic unless you're  *)
(* sure you can get away with just Simplification                      *)
(***********************************************************************)
SimplifyAndSolve        == TRUE
    (*{ by (prover:"isabelle"; tactic:"clarsimp auto?") }*)
SlowSimplifyAndSolve    == TRUE
    (*{ by (prover:"isabelle"; tactic:"clarsimp auto?"; timeout:120) }*)
SlowerSimplifyAndSolve  == TRUE
    (*{ by (prover:"isabelle"; tactic:"clarsimp auto?"; timeout:480) }*)
SlowestSimplifyAndSolve == TRUE
    (*{ by (prover:"isabelle"; tactic:"clarsimp auto?"; timeout:960) }*)

Simplification == TRUE (*{ by (prover:"isabelle"; tactic:"clarsimp") }*)
SlowSimplification == TRUE
    (*{ by (prover:"isabelle"; tactic:"clarsimp"; timeout:120) }*)
SlowerSimplification  == TRUE
    (*{ by (prover:"isabelle"; tactic:"clarsimp"; timeout:480) }*)
SlowestSimplification == TRUE
    (*{ by (prover:"isabelle"; tactic:"clarsimp"; timeout:960) }*)

(**************************************************************************)
(* Backend pragma: Isabelle's tableau prover ("blast")                    *)
(*                                                                        *)
(* This pragma bypasses Zenon and uses Isabelle's built-in theorem        *)
(* prover, Blast. It is almost never better than Zenon by itself, but     *)
(* becomes very useful in combination with the Auto pragma above. The     *)
(* AutoBlast pragma first attempts Auto and then uses Blast to prove what *)
(* Auto could not prove. (There is currently no way to use Zenon on the   *)
(* results left over from Auto.)                                          *)
(**************************************************************************)
Blast == TRUE (*{ by (prover:"isabelle"; tactic:"blast") }*)
SlowBlast == TRUE (*{ by (prover:"isabelle"; tactic:"blast"; timeout:120) }*)
SlowerBlast == TRUE (*{ by (prover:"isabelle"; tactic:"blast"; timeout:480) }*)
SlowestBlast == TRUE (*{ by (prover:"isabelle"; tactic:"blast"; timeout:960) }*)

AutoBlast == TRUE (*{ by (prover:"isabelle"; tactic:"auto, blast") }*)


(**************************************************************************)
(* Backend pragmas: multi-back-ends                                       *)
(*                                                                        *)
(* These pragmas just run a bunch of back-ends one after the other in the *)
(* hope that one will succeed. This saves time and effort for the user at *)
(* the expense of computation time.                                       *)
(**************************************************************************)

(* CVC3 goes first because it's bundled with TLAPS, then the other SMT
   solvers are unlikely to succeed if CVC3 fails, so we run zenon and
   Isabelle before them. *)
AllProvers == TRUE (*{
    by (prover:"cvc33")
    by (prover:"zenon")
    by (prover:"isabelle"; tactic:"auto")
    by (prover:"spass")
    by (prover:"smt3")
    by (prover:"yices3")
    by (prover:"verit")
    by (prover:"z33")
    by (prover:"isabelle"; tactic:"force")
    by (prover:"isabelle"; tactic:"(auto intro: setEqualI)")
    by (prover:"isabelle"; tactic:"clarsimp auto?")
    by (prover:"isabelle"; tactic:"clarsimp")
    by (prover:"isabelle"; tactic:"auto, blast")
  }*)
AllProversT(X) == TRUE (*{
    by (prover:"cvc33"; timeout:@)
    by (prover:"zenon"; timeout:@)
    by (prover:"isabelle"; tactic:"auto"; timeout:@)
    by (prover:"spass"; timeout:@)
    by (prover:"smt3"; timeout:@)
    by (prover:"yices3"; timeout:@)
    by (prover:"verit"; timeout:@)
    by (prover:"z33"; timeout:@)
    by (prover:"isabelle"; tactic:"force"; timeout:@)
    by (prover:"isabelle"; tactic:"(auto intro: setEqualI)"; timeout:@)
    by (prover:"isabelle"; tactic:"clarsimp auto?"; timeout:@)
    by (prover:"isabelle"; tactic:"clarsimp"; timeout:@)
    by (prover:"isabelle"; tactic:"auto, blast"; timeout:@)
  }*)

AllSMT == TRUE (*{
    by (prover:"cvc33")
    by (prover:"smt3")
    by (prover:"yices3")
    by (prover:"verit")
    by (prover:"z33")
  }*)
AllSMTT(X) == TRUE (*{
    by (prover:"cvc33"; timeout:@)
    by (prover:"smt3"; timeout:@)
    by (prover:"yices3"; timeout:@)
    by (prover:"verit"; timeout:@)
    by (prover:"z33"; timeout:@)
  }*)

AllIsa == TRUE (*{
    by (prover:"isabelle"; tactic:"auto")
    by (prover:"isabelle"; tactic:"force")
    by (prover:"isabelle"; tactic:"(auto intro: setEqualI)")
    by (prover:"isabelle"; tactic:"clarsimp auto?")
    by (prover:"isabelle"; tactic:"clarsimp")
    by (prover:"isabelle"; tactic:"auto, blast")
  }*)
AllIsaT(X) == TRUE (*{
    by (prover:"isabelle"; tactic:"auto"; timeout:@)
    by (prover:"isabelle"; tactic:"force"; timeout:@)
    by (prover:"isabelle"; tactic:"(auto intro: setEqualI)"; timeout:@)
    by (prover:"isabelle"; tactic:"clarsimp auto?"; timeout:@)
    by (prover:"isabelle"; tactic:"clarsimp"; timeout:@)
    by (prover:"isabelle"; tactic:"auto, blast"; timeout:@)
  }*)


(**************************************************************************)
(* The pragma ExpandEnabled invokes expansion of the operator ENABLED.    *)
(*                                                                        *)
(* The pragma ExpandCdot invokes expansion of the operator \cdot.         *)
(*                                                                        *)
(* The pragma AutoUSE invokes automated expansion of definitions,         *)
(* for both of ExpandEnabled and ExpandCdot, when each is present.        *)
(*                                                                        *)
(* The pragma Lambdify invokes expansion of the operators                 *)
(* ENABLED and \cdot to an intermediate form with bound VARIABLES,        *)
(* which is a form before introducing rigid quantifiers.                  *)
(* The pragma Lambdify is sound for occurrences of ENABLED and \cdot      *)
(* that are not nested.                                                   *)
(**************************************************************************)
ExpandENABLED == TRUE  (*{ by (prover:"expandenabled") }*)
ExpandCdot == TRUE  (*{ by (prover:"expandcdot") }*)
AutoUSE == TRUE  (*{ by (prover:"autouse") }*)
Lambdify == TRUE  (*{ by (prover:"lambdify") }*)
ENABLEDaxioms == TRUE  (*{ by (prover:"enabledaxioms") }*)
LevelComparison == TRUE  (*{ by (prover:"levelcomparison") }*)

(* The operators EnabledWrapper and CdotWrapper occur in an intermediate  *)
(* representation within TLAPM.                                           *)
EnabledWrapper(Op(_)) == FALSE
CdotWrapper(Op(_)) == FALSE

(***************************************************************************)
(* The following may be used in a `BY ONLY ThmName` for unit testing the   *)
(* triviality checks in TLAPM.                                             *)
(***************************************************************************)
Trivial == TRUE  (*{ by (prover:"trivial") }*)


=============================================================================

The material below is obsolete: the TLA proof rules below are superseded by
the PTL decision procedure, and their formulation is unsound for the semantics
of temporal reasoning that TLAPS adopts.

----------------------------------------------------------------------------
(***************************************************************************)
(*                           TEMPORAL LOGIC                                *)
(*                                                                         *)
(* The following rules are intended to be used when TLAPS handles temporal *)
(* logic.  They will not work now.  Moreover when temporal reasoning is    *)
(* implemented, these rules may be changed or omitted, and additional      *)
(* rules will probably be added.  However, they are included mainly so     *)
(* their names will be defined, preventing the use of identifiers that are *)
(* likely to produce name clashes with future versions of this module.     *)
(***************************************************************************)


(***************************************************************************)
(* The following proof rules (and their names) are from the paper "The     *)
(* Temporal Logic of Actions".                                             *)
(***************************************************************************)
THEOREM RuleTLA1 == ASSUME STATE P, STATE f,
                           P /\ (f' = f) => P'
                    PROVE  []P <=> P /\ [][P => P']_f

THEOREM RuleTLA2 == ASSUME STATE P, STATE Q, STATE f, STATE g,
                           ACTION A, ACTION B,
                           P /\ [A]_f => Q /\ [B]_g
                    PROVE  []P /\ [][A]_f => []Q /\ [][B]_g

THEOREM RuleINV1 == ASSUME STATE I, STATE F,  ACTION N,
                           I /\ [N]_F => I'
                    PROVE  I /\ [][N]_F => []I

THEOREM RuleINV2 == ASSUME STATE I, STATE f, ACTION N
                    PROVE  []I => ([][N]_f <=> [][N /\ I /\ I']_f)

THEOREM RuleWF1 == ASSUME STATE P, STATE Q, STATE f, ACTION N, ACTION A,
                          P /\ [N]_f => (P' \/ Q'),
                          P /\ <<N /\ A>>_f => Q',
                          P => ENABLED <<A>>_f
                   PROVE  [][N]_f /\ WF_f(A) => (P ~> Q)

THEOREM RuleSF1 == ASSUME STATE P, STATE Q, STATE f,
                          ACTION N, ACTION A, TEMPORAL F,
                          P /\ [N]_f => (P' \/ Q'),
                          P /\ <<N /\ A>>_f => Q',
                          []P /\ [][N]_f /\ []F => <> ENABLED <<A>>_f
                   PROVE  [][N]_f /\ SF_f(A) /\ []F => (P ~> Q)

(***************************************************************************)
(* The rules WF2 and SF2 in "The Temporal Logic of Actions" are obtained   *)
(* from the following two rules by the following substitutions: `.         *)
(*                                                                         *)
(*          ___        ___         _______________                         *)
(*      M <- M ,   g <- g ,  EM <- ENABLED <<M>>_g       .'                *)
(***************************************************************************)
THEOREM RuleWF2 == ASSUME STATE P, STATE f, STATE g, STATE EM,
                          ACTION A, ACTION B, ACTION N, ACTION M,
                          TEMPORAL F,
                          <<N /\ B>>_f => <<M>>_g,
                          P /\ P' /\ <<N /\ A>>_f /\ EM => B,
                          P /\ EM => ENABLED A,
                          [][N /\ ~B]_f /\ WF_f(A) /\ []F /\ <>[]EM => <>[]P
                   PROVE  [][N]_f /\ WF_f(A) /\ []F => []<><<M>>_g \/ []<>(~EM)

THEOREM RuleSF2 == ASSUME STATE P, STATE f, STATE g, STATE EM,
                          ACTION A, ACTION B, ACTION N, ACTION M,
                          TEMPORAL F,
                          <<N /\ B>>_f => <<M>>_g,
                          P /\ P' /\ <<N /\ A>>_f /\ EM => B,
                          P /\ EM => ENABLED A,
                          [][N /\ ~B]_f /\ SF_f(A) /\ []F /\ []<>EM => <>[]P
                   PROVE  [][N]_f /\ SF_f(A) /\ []F => []<><<M>>_g \/ <>[](~EM)


(***************************************************************************)
(* The following rule is a special case of the general temporal logic      *)
(* proof rule STL4 from the paper "The Temporal Logic of Actions".  The    *)
(* general rule is for arbitrary temporal formulas F and G, but it cannot  *)
(* yet be handled by TLAPS.                                                *)
(***************************************************************************)
THEOREM RuleInvImplication ==
  ASSUME STATE F, STATE G,
         F => G
  PROVE  []F => []G
PROOF OMITTED

(***************************************************************************)
(* The following rule is a special case of rule TLA2 from the paper "The   *)
(* Temporal Logic of Actions".                                             *)
(***************************************************************************)
THEOREM RuleStepSimulation ==
  ASSUME STATE I, STATE f, STATE g,
         ACTION M, ACTION N,
         I /\ I' /\ [M]_f => [N]_g
  PROVE  []I /\ [][M]_f => [][N]_g
PROOF OMITTED

(***************************************************************************)
(* The following may be used to invoke a decision procedure for            *)
(* propositional temporal logic.                                           *)
(***************************************************************************)
PropositionalTemporalLogic == TRUE
=============================================================================
