CONSTANTS G_SameHashLen = TRUE  G_PadExact = FALSE  G_Locality = TRUE  G_RangeHash = TRUE
SPECIFICATION Spec
INVARIANT SizesStable RoundTrip
PROPERTY SigningSucceeds
