CONSTANT MaxDeltas = 2
INIT Init
NEXT ONext
CHECK_DEADLOCK FALSE
