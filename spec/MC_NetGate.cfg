SPECIFICATION Spec
INVARIANT NoUnaskedRequest RemoteOnlyDisabled
CHECK_DEADLOCK FALSE
