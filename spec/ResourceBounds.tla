---------------------------- MODULE ResourceBounds ----------------------------
(***************************************************************************)
(* C10 -- the resource discipline of the parsers, as a budget machine.      *)
(* Untrusted input declares things: a nesting depth, a compressed box with  *)
(* an inflated size, a number of assertions, a Content-Length.  A parser    *)
(* step either consumes input or acts on a declaration.  The discipline:    *)
(*   Descend   refused beyond MaxDepth (BoxReader::MAX_JUMB_DEPTH)          *)
(*   Inflate   output is written through a bounded writer: refused as soon  *)
(*             as the total would exceed MaxInflate                         *)
(*   Reserve   memory reserved up front for a DECLARED length is capped:     *)
(*             reserve(n) allocates min(n, ReserveCap); the rest follows    *)
(*             the bytes that actually arrive                               *)
(*   Count     refused beyond MaxCount (MAX_ASSERTIONS)                     *)
(* TLC checks, for every sequence of declarations an attacker can make with *)
(* InputLen bytes, that depth, allocation and work stay within bounds that  *)
(* depend only on the input length and the configured limits, and that the  *)
(* machine always stops.  The variant Reserve without the cap (the shape    *)
(* fetch_remote_manifest had) is shown to violate AllocBounded.             *)
(***************************************************************************)
EXTENDS Naturals, TLC
CONSTANTS InputLen, MaxDepth, MaxInflate, ReserveCap, MaxCount, MaxDeclared, Capped
VARIABLES left,     \* input bytes not yet consumed
          depth, alloc, count, work, status
vars == <<left, depth, alloc, count, work, status>>
Init == left = InputLen /\ depth = 0 /\ alloc = 0 /\ count = 0 /\ work = 0 /\ status = "run"
Consume(n) == left >= n /\ left' = left - n /\ work' = work + 1
Refuse == status' = "refused" /\ UNCHANGED <<left, depth, alloc, count, work>>
Descend == /\ status = "run" /\ left >= 1
           /\ IF depth >= MaxDepth THEN Refuse
              ELSE Consume(1) /\ depth' = depth + 1 /\ UNCHANGED <<alloc, count, status>>
Ascend == status = "run" /\ depth > 0 /\ depth' = depth - 1 /\ work' = work + 1 /\ UNCHANGED <<left, alloc, count, status>>
Inflate(n) == /\ status = "run" /\ left >= 1
              /\ IF alloc + n > MaxInflate THEN Refuse
                 ELSE Consume(1) /\ alloc' = alloc + n /\ UNCHANGED <<depth, count, status>>
Reserve(n) == /\ status = "run" /\ left >= 1
              /\ Consume(1) /\ alloc' = alloc + (IF Capped /\ n > ReserveCap THEN ReserveCap ELSE n) /\ UNCHANGED <<depth, count, status>>
Count == /\ status = "run" /\ left >= 1
         /\ IF count >= MaxCount THEN Refuse ELSE Consume(1) /\ count' = count + 1 /\ UNCHANGED <<depth, alloc, status>>
Finish == status = "run" /\ left = 0 /\ depth = 0 /\ status' = "done" /\ UNCHANGED <<left, depth, alloc, count, work>>
Next == Descend \/ Ascend \/ Count \/ Finish \/ (\E n \in 1..MaxDeclared : Inflate(n) \/ Reserve(n))
Spec == Init /\ [][Next]_vars /\ WF_vars(Next)
DepthBounded == depth <= MaxDepth
AllocBounded == alloc <= MaxInflate + InputLen * ReserveCap
CountBounded == count <= MaxCount
WorkBounded == work <= 2 * InputLen
Stops == <>(status # "run" \/ ~ENABLED Next)
W_Refused == status # "refused"
=============================================================================
