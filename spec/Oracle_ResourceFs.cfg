
