CONSTANTS Addrs = {1, 2, 3}  Types = {"Settings", "Builder", "Reader"}  NULL = 0
SPECIFICATION Spec
INVARIANT NoInvalidDeref TypeOK
PROPERTY FreeOnce ErrorsReported
CHECK_DEADLOCK FALSE
