SPECIFICATION Spec
CONSTANTS MaxPayload = 1
INVARIANTS W_Rejects
CHECK_DEADLOCK FALSE
