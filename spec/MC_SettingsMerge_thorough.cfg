\* trees of depth <= 2 over keys {a,b}, leaves {1,2,null}: 403 x 403 (settings, overlay) pairs; depth limit 64 as coded
CONSTANTS MaxDepth = 64  LeafVals = {"1", "2", "null"}
SPECIFICATION Spec
INVARIANT InvMergeLaw InvIdempotent InvEmpty InvSetGet InvJudgeSound
CHECK_DEADLOCK FALSE
