---- MODULE Embeddable ----
(***************************************************************************)
(* C15 -- the placeholder ("embeddable") workflow for data-hash formats:   *)
(*   Placeholder -> SetExclusions -> UpdateHash -> SignEmbeddable -> Patch *)
(* The placeholder reserves room for a data-hash assertion with ten dummy  *)
(* exclusions (0,2); the caller's real exclusion list has its own CBOR     *)
(* size.  Sizes are exact integers; everything else in the manifest has    *)
(* the same size in the placeholder and in the signed manifest.            *)
(***************************************************************************)
EXTENDS Naturals, Sequences, FiniteSets, TLC

UIntLen(n) == IF n < 24 THEN 1 ELSE IF n < 256 THEN 2 ELSE IF n < 65536 THEN 3 ELSE 5     \* values < 2^32
ArrHdr(n)  == IF n < 24 THEN 1 ELSE 2
\* one exclusion = map(2) { "start": uint, "length": uint }
ExclLen(e) == 1 + 6 + UIntLen(e[1]) + 7 + UIntLen(e[2])
RECURSIVE SumExcl(_)
SumExcl(es) == IF es = <<>> THEN 0 ELSE ExclLen(Head(es)) + SumExcl(Tail(es))
ListLen(es) == ArrHdr(Len(es)) + SumExcl(es)
Dummy == [i \in 1..10 |-> <<0, 2>>]

CONSTANTS Base,         \* size of everything but the exclusion list (same in placeholder and signed manifest)
          Magnitudes    \* representative values for starts / lengths

VARIABLES pc, P, excl, ret, round
vars == <<pc, P, excl, ret, round>>
Init == pc = "start" /\ P = 0 /\ excl = <<>> /\ ret = [kind |-> "none", len |-> 0] /\ round = 1

\* placeholder(): a fresh builder gets the ten-dummy data hash; a builder that already carries a real data hash
\* (it was used for an earlier round) keeps it, so the new placeholder is sized by that list.  The placeholder
\* length the contract refers to is always the one returned by the LATEST placeholder() call.
Placeholder == /\ pc = "start"
               /\ P' = Base + (IF round = 1 THEN ListLen(Dummy) ELSE ListLen(excl))
               /\ pc' = "placed" /\ UNCHANGED <<excl, ret, round>>
\* the same builder is used for another placeholder/sign round
Again == pc = "done" /\ round < 2 /\ pc' = "start" /\ round' = round + 1 /\ ret' = [kind |-> "none", len |-> 0] /\ UNCHANGED <<P, excl>>
SetExclusions(es) == pc = "placed" /\ excl' = es /\ pc' = "excluded" /\ UNCHANGED <<P, ret, round>>
UpdateHash == pc = "excluded" /\ pc' = "hashed" /\ UNCHANGED <<P, excl, ret, round>>
\* sign_embeddable: the signed manifest is zero-padded up to the placeholder size; a manifest that outgrew the
\* placeholder is an error (as coded after the S9 repair)
SignEmbeddable ==
  /\ pc = "hashed"
  /\ LET L == Base + ListLen(excl) IN
     ret' = IF L <= P THEN [kind |-> "ok", len |-> P] ELSE [kind |-> "err", len |-> 0]
  /\ pc' = "done" /\ UNCHANGED <<P, excl, round>>
Lists(n) == [1..n -> Magnitudes \X Magnitudes]
Next == Placeholder \/ Again \/ UpdateHash \/ SignEmbeddable \/ \E n \in 1..12 : \E es \in Lists(n) : SetExclusions(es)
        \/ (pc = "done" /\ UNCHANGED vars)
Spec == Init /\ [][Next]_vars

\* the property: bytes are returned only with exactly the placeholder length
SizeContract == ret.kind = "ok" => ret.len = P
\* design facts TLC confirms: ten small ranges always fit; twelve ranges or large offsets can outgrow the dummy list
Fits(es) == Base + ListLen(es) <= Base + ListLen(Dummy)
====
