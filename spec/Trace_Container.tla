---- MODULE Trace_Container ----
(* Binding T for C07 / C08 / C09: recorded operation sequences on real assets are replayed on the Container model; *)
(* after every step the projection of the real file must equal the model's.                                       *)
(* Events: [e |-> "reset", layout] | [e |-> "write", s, size, ok, read, present, cai_n, cai_ok, outside, media]     *)
(*         | [e |-> "remove", ok, read, present, remove_equal, usable, media]                                      *)
(*         | [e |-> "fwrite", delta, ok, read]                                                                     *)
(* foreign: "yes" | "no" | "na" -- the other application's structure added to the asset is still there exactly once. *)
(* media / remove_equal are "yes" | "no" | "unknown" (no walker for the format).                                   *)
EXTENDS Naturals, Sequences, FiniteSets, TLC, Json, IOUtils
Rec == ndJsonDeserialize(IOEnv.TRACE)
VARIABLES l, hasStore, last, lastSize, bad
tvars == <<l, hasStore, last, lastSize, bad>>
Ev == Rec[l]
TInit == l = 1 /\ hasStore = FALSE /\ last = "none" /\ lastSize = 0 /\ bad = <<>>
Flag(S) == bad' = IF S = {} THEN bad ELSE Append(bad, <<l, S>>)
WithOld(layout) == layout \in {"manifest", "foreign-manifest"}
TReset == Ev.e = "reset" /\ hasStore' = WithOld(Ev.layout) /\ last' = (IF WithOld(Ev.layout) THEN "old" ELSE "none") /\ lastSize' = 0 /\ UNCHANGED bad
SetOf(s) == {s[i] : i \in 1..Len(s)}
TWrite ==
  /\ Ev.e = "write"
  /\ IF ~Ev.ok THEN Flag({"C07:write-failed"}) /\ UNCHANGED <<hasStore, last, lastSize>>
     ELSE /\ hasStore' = TRUE /\ last' = Ev.s /\ lastSize' = Ev.size
          /\ Flag( (IF Ev.read # "equal" THEN {"C07:read-differs"} ELSE {})
              \cup (IF Ev.markers /\ SetOf(Ev.present) # {Ev.s} THEN {"C07:not-exactly-one-store"} ELSE {})
              \cup (IF Ev.cai_n > 1 THEN {"C08:several-manifest-regions"} ELSE {})
              \cup (IF Ev.cai_n = 1 /\ ~Ev.cai_ok THEN {"C08:manifest-region-wrong"} ELSE {})
              \cup (IF hasStore /\ Ev.cai_n = 1 /\ lastSize = Ev.size /\ last # Ev.s /\ Ev.outside > 0 THEN {"C08:same-size-replace-not-local"} ELSE {})
              \cup (IF Ev.foreign = "no" THEN {"C09:foreign-data-lost"} ELSE {})
              \cup (IF Ev.media = "no" THEN {"C09:media-changed"} ELSE {}) )
TRemove ==
  /\ Ev.e = "remove"
  /\ IF ~Ev.ok THEN Flag({"C07:remove-failed"}) /\ UNCHANGED <<hasStore, last, lastSize>>
     ELSE /\ hasStore' = FALSE /\ last' = "none" /\ lastSize' = 0
          /\ Flag( (IF Ev.read # "none" THEN {"C07:manifest-still-readable"} ELSE {})
              \cup (IF Ev.markers /\ Ev.present # <<>> THEN {"C07:store-bytes-remain"} ELSE {})
              \cup (IF ~Ev.usable THEN {"C07:asset-rejected-after-remove"} ELSE {})
              \cup (IF Ev.remove_equal = "no" THEN {"C09:remove-not-idempotent"} ELSE {})
              \cup (IF Ev.foreign = "no" THEN {"C09:foreign-data-lost"} ELSE {})
              \cup (IF Ev.media = "no" THEN {"C09:media-changed"} ELSE {}) )
\* a probe: a store of the current store's size + delta is written onto a copy of the current file through the file entry
\* point (patch in place first, rewrite otherwise) and read back; the probe leaves the model state alone
TFileWrite ==
  /\ Ev.e = "fwrite"
  /\ UNCHANGED <<hasStore, last, lastSize>>
  /\ Flag( (IF ~Ev.ok THEN {"C07:file-write-failed"} ELSE {})
       \cup (IF Ev.ok /\ Ev.read # "equal" THEN {"C07:file-write-read-differs"} ELSE {}) )
TNext == l <= Len(Rec) /\ l' = l + 1 /\ (TReset \/ TWrite \/ TRemove \/ TFileWrite)
TSpec == TInit /\ [][TNext]_tvars
Accepted == LET d == TLCGet("stats").diameter IN PrintT(<<"TRACE_MATCHED", d - 1>>) /\ d - 1 = Len(Rec)
AtEnd == l = Len(Rec) + 1 => PrintT(<<"VERDICT", ToJson([bad |-> bad])>>)
====
