---- MODULE MC_JumbfCodec ----
EXTENDS JumbfCodec
CONSTANTS MaxPayload
LeafTypes == {"jumd", "cbor"}
Leaves == {Leaf(t, p) : t \in LeafTypes, p \in 0..MaxPayload}
L1 == Leaves \cup {Super(<<>>)} \cup {Super(<<a>>) : a \in Leaves} \cup {Super(<<a, b>>) : a \in Leaves, b \in Leaves}
L2 == L1 \cup {Super(<<a>>) : a \in L1} \cup {Super(<<a, b>>) : a \in L1, b \in L1}
Trees == L2 \cup {Super(<<a, b>>) : a \in L2, b \in Leaves}
\* header lists: everything Ser produces, plus every list obtained by changing one size by +-1 or one type (the parser must
\* reject what does not add up, and whatever it accepts must re-serialise to itself)
Perturb(w) == {w} \cup {[w EXCEPT ![i].size = @ + 1] : i \in 1..Len(w)} \cup {[w EXCEPT ![i].size = IF @ > 0 THEN @ - 1 ELSE 0] : i \in 1..Len(w)}
                  \cup {[w EXCEPT ![i].t = IF @ = "jumb" THEN "cbor" ELSE "jumb"] : i \in 1..Len(w)}
VARIABLE tree
Init == tree \in Trees
Next == UNCHANGED tree
Spec == Init /\ [][Next]_tree
RoundTrip == Parse(Ser(tree)) = tree
Canonical == \A w \in Perturb(Ser(tree)) : Parse(w) # Err => Ser(Parse(w)) = w
SizesAddUp == Size(tree) = Hdr * Len(Ser(tree)) + (LET RECURSIVE P(_) P(n) == IF n.t = "jumb" THEN (LET RECURSIVE S(_) S(i) == IF i > Len(n.kids) THEN 0 ELSE P(n.kids[i]) + S(i + 1) IN S(1)) ELSE n.p IN P(tree))
W_Rejects == \A w \in Perturb(Ser(tree)) : Parse(w) # Err
====
