---- MODULE ValidationState ----
(***************************************************************************)
(* C04 -- the overall validation state as a function of validation codes.  *)
(* State = a ValidationResults value: the status classes recorded for the  *)
(* active manifest and for 0..MaxDeltas ingredient deltas.  The action     *)
(* AddStatus mirrors the public ValidationResults::add_status; the         *)
(* operator State is written from the property statement, not the code.    *)
(***************************************************************************)
EXTENDS Naturals, FiniteSets, Sequences, TLC

\* Status classes.  A class is a (list, code-class) pair: the list a status lands in is
\* decided by its kind; the harness maps each class to several concrete codes.
Success   == {"SigValidated", "SigInsideValidity", "CredTrusted", "OtherSuccess"}
Info      == {"Info"}               \* informational list (any code, incl. claimSignature.validated as info)
Tolerated == {"TolUntrusted", "TolCawg"}   \* signingCredential.untrusted, cawg.x509.*
HardFail  == {"Fail", "UnknownFail"}       \* every other known failure code, never-seen codes
Failure   == Tolerated \cup HardFail
Class     == Success \cup Info \cup Failure

CONSTANT MaxDeltas

VARIABLES present,   \* an activeManifest entry exists
          active,    \* set of classes recorded for the active manifest
          deltas     \* Seq of sets of classes, one per ingredient delta
vars == <<present, active, deltas>>

TypeOK == /\ present \in BOOLEAN
          /\ active \subseteq Class
          /\ deltas \in Seq(SUBSET Class) /\ Len(deltas) <= MaxDeltas

Init == present = FALSE /\ active = {} /\ deltas = <<>>

\* add_status with no ingredient URI
AddActive(c) == /\ present' = TRUE
                /\ active' = active \cup {c}
                /\ UNCHANGED deltas
\* add_status with ingredient URI #i (existing delta, or a fresh one appended)
AddDelta(i, c) == /\ \/ i \in 1..Len(deltas) /\ deltas' = [deltas EXCEPT ![i] = @ \cup {c}]
                     \/ i = Len(deltas) + 1 /\ i <= MaxDeltas /\ deltas' = Append(deltas, {c})
                  /\ UNCHANGED <<present, active>>

Next == \/ \E c \in Class : AddActive(c)
        \/ \E i \in 1..MaxDeltas, c \in Failure : AddDelta(i, c)

Spec == Init /\ [][Next]_vars

\* ---------------- the property, written from the statement ----------------
AllFailures(a, d) == (a \cap Failure) \cup UNION {d[i] \cap Failure : i \in 1..Len(d)}

IsValid(a, d)   == /\ "SigValidated" \in a
                   /\ "SigInsideValidity" \in a
                   /\ AllFailures(a, d) \subseteq Tolerated
IsTrusted(a, d) == IsValid(a, d) /\ "CredTrusted" \in a /\ AllFailures(a, d) = {}

State(p, a, d) == IF ~p THEN "Invalid"
                  ELSE IF IsTrusted(a, d) THEN "Trusted"
                  ELSE IF IsValid(a, d) THEN "Valid" ELSE "Invalid"

Rank(s) == CASE s = "Invalid" -> 0 [] s = "Valid" -> 1 [] s = "Trusted" -> 2

\* "Valid only if ...", "Trusted only if ...", "otherwise Invalid" are the definition of
\* State; the invariants below are the consequences a user relies on.
HardFailInvalid == (AllFailures(active, deltas) \cap HardFail # {}) => State(present, active, deltas) = "Invalid"
ValidNeedsSig   == State(present, active, deltas) # "Invalid" =>
                      {"SigValidated", "SigInsideValidity"} \subseteq active
TrustedNoFailure == State(present, active, deltas) = "Trusted" =>
                      AllFailures(active, deltas) = {} /\ "CredTrusted" \in active

\* Adding any non-tolerated failure never raises the state.
Monotone == [][ ((\E c \in HardFail : AddActive(c)) \/ (\E i \in 1..MaxDeltas, c \in HardFail : AddDelta(i, c)))
                  => Rank(State(present', active', deltas')) <= Rank(State(present, active, deltas)) ]_vars
\* Adding any failure at all never raises the state either (stronger; holds for the design).
MonotoneAnyFailure == [][ ((\E c \in Failure : AddActive(c)) \/ (\E i \in 1..MaxDeltas, c \in Failure : AddDelta(i, c)))
                  => Rank(State(present', active', deltas')) <= Rank(State(present, active, deltas)) ]_vars
====
