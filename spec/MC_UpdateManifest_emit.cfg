SPECIFICATION Spec
CONSTANTS MaxSteps = 3
INVARIANTS Emit
CHECK_DEADLOCK FALSE
