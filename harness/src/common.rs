//! Shared harness pieces: fixtures, signers, contexts, report projection, NDJSON I/O.
#![allow(dead_code)]
use std::io::{BufRead, Cursor, Write};

use c2pa::{Builder, Context, Reader, Settings, SigningAlg};
use serde_json::{json, Value};

pub const FIX: &str = "/repo/sdk/tests/fixtures";

pub fn fixture(name: &str) -> Vec<u8> {
    std::fs::read(format!("{FIX}/{name}")).unwrap_or_else(|e| panic!("fixture {name}: {e}"))
}

pub fn alg_of(name: &str) -> SigningAlg {
    match name {
        "es256" => SigningAlg::Es256,
        "es384" => SigningAlg::Es384,
        "es512" => SigningAlg::Es512,
        "ps256" => SigningAlg::Ps256,
        "ps384" => SigningAlg::Ps384,
        "ps512" => SigningAlg::Ps512,
        "ed25519" => SigningAlg::Ed25519,
        _ => panic!("alg {name}"),
    }
}

pub const ALGS: [&str; 7] = ["es256", "es384", "es512", "ps256", "ps384", "ps512", "ed25519"];

/// Signer built from the fixture keys, never from the fixture settings (those carry a TSA URL).
pub fn signer(alg: &str) -> c2pa::BoxedSigner {
    let cert = fixture(&format!("certs/{alg}.pub"));
    let key = fixture(&format!("certs/{alg}.pem"));
    c2pa::create_signer::from_keys(&cert, &key, alg_of(alg), None).expect("signer")
}

/// Settings: fixture trust lists (so the test roots are anchors), no thumbnails, no signer section,
/// overlaid with `overlay` (JSON).
pub fn settings(overlay: &Value) -> Settings {
    try_settings(overlay).expect("harness settings")
}
pub fn try_settings(overlay: &Value) -> c2pa::Result<Settings> {
    let toml_s = String::from_utf8(fixture("test_settings.toml")).unwrap();
    // keep only [trust] / [cawg_trust] / [core] / [verify] sections: drop signer sections (TSA URL)
    let mut keep = String::new();
    let mut on = true;
    for line in toml_s.lines() {
        let t = line.trim();
        if t.starts_with('[') && !t.starts_with("[[") && t.ends_with(']') {
            let sec = t.trim_matches(|c| c == '[' || c == ']');
            on = !(sec.starts_with("signer") || sec.starts_with("cawg_x509_signer") || sec.starts_with("builder"));
        } else if t.starts_with("[[") {
            on = false;
        }
        if on {
            keep.push_str(line);
            keep.push('\n');
        }
    }
    let s = Settings::new().with_toml(&keep)?;
    let base = json!({"builder": {"thumbnail": {"enabled": false}}});
    let s = s.with_json(&base.to_string())?;
    if overlay.is_null() {
        Ok(s)
    } else {
        s.with_json(&overlay.to_string())
    }
}

pub fn ctx(overlay: &Value) -> Context {
    Context::new().with_settings(settings(overlay)).expect("context")
}

pub fn simple_manifest_json(title: &str, format: &str) -> Value {
    json!({
        "title": title,
        "format": format,
        "claim_generator_info": [{"name": "vh", "version": "0.1"}],
        "assertions": [
            {"label": "c2pa.actions", "data": {"actions": [{"action": "c2pa.created", "digitalSourceType": "http://cv.iptc.org/newscodes/digitalsourcetype/digitalCapture"}]}},
            {"label": "org.vh.test", "data": {"k": "v", "n": 7}}
        ]
    })
}

/// Sign `src` (format `fmt`) with `def` under context `c`; returns signed bytes.
pub fn sign_bytes(c: Context, def: &Value, fmt: &str, src: &[u8], alg: &str) -> c2pa::Result<Vec<u8>> {
    let mut b = Builder::from_context(c).with_definition(def.to_string().as_str())?;
    let s = signer(alg);
    let mut input = Cursor::new(src.to_vec());
    let mut out = Cursor::new(Vec::new());
    b.sign(s.as_ref(), fmt, &mut input, &mut out)?;
    Ok(out.into_inner())
}

pub fn read_bytes(c: Context, fmt: &str, bytes: &[u8]) -> c2pa::Result<Reader> {
    Reader::from_context(c).with_stream(fmt, Cursor::new(bytes.to_vec()))
}

pub fn state_str(r: &Reader) -> &'static str {
    match r.validation_state() {
        c2pa::ValidationState::Invalid => "Invalid",
        c2pa::ValidationState::Valid => "Valid",
        c2pa::ValidationState::Trusted => "Trusted",
    }
}

fn strip_times(v: &mut Value) {
    match v {
        Value::Object(m) => {
            m.remove("validationTime");
            m.remove("validation_time");
            // the list of ingredient deltas is a set keyed by the ingredient assertion URI: order is not content
            if let Some(Value::Array(a)) = m.get_mut("ingredientDeltas") {
                a.sort_by_key(|d| d["ingredientAssertionURI"].as_str().unwrap_or("").to_string());
            }
            for (_, x) in m.iter_mut() {
                strip_times(x);
            }
        }
        Value::Array(a) => {
            for x in a.iter_mut() {
                strip_times(x);
            }
        }
        _ => {}
    }
}

/// Report projection: the Reader's JSON report with the validation time removed, plus state.
pub fn report(r: &Reader) -> Value {
    let mut v: Value = serde_json::from_str(&r.json()).unwrap_or(Value::Null);
    strip_times(&mut v);
    json!({"state": state_str(r), "report": v})
}

/// (list, code, url-present) triples of the active manifest and each delta.
pub fn codes(r: &Reader) -> Value {
    let mut active = vec![];
    let mut deltas = vec![];
    if let Some(vr) = r.validation_results() {
        if let Some(am) = vr.active_manifest() {
            for s in am.success() {
                active.push(json!(["success", s.code()]));
            }
            for s in am.informational() {
                active.push(json!(["informational", s.code()]));
            }
            for s in am.failure() {
                active.push(json!(["failure", s.code()]));
            }
        }
        if let Some(ds) = vr.ingredient_deltas() {
            for d in ds {
                let mut one = vec![];
                for s in d.validation_deltas().success() {
                    one.push(json!(["success", s.code()]));
                }
                for s in d.validation_deltas().informational() {
                    one.push(json!(["informational", s.code()]));
                }
                for s in d.validation_deltas().failure() {
                    one.push(json!(["failure", s.code()]));
                }
                deltas.push(json!([d.ingredient_assertion_uri(), one]));
            }
            // (sorted by content: the URIs carry manifest labels that differ from one signing to the next, so sorting by
            // URI would order the same set differently in two runs)
            deltas.sort_by_key(|d| d[1].to_string());
            let deltas: Vec<Value> = deltas.into_iter().map(|d| d[1].clone()).collect();
            return json!({"present": r.validation_results().map(|v| v.active_manifest().is_some()).unwrap_or(false),
                          "active": active, "deltas": deltas, "state": state_str(r)});
        }
    }
    json!({"present": r.validation_results().map(|v| v.active_manifest().is_some()).unwrap_or(false),
           "active": active, "deltas": deltas, "state": state_str(r)})
}

pub fn failure_codes(r: &Reader) -> Vec<String> {
    let mut out = vec![];
    if let Some(vr) = r.validation_results() {
        if let Some(am) = vr.active_manifest() {
            out.extend(am.failure().iter().map(|s| s.code().to_string()));
        }
        if let Some(ds) = vr.ingredient_deltas() {
            for d in ds {
                out.extend(d.validation_deltas().failure().iter().map(|s| s.code().to_string()));
            }
        }
    }
    out
}

pub fn err_kind(e: &c2pa::Error) -> String {
    let d = format!("{e:?}");
    d.split(|c: char| !(c.is_alphanumeric() || c == '_')).next().unwrap_or("").to_string()
}

// ---------- NDJSON
pub fn read_ndjson_stdin() -> Vec<Value> {
    let stdin = std::io::stdin();
    let mut out = vec![];
    for line in stdin.lock().lines() {
        let line = line.unwrap();
        if line.trim().is_empty() {
            continue;
        }
        out.push(serde_json::from_str(&line).expect("ndjson"));
    }
    out
}

pub fn read_ndjson_file(path: &str) -> Vec<Value> {
    let f = std::fs::File::open(path).unwrap_or_else(|e| panic!("{path}: {e}"));
    let mut out = vec![];
    for line in std::io::BufReader::new(f).lines() {
        let line = line.unwrap();
        if line.trim().is_empty() {
            continue;
        }
        out.push(serde_json::from_str(&line).expect("ndjson"));
    }
    out
}

pub struct Out {
    w: std::io::BufWriter<std::io::Stdout>,
}
impl Out {
    pub fn new() -> Self {
        Out { w: std::io::BufWriter::new(std::io::stdout()) }
    }
    pub fn emit(&mut self, v: &Value) {
        serde_json::to_writer(&mut self.w, v).unwrap();
        self.w.write_all(b"\n").unwrap();
    }
}
impl Drop for Out {
    fn drop(&mut self) {
        let _ = self.w.flush();
    }
}

/// Run `f`, turning a panic into Err(message). Panics of the code under test are data.
pub fn catch<T>(f: impl FnOnce() -> T + std::panic::UnwindSafe) -> Result<T, String> {
    std::panic::catch_unwind(f).map_err(|e| {
        if let Some(s) = e.downcast_ref::<&str>() {
            s.to_string()
        } else if let Some(s) = e.downcast_ref::<String>() {
            s.clone()
        } else {
            "panic".to_string()
        }
    })
}

pub fn arg(args: &[String], name: &str) -> Option<String> {
    args.iter().position(|a| a == name).and_then(|i| args.get(i + 1).cloned())
}
pub fn arg_u64(args: &[String], name: &str, default: u64) -> u64 {
    arg(args, name).and_then(|s| s.parse().ok()).unwrap_or(default)
}

/// Signer wrapper delegating to a fixture signer with overridable reserve size / OCSP / TSA behaviour.
pub struct WrapSigner {
    pub inner: c2pa::BoxedSigner,
    pub reserve: Option<usize>,
    pub tsa: Option<String>,
}
impl c2pa::Signer for WrapSigner {
    fn sign(&self, data: &[u8]) -> c2pa::Result<Vec<u8>> {
        self.inner.sign(data)
    }
    fn alg(&self) -> c2pa::SigningAlg {
        self.inner.alg()
    }
    fn certs(&self) -> c2pa::Result<Vec<Vec<u8>>> {
        self.inner.certs()
    }
    fn reserve_size(&self) -> usize {
        self.reserve.unwrap_or_else(|| self.inner.reserve_size() + if self.tsa.is_some() { 10000 } else { 0 })
    }
    fn time_authority_url(&self) -> Option<String> {
        self.tsa.clone()
    }
}

pub fn sign_with(c: Context, def: &Value, fmt: &str, src: &[u8], s: &dyn c2pa::Signer) -> c2pa::Result<Vec<u8>> {
    let mut b = Builder::from_context(c).with_definition(def.to_string().as_str())?;
    let mut input = Cursor::new(src.to_vec());
    let mut out = Cursor::new(Vec::new());
    b.sign(s, fmt, &mut input, &mut out)?;
    Ok(out.into_inner())
}
