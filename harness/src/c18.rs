//! C18 -- JUMBF manifest stores round-trip canonically.  Stores the SDK produced (plain, compressed, ingredient chains,
//! redactions, update manifests, many formats) are parsed with Store::from_jumbf and re-serialised with to_jumbf_internal
//! (hooks): the bytes must be identical.  Seeded byte / structure mutants the parser accepts are re-serialised and parsed
//! again: re-serialising must be a fixed point.
use std::io::Cursor;
use std::panic::AssertUnwindSafe;

use c2pa::{Builder, BuilderIntent};
use rand::{rngs::StdRng, Rng, SeedableRng};
use serde_json::{json, Value};
use sha2::{Digest, Sha256};

use crate::c02::walk;
use crate::common::*;

fn settings_json(compress: bool) -> Value { json!({"verify": {"remote_manifest_fetch": false}, "core": {"prefer_compress_manifests": compress}}) }

fn store_of(mime: &str, asset: &[u8]) -> Option<Vec<u8>> { c2pa::jumbf_io::load_jumbf_from_memory(mime, asset).ok() }

/// parse + re-serialise; Ok((bytes, statuses logged while parsing))
fn roundtrip2(bytes: &[u8]) -> Result<(Vec<u8>, Vec<String>), String> {
    let c = ctx(&settings_json(false));
    match catch(AssertUnwindSafe(|| c2pa::verif_hooks::store_from_jumbf(bytes, &c).and_then(|(s, codes)| c2pa::verif_hooks::store_to_jumbf(&s, 0).map(|b| (b, codes))))) {
        Ok(Ok(b)) => Ok(b),
        Ok(Err(e)) => Err(format!("{}|{}", err_kind(&e), format!("{e:?}").chars().take(160).collect::<String>())),
        Err(p) => Err(format!("panic:{p}")),
    }
}
fn roundtrip(bytes: &[u8]) -> Result<Vec<u8>, String> {
    let c = ctx(&settings_json(false));
    match catch(AssertUnwindSafe(|| c2pa::verif_hooks::store_from_jumbf(bytes, &c).and_then(|(s, _)| c2pa::verif_hooks::store_to_jumbf(&s, 0)))) {
        Ok(Ok(b)) => Ok(b),
        Ok(Err(e)) => Err(format!("{}|{}", err_kind(&e), format!("{e:?}").chars().take(160).collect::<String>())),
        Err(p) => Err(format!("panic:{p}")),
    }
}
fn h(b: &[u8]) -> String { hex::encode(&Sha256::digest(b)[..8]) }
fn first_diff(a: &[u8], b: &[u8]) -> usize { a.iter().zip(b.iter()).position(|(x, y)| x != y).unwrap_or(a.len().min(b.len())) }

pub fn run(args: &[String]) {
    let seed = arg_u64(args, "--seed", 1);
    let nmut = arg_u64(args, "--mutants", 200);
    let mut rng = StdRng::seed_from_u64(seed ^ 0xC18);
    let mut out = Out::new();
    std::panic::set_hook(Box::new(|_| {}));
    // ---- stores the SDK produced
    let mut stores: Vec<(String, Vec<u8>)> = vec![];
    let fmts = [("jpeg", "image/jpeg", "no_manifest.jpg"), ("png", "image/png", "libpng-test.png"), ("mp4", "video/mp4", "video1_no_manifest.mp4"), ("wav", "audio/wav", "sample1.wav"), ("svg", "image/svg+xml", "sample1.svg"), ("tiff", "image/tiff", "TUSCANY.TIF")];
    for (name, mime, fx) in fmts {
        for compress in [false, true] {
            let def = simple_manifest_json("c18", mime);
            if let Ok(a) = sign_bytes(ctx(&settings_json(compress)), &def, mime, &fixture(fx), "ed25519") {
                if let Some(s) = store_of(mime, &a) { stores.push((format!("{name}:{}", if compress { "compressed" } else { "plain" }), s)); }
                // an edit on top (ingredient chain), with a redaction of the parent's custom assertion, and an update manifest
                if let Ok(r) = read_bytes(ctx(&settings_json(false)), mime, &a) {
                    let pl = r.active_label().unwrap_or("").to_string();
                    let uri = format!("self#jumbf=/c2pa/{pl}/c2pa.assertions/org.vh.test");
                    let def2 = json!({"title": "edit", "format": mime, "claim_generator_info": [{"name": "vh", "version": "0.1"}], "redactions": [uri],
                        "assertions": [{"label": "c2pa.actions", "data": {"actions": [{"action": "c2pa.redacted", "reason": "c2pa.PII.present", "parameters": {"redacted": uri}}]}}]});
                    if let Ok(mut b) = Builder::from_context(ctx(&settings_json(compress))).with_definition(def2.to_string().as_str()) {
                        b.set_intent(BuilderIntent::Edit);
                        let s = signer("ed25519");
                        let mut dst = Cursor::new(Vec::new());
                        if b.sign(s.as_ref(), mime, &mut Cursor::new(a.clone()), &mut dst).is_ok() {
                            let e = dst.into_inner();
                            if let Some(s) = store_of(mime, &e) { stores.push((format!("{name}:edit+redaction:{}", if compress { "compressed" } else { "plain" }), s)); }
                            let def3 = json!({"title": "upd", "format": mime, "claim_generator_info": [{"name": "vh", "version": "0.1"}], "assertions": []});
                            if let Ok(mut b3) = Builder::from_context(ctx(&settings_json(compress))).with_definition(def3.to_string().as_str()) {
                                b3.set_intent(BuilderIntent::Update);
                                let mut d3 = Cursor::new(Vec::new());
                                if b3.sign(signer("ed25519").as_ref(), mime, &mut Cursor::new(e.clone()), &mut d3).is_ok() {
                                    if let Some(s) = store_of(mime, &d3.into_inner()) { stores.push((format!("{name}:update:{}", if compress { "compressed" } else { "plain" }), s)); }
                                }
                            }
                        }
                    }
                }
            }
        }
    }
    for f in ["C.jpg", "CA.jpg", "CIE-sig-CA.jpg", "XCA.jpg", "cloud_manifest.c2pa", "E-sig-CA.jpg", "CA_ct.jpg"] {
        let b = std::fs::read(format!("{FIX}/{f}")).unwrap_or_default();
        if b.is_empty() { continue; }
        let mime = if f.ends_with(".c2pa") { "application/c2pa" } else { "image/jpeg" };
        if let Some(s) = store_of(mime, &b) { stores.push((format!("fixture:{f}"), s)); }
    }
    let headers = |d: &[u8]| -> Vec<Value> { walk(d).iter().map(|b| json!({"size": b.size, "t": b.ty})).collect() };
    for (name, s) in &stores {
        out.emit(&json!({"e": "headers", "store": name, "which": "produced", "w": headers(s), "covered": walk(s).first().map(|b| b.size == s.len()).unwrap_or(false)}));
        if let Ok(b) = roundtrip(s) { out.emit(&json!({"e": "headers", "store": name, "which": "reserialised", "w": headers(&b), "covered": walk(&b).first().map(|x| x.size == b.len()).unwrap_or(false)})); }
        match roundtrip(s) {
            Ok(b) => out.emit(&json!({"e": "produced", "store": name, "len": s.len(), "identical": &b == s, "relen": b.len(), "first_diff": if &b == s { Value::Null } else { json!(first_diff(s, &b)) },
                "diff_box": if &b == s { Value::Null } else { let bx = walk(s); json!(crate::c02::class_of(&bx, first_diff(s, &b))) }})),
            Err(e) => out.emit(&json!({"e": "produced", "store": name, "len": s.len(), "error": e})),
        }
    }
    // ---- parser-accepted mutants: fixed point
    let mut accepted = 0u64;
    for i in 0..nmut {
        let (name, base) = &stores[rng.gen_range(0..stores.len())];
        let mut m = base.clone();
        let boxes = walk(&m);
        let kind = rng.gen_range(0..5);
        let what = match kind {
            0 => { let p = rng.gen_range(0..m.len()); m[p] ^= 1 << rng.gen_range(0..8); "bitflip" }
            1 => { let p = rng.gen_range(0..m.len()); m[p] = rng.gen(); "byte" }
            2 => { // duplicate a leaf box at the end of its parent is a size change: keep sizes by swapping two sibling boxes of equal size instead
                   let cands: Vec<(usize, usize)> = boxes.iter().enumerate().flat_map(|(i, a)| boxes.iter().enumerate().filter(move |(j, b)| *j > i && b.parent == a.parent && b.size == a.size && a.off + a.size <= b.off).map(move |(j, _)| (i, j))).collect();
                   if let Some(&(i, j)) = cands.get(rng.gen_range(0..cands.len().max(1))) { let (a, b) = (boxes[i].clone(), boxes[j].clone()); let ta = m[a.off..a.off + a.size].to_vec(); let tb = m[b.off..b.off + b.size].to_vec(); m[a.off..a.off + a.size].copy_from_slice(&tb); m[b.off..b.off + b.size].copy_from_slice(&ta); }
                   "swap-siblings" }
            3 => { // flip a bit in a box payload that is not a header (labels, cbor, padding)
                   let b = &boxes[rng.gen_range(0..boxes.len())]; if b.size > b.hdr { let p = b.off + b.hdr + rng.gen_range(0..b.size - b.hdr); m[p] ^= 1 << rng.gen_range(0..8); } "payload-bit" }
            _ => { // toggle a jumd toggles byte / label character
                   let jd: Vec<&crate::c02::JBox> = boxes.iter().filter(|b| b.ty == "jumd").collect(); if !jd.is_empty() { let b = jd[rng.gen_range(0..jd.len())]; let p = b.off + b.hdr + 16 + rng.gen_range(0..(b.size - b.hdr - 16).max(1)); if p < m.len() { m[p] ^= 1 << rng.gen_range(0..3); } } "jumd" }
        };
        match roundtrip2(&m) {
            Ok((s1, codes)) => {
                accepted += 1;
                if !codes.is_empty() { out.emit(&json!({"e": "mutant", "i": i, "of": name, "kind": what, "accepted": false, "error": "accepted-with-logged-failures", "codes": codes})); continue; }
                match roundtrip(&s1) {
                    Ok(s2) => out.emit(&json!({"e": "mutant", "i": i, "of": name, "kind": what, "accepted": true, "fixed_point": s1 == s2, "same_as_input": s1 == m, "h1": h(&s1), "h2": h(&s2)})),
                    Err(e) => { let d = first_diff(&m, base); let bx = walk(base); out.emit(&json!({"e": "mutant", "i": i, "of": name, "kind": what, "accepted": true, "reparse_error": e.split('|').next().unwrap_or(""), "detail": e, "mutated_at": d, "mutated_box": crate::c02::class_of(&bx, d), "len_in": m.len(), "len_ser": s1.len()})) }
                }
            }
            Err(e) => out.emit(&json!({"e": "mutant", "i": i, "of": name, "kind": what, "accepted": false, "error": if e.starts_with("panic") { e } else { "rejected".into() }})),
        }
    }
    out.emit(&json!({"e": "end", "stores": stores.len(), "accepted": accepted}));
}
