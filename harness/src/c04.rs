//! C04 -- ValidationState bindings.
//!  replay: vectors {present, active:[class], deltas:[[class]], state} -> real ValidationResults via the public
//!          add_status, K concrete instantiations per vector; emits observed states.
//!  observe: reads real assets and emits the (list, code) sets + state for the oracle evaluator.
use c2pa::status_tracker::LogKind;
use c2pa::validation_results::{ValidationResults, ValidationState};
use c2pa::validation_status::ValidationStatus;
use rand::{rngs::StdRng, seq::SliceRandom, Rng, SeedableRng};
use serde_json::{json, Value};

use crate::common::*;

fn mk(code: &str, kind: LogKind, ingredient: Option<usize>, rng: &mut StdRng) -> ValidationStatus {
    let mut v = json!({"code": code});
    if rng.gen_bool(0.5) {
        v["url"] = json!("self#jumbf=/c2pa/urn:c2pa:vh/c2pa.assertions/x");
    }
    if rng.gen_bool(0.3) {
        v["explanation"] = json!("vh");
    }
    let mut s: ValidationStatus = serde_json::from_value(v).expect("status");
    s = s.set_kind(kind);
    if let Some(i) = ingredient {
        s = s.set_ingredient_uri(format!("self#jumbf=/c2pa/urn:c2pa:vh/c2pa.assertions/c2pa.ingredient.v3__{i}"));
    }
    s
}

fn st(s: ValidationState) -> &'static str {
    match s {
        ValidationState::Invalid => "Invalid",
        ValidationState::Valid => "Valid",
        ValidationState::Trusted => "Trusted",
    }
}

pub fn concrete(class: &str, fail_codes: &[String], rng: &mut StdRng) -> (String, LogKind) {
    let pick = |v: &[&str], rng: &mut StdRng| v[rng.gen_range(0..v.len())].to_string();
    match class {
        "SigValidated" => ("claimSignature.validated".into(), LogKind::Success),
        "SigInsideValidity" => ("claimSignature.insideValidity".into(), LogKind::Success),
        "CredTrusted" => ("signingCredential.trusted".into(), LogKind::Success),
        "OtherSuccess" => (
            pick(&["assertion.hashedURI.match", "assertion.dataHash.match", "timeStamp.validated", "timeStamp.trusted",
                   "signingCredential.ocsp.notRevoked", "assertion.bmffHash.match", "assertion.boxesHash.match",
                   "ingredient.manifest.validated", "cawg.ica.credential_valid", "org.vh.unknown.success",
                   // failure-looking codes recorded as successes are not failures
                   "assertion.accessible", "claimSignature.validatedX"], rng),
            LogKind::Success,
        ),
        "Info" => (
            pick(&["claimSignature.validated", "claimSignature.insideValidity", "signingCredential.trusted",
                   "cawg.ica.untrusted_issuer", "signingCredential.ocsp.skipped", "timeStamp.mismatch",
                   "assertion.dataHash.mismatch", "signingCredential.untrusted", "algorithm.deprecated", "org.vh.info"], rng),
            LogKind::Informational,
        ),
        "TolUntrusted" => ("signingCredential.untrusted".into(), LogKind::Failure),
        "TolCawg" => (
            pick(&["cawg.x509.credential.untrusted", "cawg.x509.signature.mismatch", "cawg.x509.credential.expired",
                   "cawg.x509.anything.new"], rng),
            LogKind::Failure,
        ),
        "Fail" => (fail_codes[rng.gen_range(0..fail_codes.len())].clone(), LogKind::Failure),
        "UnknownFail" => (
            pick(&["org.vh.never.seen", "signingCredential.untrustedX", "xsigningCredential.untrusted",
                   "signingCredential.untrusted ", "cawg.ica.credential_invalid", "general.error"], rng),
            LogKind::Failure,
        ),
        _ => panic!("class {class}"),
    }
}

fn strs(v: &Value) -> Vec<String> {
    v.as_array().map(|a| a.iter().map(|x| x.as_str().unwrap().to_string()).collect()).unwrap_or_default()
}

/// vh c04-replay --codes <file with failure codes, one per line> --k K --seed S  < vectors
pub fn replay(args: &[String]) {
    let seed = arg_u64(args, "--seed", 1);
    let k = arg_u64(args, "--k", 3) as usize;
    let codes_file = arg(args, "--codes").expect("--codes");
    let fail_codes: Vec<String> = std::fs::read_to_string(codes_file).unwrap().lines().map(|s| s.trim().to_string())
        .filter(|s| !s.is_empty()).collect();
    let mut rng = StdRng::seed_from_u64(seed);
    let mut out = Out::new();
    for (idx, v) in read_ndjson_stdin().into_iter().enumerate() {
        let present = v["present"].as_bool().unwrap();
        let active = strs(&v["active"]);
        let deltas: Vec<Vec<String>> = v["deltas"].as_array().map(|a| a.iter().map(strs).collect()).unwrap_or_default();
        let mut observed = vec![];
        let mut insts = vec![];
        for _ in 0..k {
            // one status per class (sometimes two of the same class), random insertion order
            let mut items: Vec<(String, LogKind, Option<usize>)> = vec![];
            for c in &active {
                let n = if rng.gen_bool(0.2) { 2 } else { 1 };
                for _ in 0..n {
                    let (code, kind) = concrete(c, &fail_codes, &mut rng);
                    items.push((code, kind, None));
                }
            }
            // the i-th delta must be created in order i (first-seen order defines the index)
            let mut delta_items: Vec<(String, LogKind, Option<usize>)> = vec![];
            for (i, d) in deltas.iter().enumerate() {
                for c in d {
                    let (code, kind) = concrete(c, &fail_codes, &mut rng);
                    delta_items.push((code, kind, Some(i)));
                }
            }
            items.extend(delta_items);
            items.shuffle(&mut rng);
            let mut vr = ValidationResults::default();
            if present && active.is_empty() {
                // an activeManifest entry with no codes
                vr = vr.add_active_manifest(c2pa::validation_results::StatusCodes::default());
            }
            for (code, kind, ing) in &items {
                vr.add_status(mk(code, kind.clone(), *ing, &mut rng));
            }
            // serde round trip must not change the state either (report consumers deserialize it)
            let s1 = st(vr.validation_state());
            observed.push(s1.to_string());
            insts.push(json!(items.iter().map(|(c, k, i)| json!([c, format!("{k:?}"), i])).collect::<Vec<_>>()));
        }
        out.emit(&json!({"i": idx, "observed": observed, "inst": insts}));
    }
}

/// vh c04-observe : read a set of real assets (valid, tampered, with ingredients) and emit codes + state.
pub fn observe(_args: &[String]) {
    let mut out = Out::new();
    let fixtures = ["C.jpg", "CA.jpg", "CACA.jpg", "XCA.jpg", "E-sig-CA.jpg", "CIE-sig-CA.jpg", "CACAE-uri-CA.jpg",
                    "adobe-20220124-E-clm-CAICAI.jpg", "cloud.jpg", "boxhash.jpg", "legacy.mp4", "video1.mp4",
                    "libpng-test_with_url.png", "ocsp.jpg", "update_manifest.jpg", "prerelease.jpg", "no_alg.jpg",
                    "C_with_CAWG_data.jpg", "legacy_ingredient_hash.jpg", "sample1.svg".into()];
    for trust in [true, false] {
        for f in fixtures {
            let bytes = match std::fs::read(format!("{FIX}/{f}")) { Ok(b) => b, Err(_) => continue };
            if bytes.is_empty() { continue; }
            let ext = f.rsplit('.').next().unwrap().to_lowercase();
            let c = ctx(&json!({"verify": {"verify_trust": trust, "remote_manifest_fetch": false}}));
            match catch(std::panic::AssertUnwindSafe(|| read_bytes(c, &ext, &bytes))) {
                Ok(Ok(r)) => {
                    let mut rec = codes(&r);
                    rec["src"] = json!(f);
                    rec["trust"] = json!(trust);
                    out.emit(&rec);
                }
                _ => {}
            }
        }
    }
    // freshly signed, then tampered variants
    for alg in ["es256", "ps256", "ed25519"] {
        let src = fixture("no_manifest.jpg");
        let def = simple_manifest_json("c04", "image/jpeg");
        if let Ok(signed) = sign_bytes(ctx(&Value::Null), &def, "image/jpeg", &src, alg) {
            for (name, data) in [("signed", signed.clone()), ("tampered", { let mut d = signed.clone(); let n = d.len(); d[n - 100] ^= 1; d })] {
                for trust in [true, false] {
                    let c = ctx(&json!({"verify": {"verify_trust": trust}}));
                    if let Ok(r) = read_bytes(c, "image/jpeg", &data) {
                        let mut rec = codes(&r);
                        rec["src"] = json!(format!("{name}-{alg}"));
                        rec["trust"] = json!(trust);
                        out.emit(&rec);
                    }
                }
            }
        }
    }
}

/// vh c04-legacy : the legacy fallback -- a Reader deserialised from JSON that carries only a status list.
/// `allowed` is the set of states the statement permits for the list (legacy lists hold failures only).
pub fn legacy(_args: &[String]) {
    let mut out = Out::new();
    let cases: Vec<(&str, Value, Vec<&str>)> = vec![
        ("hard-failure", json!([{"code": "assertion.dataHash.mismatch"}]), vec!["Invalid"]),
        ("hard+untrusted", json!([{"code": "signingCredential.untrusted"}, {"code": "claimSignature.mismatch"}]), vec!["Invalid"]),
        ("unknown-failure", json!([{"code": "org.vh.never.seen"}]), vec!["Invalid"]),
        ("only-untrusted", json!([{"code": "signingCredential.untrusted"}]), vec!["Valid", "Invalid"]),
        ("empty", json!([]), vec!["Valid", "Trusted", "Invalid"]),
    ];
    for (name, status, allowed) in cases {
        let j = json!({"manifests": {}, "validation_status": status});
        match c2pa::Reader::from_json(&j.to_string()) {
            Ok(r) => out.emit(&json!({"case": name, "status": status, "observed": state_str(&r), "allowed": allowed})),
            Err(e) => {
                let mut al: Vec<String> = allowed.iter().map(|s| s.to_string()).collect();
                al.push(format!("Err:{}", err_kind(&e)));
                out.emit(&json!({"case": name, "status": status, "observed": format!("Err:{}", err_kind(&e)), "allowed": al}))
            }
        }
    }
}
