//! C24 -- contexts shared across threads.  A seeded scenario runs 1..16 threads doing sign / read operations on shared
//! and distinct Arc<Context>s while another thread cancels contexts and threads build settings values or set the
//! deprecated thread-local settings.  Every event gets its place in one global order (a mutex-protected log): operation
//! start / progress callback / finish, cancel begin / end, thread-local snapshots.
#![allow(deprecated)]
use std::cell::Cell;
use std::io::Cursor;
use std::sync::{Arc, Mutex};

use c2pa::{Builder, Context, Reader};
use rand::{rngs::StdRng, Rng, SeedableRng};
use serde_json::{json, Value};
use sha2::{Digest, Sha256};

use crate::common::*;

thread_local! { static TIX: Cell<usize> = const { Cell::new(usize::MAX) }; }

type Log = Arc<Mutex<Vec<Value>>>;
fn ev(log: &Log, mut v: Value) {
    let mut l = log.lock().unwrap();
    v["seq"] = json!(l.len() + 1);
    l.push(v);
}

fn overlay() -> Value { json!({"verify": {"remote_manifest_fetch": false}}) }

fn mk_ctx(ci: usize, log: &Log) -> Arc<Context> {
    let l2 = log.clone();
    let c = Context::new().with_settings(settings(&overlay())).expect("ctx").with_progress_callback(move |_p, _s, _t| {
        let t = TIX.with(|x| x.get());
        ev(&l2, json!({"e": "cb", "t": t, "c": ci}));
        true
    });
    Arc::new(c)
}

const OPS: [(&str, &str, &str); 4] = [("sign", "image/jpeg", "no_manifest.jpg"), ("sign", "image/png", "libpng-test.png"), ("read", "image/jpeg", "C.jpg"), ("read", "image/jpeg", "CA.jpg")];

fn norm_of(r: &Reader) -> String {
    // state + codes + titles (signing output differs in ids and times; codes and structure do not)
    let titles: Vec<String> = r.iter_manifests().map(|m| m.title().unwrap_or("").to_string()).collect::<std::collections::BTreeSet<_>>().into_iter().collect();
    let s = json!({"codes": codes(r), "titles": titles}).to_string();
    hex::encode(&Sha256::digest(s.as_bytes())[..10])
}

fn do_op(c: &Arc<Context>, k: usize) -> Result<String, String> {
    let (kind, mime, fx) = OPS[k];
    let r = catch(std::panic::AssertUnwindSafe(|| -> Result<String, String> {
        if kind == "sign" {
            let def = simple_manifest_json("c24", mime);
            let mut b = Builder::from_shared_context(c).with_definition(def.to_string().as_str()).map_err(|e| err_kind(&e))?;
            let s = signer("ed25519");
            let mut src = Cursor::new(fixture(fx));
            let mut dst = Cursor::new(Vec::new());
            b.sign(s.as_ref(), mime, &mut src, &mut dst).map_err(|e| err_kind(&e))?;
            // read the output back with a private context (not part of the scenario)
            let r = Reader::from_context(ctx(&overlay())).with_stream(mime, Cursor::new(dst.into_inner())).map_err(|e| format!("readback:{}", err_kind(&e)))?;
            Ok(norm_of(&r))
        } else {
            let r = Reader::from_shared_context(c).with_stream(mime, Cursor::new(fixture(fx))).map_err(|e| err_kind(&e))?;
            Ok(norm_of(&r))
        }
    }));
    match r { Ok(x) => x, Err(p) => Err(format!("panic:{p}")) }
}

fn tls_snapshot() -> Value {
    // an empty overlay returns the thread's current legacy settings without changing them
    match c2pa::settings::Settings::from_string("{}", "json") {
        Ok(s) => { let v = serde_json::to_value(&s).unwrap_or(Value::Null); json!({"verify_trust": v["verify"]["verify_trust"], "after_sign": v["verify"]["verify_after_sign"], "thumb": v["builder"]["thumbnail"]["enabled"]}) }
        Err(e) => json!({"err": err_kind(&e)}),
    }
}

pub fn run(args: &[String]) {
    let seed = arg_u64(args, "--seed", 1);
    let n = arg_u64(args, "--n", 20);
    let mut out = Out::new();
    std::panic::set_hook(Box::new(|_| {}));
    // sequential baselines
    let base: Vec<Result<String, String>> = (0..OPS.len()).map(|k| do_op(&Arc::new(Context::new().with_settings(settings(&overlay())).unwrap()), k)).collect();
    out.emit(&json!({"e": "baseline", "results": base.iter().map(|r| match r { Ok(s) => json!({"ok": s}), Err(e) => json!({"err": e}) }).collect::<Vec<_>>()}));
    for sc in 0..n {
        let mut rng = StdRng::seed_from_u64(seed.wrapping_mul(7919).wrapping_add(sc));
        let nthreads = [1usize, 2, 3, 4, 8, 16][rng.gen_range(0..6)];
        let nctx = rng.gen_range(1..=3usize);
        let log: Log = Arc::new(Mutex::new(vec![]));
        let ctxs: Vec<Arc<Context>> = (0..nctx).map(|i| mk_ctx(i, &log)).collect();
        let ncancel = rng.gen_range(0..=nctx.min(2));
        let mut handles = vec![];
        for t in 0..nthreads {
            let ctxs = ctxs.clone();
            let log = log.clone();
            let base = base.clone();
            let tseed = rng.gen::<u64>();
            handles.push(std::thread::spawn(move || {
                TIX.with(|x| x.set(t));
                let mut rng = StdRng::seed_from_u64(tseed);
                let mut my_tls: Option<bool> = None; // what this thread last wrote to verify.verify_trust
                ev(&log, json!({"e": "tls", "t": t, "snap": tls_snapshot(), "expect_trust": Value::Null, "at": "thread-start"}));
                let nops = rng.gen_range(2..=5);
                for _ in 0..nops {
                    match rng.gen_range(0..10) {
                        0 => {
                            // build settings / context values: must not touch the thread-local settings
                            let before = tls_snapshot();
                            let s = c2pa::settings::Settings::new().with_json(r#"{"verify": {"verify_trust": false, "verify_after_sign": false}, "builder": {"thumbnail": {"enabled": false}}}"#);
                            let _c = s.and_then(|s| Context::new().with_settings(s));
                            let _d = c2pa::settings::Settings::default();
                            // contexts configured from strings (JSON and TOML) and values
                            let _c2 = Context::new().with_settings("[verify]\nverify_trust = false\nverify_after_sign = false\n[builder.thumbnail]\nenabled = false\n");
                            let _c3 = Context::new().with_settings(r#"{"verify": {"verify_trust": false}}"#);
                            let _c4 = Context::new().with_settings(serde_json::json!({"verify": {"verify_trust": false}}));
                            let mut u = c2pa::settings::Settings::new();
                            let _ = u.update_from_str("[verify]\nverify_trust = false\n", "toml");
                            let after = tls_snapshot();
                            ev(&log, json!({"e": "build", "t": t, "same": before == after, "before": before, "after": after}));
                        }
                        1 => {
                            let v = rng.gen_bool(0.5);
                            let r = c2pa::settings::Settings::from_string(&json!({"verify": {"verify_trust": v}}).to_string(), "json");
                            if r.is_ok() { my_tls = Some(v); }
                            ev(&log, json!({"e": "legacy", "t": t, "v": v, "ok": r.is_ok()}));
                        }
                        _ => {
                            let ci = rng.gen_range(0..ctxs.len());
                            let k = rng.gen_range(0..OPS.len());
                            if rng.gen_bool(0.3) { std::thread::sleep(std::time::Duration::from_micros(rng.gen_range(0..3000))); }
                            ev(&log, json!({"e": "start", "t": t, "c": ci, "op": k}));
                            let r = do_op(&ctxs[ci], k);
                            let res = match (&r, &base[k]) { (Ok(a), Ok(b)) if a == b => "sequential".to_string(), (Ok(_), _) => "differs".to_string(), (Err(e), _) if e == "OperationCancelled" => "cancelled".to_string(), (Err(e), _) => format!("err:{e}") };
                            ev(&log, json!({"e": "finish", "t": t, "c": ci, "op": k, "res": res}));
                        }
                    }
                    ev(&log, json!({"e": "tls", "t": t, "snap": tls_snapshot(), "expect_trust": my_tls, "at": "after-step"}));
                }
            }));
        }
        // canceller
        let cancels: Vec<(usize, u64)> = (0..ncancel).map(|_| (rng.gen_range(0..nctx), rng.gen_range(0..40_000u64))).collect();
        let ctxs2 = ctxs.clone();
        let log2 = log.clone();
        let canceller = std::thread::spawn(move || {
            TIX.with(|x| x.set(9999));
            let mut done = vec![false; ctxs2.len()];
            for (ci, delay) in cancels {
                if done[ci] { continue; }
                std::thread::sleep(std::time::Duration::from_micros(delay));
                ev(&log2, json!({"e": "cancel_begin", "c": ci}));
                ctxs2[ci].cancel();
                ev(&log2, json!({"e": "cancel_end", "c": ci}));
                done[ci] = true;
            }
        });
        for h in handles { let _ = h.join(); }
        let _ = canceller.join();
        let events = log.lock().unwrap().clone();
        out.emit(&json!({"e": "scenario", "id": sc, "threads": nthreads, "contexts": nctx, "events": events}));
    }
}
