//! C10 -- untrusted input never crashes, hangs or exhausts memory.
//! `c10-child` runs in a child process under an address-space limit: it reads / ingests each case (seeded mutants of every
//! format under every format hint, crafted limit probes) and prints one line per case BEFORE and AFTER it runs, so a crash,
//! abort (allocation failure) or hang is attributed to a case.  `c10-drive` spawns children and collects.
use std::io::{Cursor, Write};
use std::panic::AssertUnwindSafe;
use std::time::Instant;

use c2pa::{Builder, Reader};
use rand::{rngs::StdRng, seq::SliceRandom, Rng, SeedableRng};
use serde_json::{json, Value};

use crate::c02::walk;
use crate::common::*;

const SEEDS: [(&str, &str, &str); 16] = [
    ("jpeg", "image/jpeg", "C.jpg"), ("jpeg", "image/jpeg", "CA.jpg"), ("png", "image/png", "libpng-test_with_url.png"), ("gif", "image/gif", "sample1.gif"), ("webp", "image/webp", "sample1.webp"),
    ("wav", "audio/wav", "sample1.wav"), ("avi", "video/avi", "test.avi"), ("tiff", "image/tiff", "TUSCANY.TIF"), ("svg", "image/svg+xml", "sample1.svg"), ("mp3", "audio/mpeg", "sample1.mp3"),
    ("flac", "audio/flac", "sample1.flac"), ("jxl", "image/jxl", "sample1.jxl"), ("mp4", "video/mp4", "video1_no_manifest.mp4"), ("heic", "image/heic", "sample1.heic"), ("pdf", "application/pdf", "basic-signed.pdf"),
    ("c2pa", "application/c2pa", "cloud_manifest.c2pa"),
];

fn settings_json() -> Value { json!({"verify": {"remote_manifest_fetch": false}}) }

fn signed_seed(mime: &str, fx: &str) -> Vec<u8> {
    let b = fixture(fx);
    if b.is_empty() { return b; }
    // seeds that carry a manifest exercise the store parsers; sign when the format can be written
    match sign_bytes(ctx(&settings_json()), &simple_manifest_json("c10", mime), mime, &b, "ed25519") { Ok(s) => s, Err(_) => b }
}

fn mutate(base: &[u8], rng: &mut StdRng) -> (Vec<u8>, &'static str) {
    let mut m = base.to_vec();
    if m.is_empty() { return (m, "empty"); }
    let n = m.len();
    match rng.gen_range(0..9) {
        0 => { for _ in 0..rng.gen_range(1..4) { let p = rng.gen_range(0..n); m[p] ^= 1 << rng.gen_range(0..8); } (m, "bitflips") }
        1 => { m.truncate(rng.gen_range(0..n)); (m, "truncate") }
        2 => { let p = rng.gen_range(0..n.saturating_sub(4).max(1)); let v: [u8; 4] = *[[0xff, 0xff, 0xff, 0xff], [0x7f, 0xff, 0xff, 0xff], [0, 0, 0, 0], [0, 0, 0, 1], [0x80, 0, 0, 0], [0xff, 0xff, 0xff, 0xf0]].choose(rng).unwrap(); let e = (p + 4).min(n); m[p..e].copy_from_slice(&v[..e - p]); (m, "length-field") }
        3 => { let p = rng.gen_range(0..n.saturating_sub(8).max(1)); let e = (p + 8).min(n); for b in &mut m[p..e] { *b = 0xff; } (m, "length-field-64") }
        4 => { let a = rng.gen_range(0..n); let l = rng.gen_range(1..(n - a).min(4096) + 1); let chunk = m[a..a + l].to_vec(); let at = rng.gen_range(0..n); let mut o = m[..at].to_vec(); o.extend_from_slice(&chunk); o.extend_from_slice(&m[at..]); (o, "duplicate-chunk") }
        5 => { let a = rng.gen_range(0..n); let l = rng.gen_range(1..(n - a).min(4096) + 1); m.drain(a..a + l); (m, "delete-chunk") }
        6 => { let a = rng.gen_range(0..n); let l = rng.gen_range(1..(n - a).min(64) + 1); for b in &mut m[a..a + l] { *b = rng.gen(); } (m, "random-run") }
        7 => { // a size field of a JUMBF box inside the store region (when a manifest store can be located by its "jumb" tags)
               let pos: Vec<usize> = m.windows(4).enumerate().filter(|(_, w)| *w == b"jumb" || *w == b"jumd" || *w == b"cbor" || *w == b"brob").map(|(i, _)| i).collect();
               if let Some(&p) = pos.choose(rng) { if p >= 4 { let v: u32 = *[0u32, 1, 7, 8, 9, 0xffff_ffff, 0x7fff_ffff, 0x0100_0000].choose(rng).unwrap(); m[p - 4..p].copy_from_slice(&v.to_be_bytes()); } } (m, "jumbf-size") }
        _ => { let p = rng.gen_range(0..n); let b: u8 = *[0u8, 0xff, 0x80, 0x7f, 0x1f, 0x9f, 0xbf, 0x5f].choose(rng).unwrap(); m[p] = b; (m, "cbor-ish-byte") }
    }
}

fn nested_jumb(depth: usize) -> Vec<u8> {
    // innermost first: a superbox holding only its description box
    let jumd = |label: &str| { let mut p = vec![0x63, 0x32, 0x70, 0x61, 0x00, 0x11, 0x00, 0x10, 0x80, 0x00, 0x00, 0xaa, 0x00, 0x38, 0x9b, 0x71, 0x03]; p.extend_from_slice(label.as_bytes()); p.push(0); let mut b = ((8 + p.len()) as u32).to_be_bytes().to_vec(); b.extend_from_slice(b"jumd"); b.extend_from_slice(&p); b };
    // sizes from the innermost box outwards, then headers written outermost first (linear time)
    let jn = jumd("n"); let jc = jumd("c2pa");
    let mut sizes = vec![0usize; depth];
    for d in (0..depth).rev() { sizes[d] = 8 + if d == 0 { jc.len() } else { jn.len() } + if d + 1 < depth { sizes[d + 1] } else { 0 }; }
    let mut out = Vec::with_capacity(sizes.first().copied().unwrap_or(0));
    for d in 0..depth { out.extend_from_slice(&(sizes[d] as u32).to_be_bytes()); out.extend_from_slice(b"jumb"); out.extend_from_slice(if d == 0 { &jc } else { &jn }); }
    out
}

/// RIFF/WAVE whose only content is a chain of `depth` nested container chunks of the given kind ("LIST" with a form type,
/// or the type-less "seqt")
fn nested_riff(kind: &str, depth: usize) -> Vec<u8> {
    // every level is 12 bytes: id, size, then a form type ("INFO" for LIST) or four zero bytes (seqt, as some writers emit it)
    let per = 12;
    let mut out = Vec::with_capacity(12 + depth * per);
    let total = 4 + depth * per;            // after "RIFF" + size: form type + chunks
    out.extend_from_slice(b"RIFF"); out.extend_from_slice(&(total as u32).to_le_bytes()); out.extend_from_slice(b"WAVE");
    for d in 0..depth {
        let inner = (depth - d - 1) * per + 4;
        out.extend_from_slice(kind.as_bytes()); out.extend_from_slice(&(inner as u32).to_le_bytes());
        if kind == "LIST" { out.extend_from_slice(b"INFO"); } else { out.extend_from_slice(&[0u8; 4]); }
    }
    out
}

/// ISO BMFF: ftyp followed by `depth` nested container boxes (moov > trak > mdia > minf > stbl > ... repeated)
fn nested_bmff(depth: usize) -> Vec<u8> {
    let names: [&[u8; 4]; 5] = [b"moov", b"trak", b"mdia", b"minf", b"stbl"];
    let mut out = vec![0, 0, 0, 16, b'f', b't', b'y', b'p', b'm', b'p', b'4', b'2', 0, 0, 0, 0];
    for d in 0..depth { let size = (depth - d) * 8; out.extend_from_slice(&(size as u32).to_be_bytes()); out.extend_from_slice(names[d % 5]); }
    out
}

/// little-endian TIFF whose first IFD's "next IFD" pointer points back at itself (or whose IFDs form a cycle of `n`)
fn tiff_ifd_cycle(n: usize) -> Vec<u8> {
    let mut out = vec![b'I', b'I', 42, 0, 8, 0, 0, 0];
    for k in 0..n {
        let next = if k + 1 == n { 8 } else { 8 + (k + 1) * 18 };
        out.extend_from_slice(&1u16.to_le_bytes());                       // one entry
        out.extend_from_slice(&[0x00, 0x01, 3, 0, 1, 0, 0, 0, 1, 0, 0, 0]); // ImageWidth = 1
        out.extend_from_slice(&(next as u32).to_le_bytes());
    }
    out
}

fn structure_case(op: &str, hint: &str, bytes: &[u8]) -> Value {
    match op {
        "sign" => {
            let t0 = Instant::now();
            let r = catch(AssertUnwindSafe(|| sign_bytes(ctx(&settings_json()), &simple_manifest_json("c10", hint), hint, bytes, "ed25519").map(|_| "signed".to_string()).map_err(|e| err_kind(&e))));
            let ms = t0.elapsed().as_millis() as u64;
            match r { Ok(Ok(s)) => json!({"r": "ok", "d": s, "ms": ms}), Ok(Err(e)) => json!({"r": "err", "d": e, "ms": ms}), Err(p) => json!({"r": "panic", "d": p.chars().take(300).collect::<String>(), "ms": ms}) }
        }
        "remove" => {
            let t0 = Instant::now();
            let r = catch(AssertUnwindSafe(|| { let mut o = Cursor::new(Vec::new()); c2pa::verif_hooks::remove_cai_store_from_stream(hint, &mut Cursor::new(bytes.to_vec()), &mut o).map(|_| "removed".to_string()).map_err(|e| err_kind(&e)) }));
            let ms = t0.elapsed().as_millis() as u64;
            match r { Ok(Ok(s)) => json!({"r": "ok", "d": s, "ms": ms}), Ok(Err(e)) => json!({"r": "err", "d": e, "ms": ms}), Err(p) => json!({"r": "panic", "d": p.chars().take(300).collect::<String>(), "ms": ms}) }
        }
        _ => run_case(op, hint, bytes),
    }
}

/// a compressed store whose brotli box inflates to `mb` megabytes of zeros
fn brotli_bomb(mb: usize) -> Option<Vec<u8>> {
    let a = sign_bytes(ctx(&json!({"verify": {"remote_manifest_fetch": false}, "core": {"prefer_compress_manifests": true}})), &simple_manifest_json("c10", "image/jpeg"), "image/jpeg", &fixture("no_manifest.jpg"), "ed25519").ok()?;
    let store = c2pa::jumbf_io::load_jumbf_from_memory("image/jpeg", &a).ok()?;
    let boxes = walk(&store);
    let bi = boxes.iter().position(|b| b.ty == "brob")?;
    let b = boxes[bi].clone();
    let mut comp = vec![];
    { let mut w = brotli::CompressorWriter::new(&mut comp, 4096, 5, 22); let zeros = vec![0u8; 1 << 20]; for _ in 0..mb { w.write_all(&zeros).ok()?; } w.flush().ok()?; }
    let old_payload = b.size - b.hdr;
    let mut out = store[..b.off + b.hdr].to_vec();
    out.extend_from_slice(&comp);
    out.extend_from_slice(&store[b.off + b.size..]);
    let delta = comp.len() as i64 - old_payload as i64;
    // fix the sizes of the box and of all its ancestors
    let mut i = Some(bi);
    while let Some(x) = i { let bx = &boxes[x]; let ns = (bx.size as i64 + delta) as u32; out[bx.off..bx.off + 4].copy_from_slice(&ns.to_be_bytes()); i = bx.parent; }
    Some(out)
}

fn run_case(op: &str, hint: &str, bytes: &[u8]) -> Value {
    let t0 = Instant::now();
    let r = catch(AssertUnwindSafe(|| match op {
        "read" => Reader::from_context(ctx(&settings_json())).with_stream(hint, Cursor::new(bytes.to_vec())).map(|r| state_str(&r).to_string()).map_err(|e| err_kind(&e)),
        "ingredient" => { let mut b = Builder::from_context(ctx(&settings_json())).with_definition(simple_manifest_json("p", "image/jpeg").to_string().as_str()).map_err(|e| err_kind(&e))?; b.add_ingredient_from_stream(json!({"title": "i", "relationship": "componentOf"}).to_string(), hint, &mut Cursor::new(bytes.to_vec())).map(|_| "added".to_string()).map_err(|e| err_kind(&e)) }
        "archive" => Builder::from_context(ctx(&settings_json())).with_archive(Cursor::new(bytes.to_vec())).map(|_| "restored".to_string()).map_err(|e| err_kind(&e)),
        "sidecar" => Reader::from_context(ctx(&settings_json())).with_manifest_data_and_stream(bytes, "image/jpeg", Cursor::new(fixture("no_manifest.jpg"))).map(|r| state_str(&r).to_string()).map_err(|e| err_kind(&e)),
        _ => Err("op".into()),
    }));
    let ms = t0.elapsed().as_millis() as u64;
    match r { Ok(Ok(s)) => json!({"r": "ok", "d": s, "ms": ms}), Ok(Err(e)) => json!({"r": "err", "d": e, "ms": ms}), Err(p) => json!({"r": "panic", "d": p.chars().take(300).collect::<String>(), "ms": ms}) }
}

fn emit(v: &Value) { let so = std::io::stdout(); let mut l = so.lock(); let _ = writeln!(l, "{}", v); let _ = l.flush(); }

/// vh c10-child --seed S --from A --to B [--limits]
pub fn child(args: &[String]) {
    std::panic::set_hook(Box::new(|_| {}));
    if args.iter().any(|a| a == "--limits") {
        for d in [31usize, 32, 33, 34, 100, 1000, 20000, 1000000] {
            let b = nested_jumb(d);
            emit(&json!({"e": "begin", "case": format!("nested-jumb:{d}")}));
            emit(&json!({"e": "done", "case": format!("nested-jumb:{d}"), "len": b.len(), "res": run_case("read", "application/c2pa", &b), "res2": run_case("sidecar", "", &b)}));
        }
        for mb in [1usize, 31, 33, 64, 512, 4096] {
            emit(&json!({"e": "begin", "case": format!("brotli-bomb:{mb}MB")}));
            match brotli_bomb(mb) {
                Some(b) => emit(&json!({"e": "done", "case": format!("brotli-bomb:{mb}MB"), "len": b.len(), "res": run_case("read", "application/c2pa", &b), "res2": run_case("sidecar", "", &b)})),
                None => emit(&json!({"e": "done", "case": format!("brotli-bomb:{mb}MB"), "res": {"r": "setup-failed"}})),
            }
        }
        // deeply nested / cyclic container structures, through every path that parses or rewrites the asset
        let mut structs: Vec<(String, &str, Vec<u8>)> = vec![];
        for d in [3usize, 50, 2000, 100_000] { structs.push((format!("nested-riff-LIST:{d}"), "audio/wav", nested_riff("LIST", d))); structs.push((format!("nested-riff-seqt:{d}"), "audio/wav", nested_riff("seqt", d))); structs.push((format!("nested-bmff:{d}"), "video/mp4", nested_bmff(d))); }
        for n in [1usize, 2, 50] { structs.push((format!("tiff-ifd-cycle:{n}"), "image/tiff", tiff_ifd_cycle(n))); }
        for (name, hint, bytes) in structs {
            for op in ["read", "ingredient", "sign", "remove"] {
                let case = format!("{name}:{op}");
                emit(&json!({"e": "begin", "case": case}));
                emit(&json!({"e": "done", "case": case, "len": bytes.len(), "res": structure_case(op, hint, &bytes)}));
            }
        }
        // remote manifest: the server claims an absurd Content-Length
        for cl in ["100", "4294967296", "99999999999999", "18446744073709551615"] {
            let case = format!("remote-content-length:{cl}");
            emit(&json!({"e": "begin", "case": case}));
            let cl2 = cl.to_string();
            c2pa::verif_hooks::set_transport(Some(std::sync::Arc::new(move |_req: http::Request<Vec<u8>>| { Ok(http::Response::builder().status(200).header("Content-Length", cl2.as_str()).body(b"not a manifest".to_vec()).unwrap()) })));
            let t0 = Instant::now();
            let r = catch(AssertUnwindSafe(|| Reader::from_context(ctx(&json!({"verify": {"remote_manifest_fetch": true}}))).with_stream("image/png", Cursor::new(fixture("libpng-test_with_url.png"))).map(|r| state_str(&r).to_string()).map_err(|e| err_kind(&e))));
            c2pa::verif_hooks::set_transport(None);
            let ms = t0.elapsed().as_millis() as u64;
            emit(&json!({"e": "done", "case": case, "res": match r { Ok(Ok(s)) => json!({"r": "ok", "d": s, "ms": ms}), Ok(Err(e)) => json!({"r": "err", "d": e, "ms": ms}), Err(p) => json!({"r": "panic", "d": p.chars().take(200).collect::<String>(), "ms": ms}) }}));
        }
        emit(&json!({"e": "end"}));
        return;
    }
    let seed = arg_u64(args, "--seed", 1);
    let from = arg_u64(args, "--from", 0);
    let to = arg_u64(args, "--to", 100);
    let seeds: Vec<(usize, Vec<u8>)> = SEEDS.iter().enumerate().map(|(i, (_, mime, fx))| (i, signed_seed(mime, fx))).filter(|(_, b)| !b.is_empty()).collect();
    for i in from..to {
        let mut rng = StdRng::seed_from_u64(seed.wrapping_mul(1_000_003).wrapping_add(i));
        let (si, base) = seeds.choose(&mut rng).unwrap();
        let (m, kind) = mutate(base, &mut rng);
        // mostly the right hint, sometimes any other
        let hint = if rng.gen_bool(0.75) { SEEDS[*si].1 } else { SEEDS.choose(&mut rng).unwrap().1 };
        let op = *["read", "read", "read", "ingredient", "archive", "sidecar"].choose(&mut rng).unwrap();
        let case = json!({"i": i, "seed_format": SEEDS[*si].0, "fixture": SEEDS[*si].2, "mutation": kind, "hint": hint, "op": op, "len": m.len()});
        emit(&json!({"e": "begin", "case": case}));
        let res = run_case(op, hint, &m);
        emit(&json!({"e": "done", "case": case, "res": res}));
    }
    emit(&json!({"e": "end"}));
}
