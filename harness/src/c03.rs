//! C03 -- signing round trip: vectors (format, alg, hash alg, compressed, claim version, mode, definition shape) are
//! instantiated with random labels / payloads (sizes straddling CBOR header boundaries), signed through Builder::sign,
//! read back, and the reported manifest compared with what was supplied.  The serialisation events of every signing
//! (hook H3) are recorded for Trace_SignFlow.
use std::io::Cursor;
use std::sync::{Arc, Mutex};

use c2pa::{Builder, Reader};
use rand::{rngs::StdRng, Rng, SeedableRng};
use serde_json::{json, Value};

use crate::common::*;

fn fixture_for(fmt: &str) -> (&'static str, &'static str) {
    match fmt {
        "jpeg" => ("image/jpeg", "no_manifest.jpg"), "png" => ("image/png", "libpng-test.png"), "gif" => ("image/gif", "sample1.gif"), "webp" => ("image/webp", "sample1.webp"),
        "tiff" => ("image/tiff", "TUSCANY.TIF"), "svg" => ("image/svg+xml", "sample1.svg"), "mp4" => ("video/mp4", "video1_no_manifest.mp4"), "wav" => ("audio/wav", "sample1.wav"),
        "jxl" => ("image/jxl", "sample1.jxl"), "mp3" => ("audio/mpeg", "sample1.mp3"), "flac" => ("audio/flac", "sample1.flac"), "avif" => ("image/avif", "sample1.avif"),
        "avi" => ("video/avi", "test.avi"), "heic" => ("image/heic", "sample1.heic"), _ => ("image/jpeg", "no_manifest.jpg"),
    }
}

fn word(rng: &mut StdRng, n: usize) -> String { (0..n).map(|_| (b'a' + rng.gen_range(0..26)) as char).collect() }

fn payload(kind: &str, rng: &mut StdRng) -> Value {
    let size = match kind { "tiny" => rng.gen_range(1..8), "b23" => rng.gen_range(20..28), "b255" => rng.gen_range(250..262), "b65535" => rng.gen_range(65520..65550), _ => rng.gen_range(30..200) };
    match rng.gen_range(0..3) {
        0 => json!({"text": word(rng, size), "n": rng.gen_range(0..1000), "flag": rng.gen_bool(0.5)}),
        1 => json!({"list": (0..(size / 8 + 1)).map(|i| json!({"i": i, "w": word(rng, 4)})).collect::<Vec<_>>(), "nested": {"a": {"b": word(rng, 3)}}}),
        _ => json!({"s": word(rng, size), "unicode": "é日本", "neg": -5, "float": 1.5, "null": null, "arr": [1, "two", 3.5]}),
    }
}

pub fn replay(args: &[String]) {
    let seed = arg_u64(args, "--seed", 1);
    let mut rng = StdRng::seed_from_u64(seed ^ 0xC03);
    let events: Arc<Mutex<Vec<Value>>> = Arc::new(Mutex::new(vec![]));
    let ev2 = events.clone();
    c2pa::verif_hooks::set_trace_sink(Some(Arc::new(move |ev: &str, js: &str| {
        if ev == "jumbf" {
            if let Ok(v) = serde_json::from_str::<Value>(js) { ev2.lock().unwrap().push(v); }
        }
    })));
    let mut out = Out::new();
    for v in read_ndjson_stdin() {
        let (mime, fx) = fixture_for(v["format"].as_str().unwrap());
        let src = fixture(fx);
        let alg = v["alg"].as_str().unwrap().to_string();
        let mode = v["mode"].as_str().unwrap();
        let n_assert = v["assertions"].as_u64().unwrap() as usize;
        let kind = v["kind"].as_str().unwrap_or("cbor").to_string();
        let repeat = v["repeat"].as_u64().unwrap_or(0) as usize;
        let title = format!("c03 {} é", word(&mut rng, 6));
        let gen_name = format!("vh-{}", word(&mut rng, 4));
        let mut assertions = vec![json!({"label": "c2pa.actions", "data": {"actions": [{"action": "c2pa.created", "digitalSourceType": "http://cv.iptc.org/newscodes/digitalsourcetype/digitalCapture"}]}})];
        let mut supplied: Vec<(String, Value)> = vec![];
        for i in 0..n_assert {
            let label = format!("org.{}.{}", word(&mut rng, 5), ["meta", "info.v2", "x_y", "a-b"][i % 4]);
            let data = payload(v["payload"].as_str().unwrap(), &mut rng);
            let mut a = json!({"label": label, "data": data});
            if kind == "json" { a["kind"] = json!("Json"); }
            assertions.push(a);
            supplied.push((label, data));
        }
        // further instances of the first custom label (label__1, label__2, .. inside the store)
        if let Some((l0, _)) = supplied.first().cloned() {
            for _ in 0..repeat {
                let data = payload(v["payload"].as_str().unwrap(), &mut rng);
                let mut a = json!({"label": l0, "data": data});
                if kind == "json" { a["kind"] = json!("Json"); }
                assertions.push(a);
                supplied.push((l0.clone(), data));
            }
        }
        let icon = v["icon"].as_bool().unwrap_or(false);
        let mut def = json!({"title": title, "format": mime, "claim_generator_info": [{"name": gen_name, "version": "1.2.3"}], "assertions": assertions});
        if icon { def["claim_generator_info"][0]["icon"] = json!({"format": "image/jpeg", "identifier": "icon.jpg"}); }
        if v["claim_version"].as_u64() == Some(1) { def["claim_version"] = json!(1); }
        if v["hash_alg"] != "sha256" { def["hash_alg"] = v["hash_alg"].clone(); }
        let xtra = v["extra"].as_str().unwrap_or("none").to_string();
        let mut overlay = if v["compressed"].as_bool().unwrap() { json!({"core": {"prefer_compress_manifests": true}}) } else { json!({}) };
        if xtra == "thumb" { overlay["builder"] = json!({"thumbnail": {"enabled": true}}); }
        if xtra == "user_thumb" { def["thumbnail"] = json!({"format": "image/jpeg", "identifier": "thumb.jpg"}); }
        events.lock().unwrap().clear();
        let ing = v["ingredient"].as_str().unwrap_or("none").to_string();
        let r = catch(std::panic::AssertUnwindSafe(|| -> Result<Value, c2pa::Error> {
            let mut b = Builder::from_context(ctx(&overlay)).with_definition(def.to_string().as_str())?;
            let ing = if ing == "none" && xtra.starts_with("ing_") { "unsigned".to_string() } else { ing.clone() };
            if xtra == "user_thumb" { b.add_resource("thumb.jpg", Cursor::new(fixture("thumbnail.jpg")))?; }
            if ing != "none" {
                // a version-1 claim can only carry ingredients whose manifests are version 1 as well
                let mut idef = simple_manifest_json("c03 ingredient", "image/png");
                if v["claim_version"].as_u64() == Some(1) { idef["claim_version"] = json!(1); }
                let idata = if ing == "signed" { sign_bytes(ctx(&Value::Null), &idef, "image/png", &fixture("libpng-test.png"), "es256")? } else { fixture("libpng-test.png") };
                // a signed ingredient whose manifest uses another hash algorithm than the new claim
                if xtra == "ing_other_alg" { idef["hash_alg"] = json!(if v["hash_alg"] == "sha512" { "sha384" } else { "sha512" }); }
                let idata = if ing == "signed" && xtra == "ing_other_alg" { sign_bytes(ctx(&Value::Null), &idef, "image/png", &fixture("libpng-test.png"), "es256")? } else { idata };
                let i = b.add_ingredient_from_stream(json!({"title": "ing-title", "relationship": "componentOf"}).to_string(), "image/png", &mut Cursor::new(idata))?;
                if xtra == "ing_thumb" { i.set_thumbnail("image/jpeg", fixture("thumbnail.jpg"))?; }
                if xtra == "ing_data" {
                    let r = i.resources_mut().add_with("prompt", "text/plain", b"a prompt text".to_vec())?;
                    i.set_data_ref(r)?;
                }
            }
            if icon { b.add_resource("icon.jpg", Cursor::new(fixture("thumbnail.jpg")))?; }
            if mode == "sidecar" || mode == "remote" { b.set_no_embed(true); }
            if mode == "remote" || mode == "embed+remote" { b.set_remote_url("https://manifests.example/c03.c2pa"); }
            let s = signer(&alg);
            let mut o = Cursor::new(Vec::new());
            events.lock().unwrap().clear(); // only the serialisations of this signing
            let manifest_bytes = b.sign(s.as_ref(), mime, &mut Cursor::new(src.clone()), &mut o)?;
            let signed = o.into_inner();
            let c = ctx(&json!({"verify": {"remote_manifest_fetch": false}}));
            let reader = if mode == "sidecar" || mode == "remote" {
                Reader::from_context(c).with_manifest_data_and_stream(&manifest_bytes, mime, Cursor::new(signed))?
            } else {
                Reader::from_context(c).with_stream(mime, Cursor::new(signed))?
            };
            let rep = report(&reader);
            let m = reader.active_manifest();
            let mut problems = vec![];
            match m {
                None => problems.push("no active manifest".to_string()),
                Some(m) => {
                    if m.title() != Some(title.as_str()) { problems.push(format!("title {:?} != {:?}", m.title(), title)); }
                    // (a version-2 claim has no format field, so the report carries none)
                    if v["claim_version"].as_u64() == Some(1) && m.format() != Some(mime) { problems.push(format!("format {:?} != {mime}", m.format())); }
                    let gi = serde_json::to_value(&m.claim_generator_info).unwrap_or(Value::Null);
                    if !gi.to_string().contains(&gen_name) { problems.push(format!("claim generator {gen_name} missing: {}", gi.to_string().chars().take(80).collect::<String>())); }
                    // every supplied (label, data) pair is reported, instance by instance (multiset comparison)
                    let mut reported: Vec<(String, Option<Value>, bool)> = m.assertions().iter().filter(|a| a.label().starts_with("org.")).map(|a| {
                        let base = a.label().split("__").next().unwrap_or("").to_string();
                        (base, a.value().ok().cloned(), false)
                    }).collect();
                    for (label, data) in &supplied {
                        if !reported.iter().any(|(l, _, _)| l == label) { problems.push(format!("assertion {label} missing")); continue; }
                        match reported.iter_mut().find(|(l, d, used)| l == label && !*used && d.as_ref() == Some(data)) {
                            Some(x) => x.2 = true,
                            None => problems.push(format!("assertion {label} data differs")),
                        }
                    }
                    let want_kind = if kind == "json" { "Json" } else { "Cbor" };
                    for a in m.assertions().iter().filter(|a| a.label().starts_with("org.")) {
                        if format!("{:?}", a.kind()) != want_kind { problems.push(format!("kind of {} is {:?}, supplied {want_kind}", a.label(), a.kind())); }
                    }
                    if m.assertions().iter().filter(|a| a.label().starts_with("org.")).count() != supplied.len() { problems.push(format!("count {} org assertions reported, {} supplied", m.assertions().iter().filter(|a| a.label().starts_with("org.")).count(), supplied.len())); }
                    let extra: Vec<String> = m.assertions().iter().map(|a| a.label().split("__").next().unwrap_or("").to_string()).filter(|l| l.starts_with("org.") && !supplied.iter().any(|(s, _)| s == l)).collect();
                    if !extra.is_empty() { problems.push(format!("unexpected assertions {extra:?}")); }
                    let want_ing = if ing == "none" { 0 } else { 1 };
                    if xtra == "user_thumb" && m.thumbnail_ref().is_none() { problems.push("thumbnail missing".to_string()); }
                    if m.ingredients().len() != want_ing { problems.push(format!("{} ingredients, expected {want_ing}", m.ingredients().len())); }
                    else if want_ing == 1 {
                        let i0 = &m.ingredients()[0];
                        if i0.title() != Some("ing-title") { problems.push(format!("ingredient title {:?}", i0.title())); }
                        if format!("{:?}", i0.relationship()).to_lowercase() != "componentof" { problems.push(format!("ingredient relationship {:?}", i0.relationship())); }
                        if (ing == "signed") != i0.active_manifest().is_some() { problems.push("ingredient manifest presence wrong".to_string()); }
                        if xtra == "ing_thumb" && i0.thumbnail_ref().is_none() { problems.push("ingredient thumbnail missing".to_string()); }
                        if xtra == "ing_data" && i0.data_ref().is_none() { problems.push("ingredient data missing".to_string()); }
                    }
                }
            }
            Ok(json!({"sign": "Ok", "state": rep["state"], "failures": failure_codes(&reader), "problems": problems}))
        }));
        let obs = match r {
            Ok(Ok(o)) => o,
            Ok(Err(e)) => json!({"sign": format!("Err:{}", err_kind(&e)), "msg": format!("{e}").chars().take(200).collect::<String>()}),
            Err(p) => json!({"sign": "Panic", "msg": p}),
        };
        let evs = events.lock().unwrap().clone();
        out.emit(&json!({"vector": v, "obs": obs, "jumbf": evs}));
    }
}
