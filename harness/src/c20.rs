//! C20 (redaction along an edit chain) and C21 (update manifests): vectors exported by TLC from Redaction / UpdateManifest
//! are built with the public Builder (Edit / Update intents), signed, read back and tampered.
use std::io::Cursor;
use std::panic::AssertUnwindSafe;

use c2pa::{Builder, BuilderIntent};
use serde_json::{json, Value};

use crate::common::*;

const FORMATS: [(&str, &str, &str); 3] = [("jpeg", "image/jpeg", "no_manifest.jpg"), ("png", "image/png", "libpng-test.png"), ("mp4", "video/mp4", "video1_no_manifest.mp4")];

fn settings_json() -> Value { json!({"verify": {"remote_manifest_fetch": false}}) }
fn marker(vid: usize, m: usize, kind: &str) -> String { format!("VHMARK-{vid:05}-{m}-{kind}-payload") }
/// the two custom assertions of a manifest share one label: they are instances L and L__1 of it
fn label_of(kind: &str, m: usize) -> String { match kind { "c1" => format!("org.vh.cm{m}"), "c2" => format!("org.vh.cm{m}__1"), "actions" => "c2pa.actions.v2".into(), _ => "c2pa.hash.data".into() } }
fn base_label(m: usize) -> String { format!("org.vh.cm{m}") }
fn count(hay: &[u8], needle: &[u8]) -> usize { if needle.is_empty() || hay.len() < needle.len() { 0 } else { hay.windows(needle.len()).filter(|w| *w == needle).count() } }

fn read(mime: &str, bytes: &[u8]) -> Value {
    match read_bytes(ctx(&settings_json()), mime, bytes) {
        Ok(r) => {
            let rep: Value = serde_json::from_str(&r.json()).unwrap_or(Value::Null);
            let active = r.active_label().unwrap_or("").to_string();
            let mut labels = serde_json::Map::new();
            if let Some(ms) = rep["manifests"].as_object() { for (k, m) in ms {
                labels.insert(k.clone(), json!({"title": m["title"], "assertions": m["assertions"].as_array().map(|a| a.iter().map(|x| { let l = x["label"].as_str().unwrap_or("").to_string(); let i = x["instance"].as_u64().unwrap_or(0); json!(if i > 0 && !l.contains("__") { format!("{l}__{i}") } else { l }) }).collect::<Vec<_>>()).unwrap_or_default(), "redactions": m["redactions"]}));
            } }
            json!({"state": state_str(&r), "failures": failure_codes(&r), "active": active, "manifests": labels})
        }
        Err(e) => json!({"err": err_kind(&e)}),
    }
}

/// vh c20-replay < vectors {id, depth, verdict, requests:[[{m,kind}..]..], present}
pub fn replay(_args: &[String]) {
    let mut out = Out::new();
    std::panic::set_hook(Box::new(|_| {}));
    for v in read_ndjson_stdin() {
        let vid = v["id"].as_u64().unwrap() as usize;
        let (fmt, mime, fx) = FORMATS[vid % FORMATS.len()];
        let reqs = v["requests"].as_array().unwrap().clone();
        let mut cur = fixture(fx);
        let mut labels: Vec<String> = vec![]; // manifest label of level m (1-based -> index m-1)
        let mut hash_labels: Vec<String> = vec![]; // label of the hard-binding assertion of level m
        let rogue = v["verdict"] == "invalid"; // the last level is signed by a generator that does not refuse (hook H6)
        let mut levels = vec![];
        let r = catch(AssertUnwindSafe(|| {
            for (ji, req) in reqs.iter().enumerate() {
                let j = ji + 1;
                // (a version-1 claim is labelled urn:uuid:.., a version-2 claim urn:c2pa:..)
                let own_label = format!("urn:{}:{:08x}-0000-4000-8000-{:012x}", if vid % 5 == 2 { "uuid" } else { "c2pa" }, vid, j);
                let mut assertions = vec![json!({"label": base_label(j), "data": {"marker": marker(vid, j, "c1")}}), json!({"label": base_label(j), "data": {"marker": marker(vid, j, "c2")}})];
                let mut red: Vec<String> = vec![];
                let mut actions = vec![];
                if j == 1 { actions.push(json!({"action": "c2pa.created", "digitalSourceType": "http://cv.iptc.org/newscodes/digitalsourcetype/digitalCapture"})); }
                for t in req.as_array().unwrap() {
                    let m = t["m"].as_u64().unwrap() as usize;
                    let kind = t["kind"].as_str().unwrap();
                    let ml = if m == j { own_label.clone() } else { labels[m - 1].clone() };
                    // the hard binding is named by its real label (c2pa.hash.data, c2pa.hash.bmff.v3, ..)
                    let lbl = if kind == "hash" && m < j { hash_labels.get(m - 1).cloned().unwrap_or_else(|| label_of(kind, m)) } else { label_of(kind, m) };
                    let uri = format!("self#jumbf=/c2pa/{}/c2pa.assertions/{}", ml, lbl);
                    actions.push(json!({"action": "c2pa.redacted", "reason": "c2pa.PII.present", "parameters": {"redacted": uri}}));
                    red.push(uri);
                }
                if !actions.is_empty() { assertions.push(json!({"label": "c2pa.actions", "data": {"actions": actions}})); }
                let mut def = json!({"title": format!("L{j}"), "format": mime, "label": own_label, "claim_generator_info": [{"name": "vh", "version": "0.1"}], "assertions": assertions});
                if !red.is_empty() { def["redactions"] = json!(red); }
                // the claim's hash algorithm and version vary with the vector (one choice for the whole chain)
                match vid % 7 { 1 => { def["hash_alg"] = json!("sha384"); } 3 => { def["hash_alg"] = json!("sha512"); } _ => {} }
                if vid % 5 == 2 { def["claim_version"] = json!(1); }
                // a generator that does not refuse does not validate its own output either
                let sj = if rogue && j == reqs.len() { json!({"verify": {"remote_manifest_fetch": false, "verify_after_sign": false}}) } else { settings_json() };
                let mut b = match Builder::from_context(ctx(&sj)).with_definition(def.to_string().as_str()) { Ok(b) => b, Err(e) => { levels.push(json!({"j": j, "sign": format!("definition:{}", err_kind(&e))})); break; } };
                if j > 1 { b.set_intent(BuilderIntent::Edit); }
                if j > 1 && v["arch"] == true {
                    // C22: the builder (with its parent ingredient and redactions) goes through an archive before signing
                    let ij = json!({"title": "parent", "relationship": "parentOf"}).to_string();
                    if let Err(e) = b.add_ingredient_from_stream(ij, mime, &mut Cursor::new(cur.clone())) { levels.push(json!({"j": j, "sign": format!("ingredient:{}", err_kind(&e))})); break; }
                    let mut z = Cursor::new(Vec::new());
                    if let Err(e) = b.to_archive(&mut z) { levels.push(json!({"j": j, "sign": format!("to_archive:{:?}", e), "requested": red})); break; }
                    z.set_position(0);
                    b = match Builder::from_context(ctx(&settings_json())).with_archive(z) { Ok(b) => b, Err(e) => { levels.push(json!({"j": j, "sign": format!("with_archive:{:?}", e), "requested": red})); break; } };
                }
                let s = signer("ed25519");
                let mut src = Cursor::new(cur.clone());
                let mut dst = Cursor::new(Vec::new());
                let forced = rogue && j == reqs.len();
                if forced { c2pa::verif_hooks::set_skip_redaction_legality_test(true); }
                let sr = b.sign(s.as_ref(), mime, &mut src, &mut dst);
                if forced { c2pa::verif_hooks::set_skip_redaction_legality_test(false); }
                match sr {
                    Ok(_) => {
                        cur = dst.into_inner();
                        let rd = read(mime, &cur);
                        labels.push(rd["active"].as_str().unwrap_or("").to_string());
                        // the hard binding of the manifest just signed
                        let hl = c2pa::jumbf_io::load_jumbf_from_memory(mime, &cur).ok().and_then(|st| {
                            let boxes = crate::c02::walk(&st);
                            let mi = boxes.iter().position(|b| b.ty == "jumb" && b.depth == 1 && b.label == rd["active"].as_str().unwrap_or(""))?;
                            boxes.iter().enumerate().find(|(i, b)| b.ty == "jumb" && b.label.starts_with("c2pa.hash.") && { let mut p = boxes[*i].parent; let mut inside = false; while let Some(x) = p { if x == mi { inside = true; break; } p = boxes[x].parent; } inside }).map(|(_, b)| b.label.clone())
                        }).unwrap_or_else(|| "c2pa.hash.data".to_string());
                        hash_labels.push(hl);
                        levels.push(json!({"j": j, "sign": "ok", "read": rd, "requested": red, "label_kept": rd["active"] == own_label, "forced": forced}));
                    }
                    Err(e) => { levels.push(json!({"j": j, "sign": format!("err:{}", err_kind(&e)), "requested": red})); break; }
                }
            }
        }));
        // which assertion payloads are still in the file
        let mut present = vec![];
        for m in 1..=reqs.len() { for k in ["c1", "c2"] { if count(&cur, marker(vid, m, k).as_bytes()) > 0 { present.push(json!({"m": m, "kind": k})); } } }
        // post-hoc removal: overwrite one remaining payload of an ingredient manifest in place
        let mut posthoc = Value::Null;
        let all_signed = levels.len() == reqs.len() && levels.iter().all(|l| l["sign"] == "ok");
        if all_signed && reqs.len() >= 2 {
            let redacted_ms: Vec<u64> = reqs.iter().flat_map(|r| r.as_array().unwrap().iter().map(|t| t["m"].as_u64().unwrap())).collect();
            let cand = present.iter().find(|t| (t["m"].as_u64().unwrap() as usize) < reqs.len() && redacted_ms.contains(&t["m"].as_u64().unwrap())).or_else(|| present.iter().find(|t| (t["m"].as_u64().unwrap() as usize) < reqs.len()));
            if let Some(t) = cand {
                let mk = marker(vid, t["m"].as_u64().unwrap() as usize, t["kind"].as_str().unwrap());
                let mut bytes = cur.clone();
                if let Some(p) = bytes.windows(mk.len()).position(|w| w == mk.as_bytes()) { for b in &mut bytes[p..p + mk.len()] { *b = b'X'; } }
                posthoc = json!({"target": t, "read": read(mime, &bytes)});
            }
        }
        out.emit(&json!({"id": vid, "fmt": fmt, "levels": levels, "present": present, "posthoc": posthoc, "panic": r.err()}));
    }
}

/// vh c21-replay < vectors {id, steps:[{op,extra,action}], verdict}
pub fn replay_update(_args: &[String]) {
    let mut out = Out::new();
    std::panic::set_hook(Box::new(|_| {}));
    for v in read_ndjson_stdin() {
        let vid = v["id"].as_u64().unwrap() as usize;
        let (fmt, mime, fx) = FORMATS[vid % FORMATS.len()];
        let mut steps_out = vec![];
        let r = catch(AssertUnwindSafe(|| {
            // the standard manifest that binds the content
            // the hash algorithm of the content-binding manifest and of the update manifests varies with the vector
            let halg = match vid % 7 { 1 | 4 => Some("sha384"), 3 => Some("sha512"), _ => None };
            let mut base_def = simple_manifest_json("base", mime);
            if let Some(h) = halg { if vid % 7 != 4 { base_def["hash_alg"] = json!(h); } }
            let base = sign_bytes(ctx(&settings_json()), &base_def, mime, &fixture(fx), "ed25519");
            let mut cur = match base { Ok(b) => b, Err(e) => { steps_out.push(json!({"op": "base", "sign": format!("err:{}", err_kind(&e))})); return; } };
            steps_out.push(json!({"op": "base", "sign": "ok", "read": read(mime, &cur)}));
            for (si, st) in v["steps"].as_array().unwrap().iter().enumerate() {
                if st["op"] == "T" {
                    let n = cur.len();
                    let pos = match fmt { "jpeg" => n - 40, "png" => n - 60, _ => n - 64 };
                    cur[pos] ^= 0x5a;
                    steps_out.push(json!({"op": "T", "read": read(mime, &cur)}));
                    continue;
                }
                let mut actions = vec![];
                match st["action"].as_str().unwrap() { "allowed" => actions.push(json!({"action": if (vid + si) % 2 == 0 { "c2pa.published" } else { "c2pa.edited.metadata" }})), "disallowed" => actions.push(json!({"action": if (vid + si) % 2 == 0 { "c2pa.cropped" } else { "c2pa.edited" }})), _ => {} }
                let mut def = json!({"title": format!("U{}", si + 1), "format": mime, "claim_generator_info": [{"name": "vh", "version": "0.1"}], "assertions": []});
                if !actions.is_empty() { def["assertions"] = json!([{"label": "c2pa.actions", "data": {"actions": actions}}]); }
                if let Some(h) = halg { if vid % 7 != 1 { def["hash_alg"] = json!(h); } }   // (1: base only, 4: updates only, 3: both)
                let mut b = match Builder::from_context(ctx(&settings_json())).with_definition(def.to_string().as_str()) { Ok(b) => b, Err(e) => { steps_out.push(json!({"op": "U", "sign": format!("definition:{}", err_kind(&e))})); return; } };
                b.set_intent(BuilderIntent::Update);
                if st["extra"] == true {
                    let ij = json!({"title": "extra", "relationship": "componentOf"}).to_string();
                    if let Err(e) = b.add_ingredient_from_stream(ij, "image/jpeg", &mut Cursor::new(fixture("no_manifest.jpg"))) { steps_out.push(json!({"op": "U", "sign": format!("ingredient:{}", err_kind(&e))})); return; }
                }
                let s = signer("ed25519");
                let mut src = Cursor::new(cur.clone());
                let mut dst = Cursor::new(Vec::new());
                match b.sign(s.as_ref(), mime, &mut src, &mut dst) {
                    Ok(_) => {
                        let o = dst.into_inner();
                        let rd = read(mime, &o);
                        // is the new active manifest really an update manifest (no hard binding of its own)?
                        let active = rd["active"].as_str().unwrap_or("").to_string();
                        let own_binding = rd["manifests"][&active]["assertions"].as_array().map(|a| a.iter().any(|l| l.as_str().map(|s| s.starts_with("c2pa.hash")).unwrap_or(false))).unwrap_or(false);
                        steps_out.push(json!({"op": "U", "sign": "ok", "read": rd, "own_binding": own_binding, "media_same_len": o.len() >= cur.len()}));
                        cur = o;
                    }
                    Err(e) => {
                        // the Builder refuses ill-formed update manifests at signing time; sign the same definition again with
                        // the signing-side test switched off (hook H5) so that the validator's rules are what decides
                        let refused = format!("err:{}", err_kind(&e));
                        let mut b2 = match Builder::from_context(ctx(&json!({"verify": {"remote_manifest_fetch": false, "verify_after_sign": false}}))).with_definition(def.to_string().as_str()) { Ok(b) => b, Err(_) => { steps_out.push(json!({"op": "U", "sign": refused})); return; } };
                        b2.set_intent(BuilderIntent::Update);
                        if st["extra"] == true {
                            let ij = json!({"title": "extra", "relationship": "componentOf"}).to_string();
                            let _ = b2.add_ingredient_from_stream(ij, "image/jpeg", &mut Cursor::new(fixture("no_manifest.jpg")));
                        }
                        c2pa::verif_hooks::set_skip_update_manifest_test(true);
                        let mut d2 = Cursor::new(Vec::new());
                        let r2 = b2.sign(signer("ed25519").as_ref(), mime, &mut Cursor::new(cur.clone()), &mut d2);
                        c2pa::verif_hooks::set_skip_update_manifest_test(false);
                        match r2 {
                            Ok(_) => { let o = d2.into_inner(); steps_out.push(json!({"op": "U", "sign": refused, "forced": {"sign": "ok", "read": read(mime, &o)}})); }
                            Err(e2) => steps_out.push(json!({"op": "U", "sign": refused, "forced": {"sign": format!("err:{}", err_kind(&e2))}})),
                        }
                        return;
                    }
                }
            }
            // content change after the last update manifest must be detected (when everything was valid so far)
            let n = cur.len();
            let pos = match fmt { "jpeg" => n - 40, "png" => n - 60, _ => n - 64 };
            let mut t = cur.clone(); t[pos] ^= 0x5a;
            steps_out.push(json!({"op": "final-tamper-probe", "read": read(mime, &t)}));
        }));
        out.emit(&json!({"id": vid, "fmt": fmt, "steps": steps_out, "panic": r.err()}));
    }
}
