//! C14 -- reserved-size padding bindings.
//!  pad: sweep `end` (reserve) for COSE_Sign1 structures of realistic and synthetic sizes through the real
//!       pad_cose_sig (hook) and DataHash::pad_to_size; emits {cur, end, result}.
use coset::{iana, CoseSign1Builder, HeaderBuilder, TaggedCborSerializable};
use serde_json::{json, Value};
#[allow(unused_imports)]
use serde_json::Value as _V;

use crate::common::*;

fn mk_sign1(sig_len: usize, chain_len: usize, extra_headers: usize) -> coset::CoseSign1 {
    let protected = HeaderBuilder::new().algorithm(iana::Algorithm::ES256).build();
    let mut unprotected = HeaderBuilder::new()
        .text_value("x5chain".to_string(), coset::cbor::value::Value::Bytes(vec![7u8; chain_len]));
    for i in 0..extra_headers {
        unprotected = unprotected.text_value(format!("h{i}"), coset::cbor::value::Value::Integer(1.into()));
    }
    CoseSign1Builder::new()
        .protected(protected)
        .unprotected(unprotected.build())
        .signature(vec![9u8; sig_len])
        .build()
}

/// vh c14-pad --from A --to B  < shapes ndjson {sig, chain, extra}
/// for each shape: cur = unpadded size; for each end in cur+from ..= cur+to -> result
pub fn pad(_args: &[String]) {
    let mut out = Out::new();
    for v in read_ndjson_stdin() {
        let shape = (v["sig"].as_u64().unwrap() as usize, v["chain"].as_u64().unwrap() as usize, v["extra"].as_u64().unwrap_or(0) as usize);
        let base = mk_sign1(shape.0, shape.1, shape.2);
        let cur = base.clone().to_tagged_vec().unwrap().len();
        let ends: Vec<usize> = v["ends"].as_array().unwrap().iter().map(|d| (cur as i64 + d.as_i64().unwrap()) as usize).collect();
        let mut res = vec![];
        for end in ends {
            let mut s = base.clone();
            let r = catch(std::panic::AssertUnwindSafe(|| c2pa::verif_hooks::pad_cose_sig(&mut s, Some(end))));
            let o = match r {
                Ok(Ok(b)) => json!(b.len()),
                Ok(Err(e)) => json!(format!("Err:{e:?}").split('(').next().unwrap().to_string()),
                Err(p) => json!(format!("Panic:{p}")),
            };
            res.push(json!([end - cur, o]));
        }
        out.emit(&json!({"shape": v, "cur": cur, "res": res}));
    }
}

fn class_err(e: &c2pa::Error) -> String {
    let k = err_kind(e);
    if k == "CoseSigboxTooSmall" || k == "JumbfCreationError" { "TooSmall".into() } else { format!("Err:{k}") }
}

/// vh c14-datahash  < {excl: n, name_len, ends:[gaps]} : DataHash::pad_to_size sweeps
pub fn datahash(_args: &[String]) {
    use c2pa::assertions::DataHash;
    let mut out = Out::new();
    for v in read_ndjson_stdin() {
        let nex = v["excl"].as_u64().unwrap_or(1) as usize;
        let mk = || {
            let mut dh = DataHash::new(&"n".repeat(v["name_len"].as_u64().unwrap_or(8) as usize), "sha256");
            for i in 0..nex {
                dh.add_exclusion(c2pa::HashRange::new((i * 1000) as u64, 500));
            }
            dh.set_hash(vec![5u8; 32]);
            dh
        };
        let cur = c2pa_cbor::to_vec(&mk()).unwrap().len();
        let mut obs = vec![];
        for g in v["ends"].as_array().unwrap() {
            let gap = g.as_u64().unwrap() as usize;
            let mut dh = mk();
            let r = catch(std::panic::AssertUnwindSafe(|| dh.pad_to_size(cur + gap)));
            let o = match r {
                Ok(Ok(())) => json!([gap, "Ok", c2pa_cbor::to_vec(&dh).unwrap().len()]),
                Ok(Err(e)) => json!([gap, class_err(&e), 0]),
                Err(p) => json!([gap, "Panic", 0, p]),
            };
            obs.push(o);
        }
        out.emit(&json!({"kind": "datahash", "cur": cur, "obs": obs, "shape": v}));
    }
}

/// vh c14-cose < shapes {sig, chain, extra, ends:[gaps]} : pad_cose_sig sweeps in the Oracle_CborPad record format
pub fn cose(_args: &[String]) {
    let mut out = Out::new();
    for v in read_ndjson_stdin() {
        let base = mk_sign1(v["sig"].as_u64().unwrap() as usize, v["chain"].as_u64().unwrap() as usize, v["extra"].as_u64().unwrap_or(0) as usize);
        let cur = base.clone().to_tagged_vec().unwrap().len();
        let mut obs = vec![];
        for g in v["ends"].as_array().unwrap() {
            let gap = g.as_u64().unwrap() as usize;
            let mut s = base.clone();
            let r = catch(std::panic::AssertUnwindSafe(|| c2pa::verif_hooks::pad_cose_sig(&mut s, Some(cur + gap))));
            obs.push(match r {
                Ok(Ok(b)) => json!([gap, "Ok", b.len()]),
                Ok(Err(e)) => {
                    let d = format!("{e:?}");
                    if d.starts_with("BoxSizeTooSmall") { json!([gap, "TooSmall", 0]) } else { json!([gap, format!("Err:{d}"), 0]) }
                }
                Err(p) => json!([gap, "Panic", 0, p]),
            });
        }
        out.emit(&json!({"kind": "cose", "cur": cur, "obs": obs, "shape": v}));
    }
}

/// vh c14-e2e --alg A < {gaps:[..]} : Builder::sign with a signer whose reserve_size sweeps C + gap,
/// C = the unpadded COSE size measured from a signing with a roomy reserve.
pub fn e2e(args: &[String]) {
    let alg = arg(args, "--alg").unwrap_or("es256".into());
    let mut out = Out::new();
    let src = fixture("no_manifest.jpg");
    let def = simple_manifest_json("c14", "image/jpeg");
    // measure C: sign with reserve R0, find the pad length in the COSE unprotected header
    let r0 = 20000usize;
    let s0 = WrapSigner { inner: signer(&alg), reserve: Some(r0), tsa: None };
    let signed = sign_with(ctx(&Value::Null), &def, "image/jpeg", &src, &s0).expect("baseline sign");
    let store_bytes = c2pa::jumbf_io::load_jumbf_from_memory("image/jpeg", &signed).expect("load");
    let (store, _) = c2pa::verif_hooks::store_from_jumbf(&store_bytes, &ctx(&Value::Null)).expect("store");
    let sig = store.provenance_claim().expect("claim").signature_val().clone();
    let s1 = <coset::CoseSign1 as coset::TaggedCborSerializable>::from_tagged_slice(&sig).expect("cose");
    let mut padlen = 0usize;
    let mut n_pad_entries = 0;
    for (l, v) in &s1.unprotected.rest {
        if let coset::Label::Text(t) = l {
            if t == "pad" || t == "pad2" {
                if let coset::cbor::value::Value::Bytes(b) = v {
                    n_pad_entries += 1;
                    padlen += if t == "pad" { 4 } else { 5 } + b.len() + if b.len() < 24 { 1 } else if b.len() < 256 { 2 } else if b.len() < 65536 { 3 } else { 5 };
                }
            }
        }
    }
    let c = sig.len() - padlen;
    for v in read_ndjson_stdin() {
        let mut obs = vec![];
        for g in v["gaps"].as_array().unwrap() {
            let gap = g.as_i64().unwrap();
            let reserve = (c as i64 + gap) as usize;
            let s = WrapSigner { inner: signer(&alg), reserve: Some(reserve), tsa: None };
            let r = catch(std::panic::AssertUnwindSafe(|| sign_with(ctx(&Value::Null), &def, "image/jpeg", &src, &s)));
            obs.push(match r {
                Ok(Ok(bytes)) => {
                    let st = match read_bytes(ctx(&Value::Null), "image/jpeg", &bytes) { Ok(r) => state_str(&r).to_string(), Err(e) => format!("ReadErr:{}", err_kind(&e)) };
                    let sb = c2pa::jumbf_io::load_jumbf_from_memory("image/jpeg", &bytes).ok()
                        .and_then(|b| c2pa::verif_hooks::store_from_jumbf(&b, &ctx(&Value::Null)).ok())
                        .and_then(|(s, _)| s.provenance_claim().map(|c| c.signature_val().len())).unwrap_or(0);
                    json!([gap, "Ok", sb, st])
                }
                Ok(Err(e)) => json!([gap, class_err(&e), 0, ""]),
                Err(p) => json!([gap, "Panic", 0, p]),
            });
        }
        out.emit(&json!({"kind": "e2e", "alg": alg, "cur": c, "pad_entries_in_baseline": n_pad_entries, "obs": obs}));
    }
}
