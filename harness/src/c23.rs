//! C23 -- cancellation: the public progress callback is the event stream.  For each operation the driver first runs
//! with an always-true callback to learn the number of invocations N, then for every k in 1..N runs with
//! "return false at invocation k" and with "Context::cancel() from another thread while invocation k is parked".
use std::io::Cursor;
use std::sync::{atomic::{AtomicUsize, Ordering}, mpsc, Arc, Mutex};

use c2pa::{Builder, Context, Reader};
use serde_json::{json, Value};

use crate::common::*;

#[derive(Clone)]
pub struct OpSpec {
    pub name: String,
    pub fmt: String,
    pub data: Vec<u8>,
    pub sidecar: Option<Vec<u8>>,
    pub settings: Value,
}

fn run_op(op: &OpSpec, c: &Arc<Context>) -> Result<Value, c2pa::Error> {
    match op.name.as_str() {
        "read" => {
            let r = Reader::from_shared_context(c).with_stream(&op.fmt, Cursor::new(op.data.clone()))?;
            Ok(json!({"state": state_str(&r), "failures": failure_codes(&r)}))
        }
        "read_sidecar" => {
            let r = Reader::from_shared_context(c).with_manifest_data_and_stream(op.sidecar.as_ref().unwrap(), &op.fmt, Cursor::new(op.data.clone()))?;
            Ok(json!({"state": state_str(&r), "failures": failure_codes(&r)}))
        }
        "sign" => {
            let mut b = Builder::from_shared_context(c).with_definition(simple_manifest_json("c23", &op.fmt).to_string().as_str())?;
            let s = signer("ed25519");
            let mut o = Cursor::new(Vec::new());
            b.sign(s.as_ref(), &op.fmt, &mut Cursor::new(op.data.clone()), &mut o)?;
            Ok(json!({"signed_len": o.into_inner().len()}))
        }
        "sign_with_ingredient" => {
            let mut b = Builder::from_shared_context(c).with_definition(simple_manifest_json("c23", &op.fmt).to_string().as_str())?;
            b.add_ingredient_from_stream(json!({"title": "parent", "relationship": "parentOf"}).to_string(), &op.fmt, &mut Cursor::new(op.sidecar.clone().unwrap()))?;
            let s = signer("ed25519");
            let mut o = Cursor::new(Vec::new());
            b.sign(s.as_ref(), &op.fmt, &mut Cursor::new(op.data.clone()), &mut o)?;
            Ok(json!({"signed_len": o.into_inner().len()}))
        }
        "ingredient" => {
            let mut b = Builder::from_shared_context(c).with_definition(simple_manifest_json("c23", &op.fmt).to_string().as_str())?;
            b.add_ingredient_from_stream(json!({"title": "i", "relationship": "componentOf"}).to_string(), &op.fmt, &mut Cursor::new(op.data.clone()))?;
            Ok(json!({"ingredients": 1}))
        }
        _ => panic!("op"),
    }
}

/// mode: None = observe only; Some(("false", k)) callback returns false at k; Some(("cancel", k)) cancel() from another thread at k
fn one_run(op: &OpSpec, mode: Option<(&str, usize)>) -> Value {
    let events: Arc<Mutex<Vec<Value>>> = Arc::new(Mutex::new(vec![]));
    let count = Arc::new(AtomicUsize::new(0));
    let (park_tx, park_rx) = mpsc::channel::<()>();
    let (ack_tx, ack_rx) = mpsc::channel::<()>();
    let ack_rx = Mutex::new(ack_rx);
    let park_tx = Mutex::new(park_tx);
    let ev2 = events.clone();
    let cnt2 = count.clone();
    let m = mode.map(|(a, b)| (a.to_string(), b));
    let m2 = m.clone();
    let settings = try_settings(&op.settings);
    let c = match settings.and_then(|s| Context::new().with_settings(s)) {
        Ok(c) => c,
        Err(e) => return json!({"events": [], "outcome": format!("SetupErr:{}", err_kind(&e))}),
    };
    let c = c.with_progress_callback(move |phase, step, total| {
        let n = cnt2.fetch_add(1, Ordering::SeqCst) + 1;
        let mut ret = true;
        if let Some((kind, k)) = &m2 {
            if n == *k {
                if kind == "false" {
                    ret = false;
                } else {
                    // park: ask the canceller thread to call Context::cancel(), wait until it has returned
                    park_tx.lock().unwrap().send(()).ok();
                    ack_rx.lock().unwrap().recv().ok();
                }
            }
        }
        ev2.lock().unwrap().push(json!({"n": n, "phase": format!("{phase:?}"), "step": step, "total": total, "ret": ret}));
        ret
    }).into_shared();
    let c2 = c.clone();
    let canceller = if matches!(&m, Some((k, _)) if k == "cancel") {
        Some(std::thread::spawn(move || {
            if park_rx.recv().is_ok() {
                c2.cancel();
                ack_tx.send(()).ok();
            }
        }))
    } else { drop(park_rx); None };
    let r = catch(std::panic::AssertUnwindSafe(|| run_op(op, &c)));
    drop(c);
    if let Some(h) = canceller {
        // the op may finish before invocation k is reached; the canceller then sees the channel close
        let _ = h.join();
    }
    let outcome = match r {
        Ok(Ok(v)) => json!({"kind": "Ok", "detail": v}),
        Ok(Err(c2pa::Error::OperationCancelled)) => json!({"kind": "Cancelled"}),
        Ok(Err(e)) => json!({"kind": "Err", "detail": err_kind(&e), "msg": format!("{e}").chars().take(160).collect::<String>()}),
        Err(p) => json!({"kind": "Panic", "detail": p}),
    };
    let ev = events.lock().unwrap().clone();
    json!({"events": ev, "outcome": outcome})
}

pub fn ops(tier_thorough: bool) -> Vec<OpSpec> {
    let mut v = vec![];
    let fmts: Vec<(&str, &str)> = if tier_thorough {
        vec![("image/jpeg", "no_manifest.jpg"), ("image/png", "libpng-test.png"), ("video/mp4", "video1_no_manifest.mp4"), ("image/gif", "sample1.gif"),
             ("image/webp", "sample1.webp"), ("image/tiff", "TUSCANY.TIF"), ("image/svg+xml", "sample1.svg"), ("audio/wav", "sample1.wav")]
    } else {
        vec![("image/jpeg", "no_manifest.jpg"), ("image/png", "libpng-test.png"), ("video/mp4", "video1_no_manifest.mp4")]
    };
    for (fmt, fx) in fmts {
        let src = fixture(fx);
        let none = Value::Null;
        v.push(OpSpec { name: "sign".into(), fmt: fmt.into(), data: src.clone(), sidecar: None, settings: none.clone() });
        if let Ok(signed) = sign_bytes(ctx(&Value::Null), &simple_manifest_json("c23 base", fmt), fmt, &src, "ed25519") {
            v.push(OpSpec { name: "read".into(), fmt: fmt.into(), data: signed.clone(), sidecar: None, settings: none.clone() });
            v.push(OpSpec { name: "ingredient".into(), fmt: fmt.into(), data: signed.clone(), sidecar: None, settings: none.clone() });
            v.push(OpSpec { name: "sign_with_ingredient".into(), fmt: fmt.into(), data: src.clone(), sidecar: Some(signed.clone()), settings: none.clone() });
            if fmt != "video/mp4" {
                // box-hash binding (selected by compressed manifests)
                let bh = json!({"core": {"prefer_compress_manifests": true}});
                if let Ok(signed_bh) = sign_bytes(ctx(&bh), &simple_manifest_json("c23 bh", fmt), fmt, &src, "ed25519") {
                    v.push(OpSpec { name: "read".into(), fmt: fmt.into(), data: signed_bh, sidecar: None, settings: bh.clone() });
                }
                v.push(OpSpec { name: "sign".into(), fmt: fmt.into(), data: src.clone(), sidecar: None, settings: bh });
            }
            if fmt == "video/mp4" {
                // BMFF hash with a Merkle map (file-level hash + per-mdat Merkle passes)
                let mk = json!({"core": {"merkle_tree_chunk_size_in_kb": 64}});
                if let Ok(signed_mk) = sign_bytes(ctx(&mk), &simple_manifest_json("c23 merkle", fmt), fmt, &src, "ed25519") {
                    v.push(OpSpec { name: "read".into(), fmt: fmt.into(), data: signed_mk.clone(), sidecar: None, settings: mk.clone() });
                    v.push(OpSpec { name: "ingredient".into(), fmt: fmt.into(), data: signed_mk, sidecar: None, settings: mk.clone() });
                }
                v.push(OpSpec { name: "sign".into(), fmt: fmt.into(), data: src.clone(), sidecar: None, settings: mk });
            }
            // sidecar read: manifest store bytes + the signed asset
            if let Ok(store) = c2pa::jumbf_io::load_jumbf_from_memory(fmt, &signed) {
                v.push(OpSpec { name: "read_sidecar".into(), fmt: fmt.into(), data: signed.clone(), sidecar: Some(store), settings: none.clone() });
            }
        }
    }
    v
}

pub fn record(args: &[String]) {
    let thorough = args.iter().any(|a| a == "--thorough");
    let stride = arg_u64(args, "--stride", 1) as usize;
    let mut out = Out::new();
    for (oi, op) in ops(thorough).iter().enumerate() {
        let base = one_run(op, None);
        let n = base["events"].as_array().map(|a| a.len()).unwrap_or(0);
        let tag = json!({"op": op.name, "fmt": op.fmt, "settings": op.settings, "opi": oi});
        out.emit(&json!({"run": tag, "mode": "observe", "k": 0, "events": base["events"], "outcome": base["outcome"]}));
        let mut k = 1;
        while k <= n {
            for mode in ["false", "cancel"] {
                let r = one_run(op, Some((mode, k)));
                out.emit(&json!({"run": tag, "mode": mode, "k": k, "events": r["events"], "outcome": r["outcome"]}));
            }
            k += if n > 60 && k > 12 && k + 12 < n { stride } else { 1 };
        }
    }
}
