//! C34 -- labels / JUMBF URIs: replay of the part-class combinations enumerated by TLC (MC_Labels) through the
//! real jumbf::labels helpers (hook) and Claim::{assertion_label_from_link, label_with_instance}.
use c2pa::verif_hooks::labels as L;
use rand::{rngs::StdRng, Rng, SeedableRng};
use serde_json::{json, Value};

use crate::common::*;

fn word(rng: &mut StdRng, n: usize) -> String {
    (0..n).map(|_| (b'a' + rng.gen_range(0..26)) as char).collect()
}
fn uuid(rng: &mut StdRng) -> String {
    let h = |rng: &mut StdRng, n: usize| -> String { (0..n).map(|_| format!("{:x}", rng.gen_range(0..16))).collect() };
    format!("{}-{}-4{}-{}-{}", h(rng, 8), h(rng, 4), h(rng, 3), h(rng, 4), h(rng, 12))
}
fn toks(v: &Value, rng: &mut StdRng) -> Option<String> {
    let a = v.as_array()?;
    if a.is_empty() {
        return None;
    }
    let mut s = String::new();
    for t in a {
        let t = t.as_str().unwrap();
        match t {
            "_" | "." | "-" => s.push_str(t),
            "vend" | "my" | "vendor" | "a" | "b" | "c" => { let n = rng.gen_range(1..8); s.push_str(&word(rng, n)) }
            "v32" => s.push_str(&word(rng, 32)),
            "d4" => s.push_str(&format!("{}", rng.gen_range(1000..10000))),
            "d2" => s.push_str(&format!("{}", rng.gen_range(10..100))),
            "d1" => s.push_str(&format!("{}", rng.gen_range(0..10))),
            "9d" => { s.push_str(&format!("{}", rng.gen_range(0..10))); s.push_str(&word(rng, 3)) }
            other => s.push_str(other),
        }
    }
    Some(s)
}
fn num(v: &Value, rng: &mut StdRng) -> Option<usize> {
    match v.as_str()? {
        "none" => None,
        "0" => Some(0),
        "1" => Some(1),
        "12" => Some(rng.gen_range(10..1000)),
        "3" => Some(rng.gen_range(2..10)),
        "27" => Some(rng.gen_range(2..500)),
        _ => None,
    }
}

pub fn replay(args: &[String]) {
    let seed = arg_u64(args, "--seed", 1);
    let k = arg_u64(args, "--k", 3);
    let mut rng = StdRng::seed_from_u64(seed ^ 0xC34);
    let mut out = Out::new();
    for (idx, v) in read_ndjson_stdin().into_iter().enumerate() {
        let mut fails = vec![];
        for _ in 0..k {
            let p = &v["p"];
            let parts = L::Parts {
                guid: uuid(&mut rng),
                is_v1: p["v1"].as_bool().unwrap(),
                cgi: toks(&p["cgi"], &mut rng),
                version: num(&p["version"], &mut rng),
                reason: num(&p["reason"], &mut rng),
            };
            let r = catch(std::panic::AssertUnwindSafe(|| {
                let mut f: Vec<Value> = vec![];
                let label = L::parts_to_label(&parts);
                let back = L::manifest_label_to_parts(&label);
                if back.as_ref() != Some(&parts) {
                    f.push(json!({"law": "label-parts", "label": label, "got": format!("{back:?}"), "want": format!("{parts:?}")}));
                }
                // parsing through a URI that carries the label must give the same parts
                let back2 = L::manifest_label_to_parts(&L::to_manifest_uri(&label));
                if back2.as_ref() != Some(&parts) {
                    f.push(json!({"law": "label-parts-via-uri", "label": label, "got": format!("{back2:?}")}));
                }
                let base = toks(&v["base"], &mut StdRng::seed_from_u64(1)).unwrap();
                let inst = num(&v["inst"], &mut rng).unwrap_or(0);
                let ext = v["ext"].as_str().filter(|s| *s != "none");
                let full_base = match ext { Some(e) => format!("{base}.{e}"), None => base.clone() };
                let a = L::label_with_instance(&full_base, inst);
                let au = L::to_assertion_uri(&label, &a);
                let chk = |f: &mut Vec<Value>, law: &str, got: Option<String>, want: &str| {
                    if got.as_deref() != Some(want) {
                        f.push(json!({"law": law, "uri_label": label, "assertion": a, "got": got, "want": want}));
                    }
                };
                chk(&mut f, "manifest-from-manifest-uri", L::manifest_label_from_uri(&L::to_manifest_uri(&label)), &label);
                chk(&mut f, "manifest-from-assertion-uri", L::manifest_label_from_uri(&au), &label);
                chk(&mut f, "assertion-from-assertion-uri", L::assertion_label_from_uri(&au), &a);
                let su = L::to_signature_uri(&label);
                chk(&mut f, "manifest-from-signature-uri", L::manifest_label_from_uri(&su), &label);
                chk(&mut f, "box-from-signature-uri", L::box_name_from_uri(&su), "c2pa.signature");
                let du = L::to_databox_uri(&label, &a);
                chk(&mut f, "manifest-from-databox-uri", L::manifest_label_from_uri(&du), &label);
                chk(&mut f, "label-from-databox-uri", L::assertion_label_from_uri(&du), &a);
                let cu = L::to_verifiable_credential_uri(&label, &a);
                chk(&mut f, "manifest-from-credential-uri", L::manifest_label_from_uri(&cu), &label);
                chk(&mut f, "box-from-credential-uri", L::box_name_from_uri(&cu), &a);
                let rel = L::to_relative_uri(&au);
                chk(&mut f, "absolute-of-relative", Some(L::to_absolute_uri(&label, &rel)), &au);
                chk(&mut f, "assertion-from-relative-uri", L::assertion_label_from_uri(&rel), &a);
                let (l2, i2) = L::assertion_label_from_link(&au);
                if l2 != full_base || i2 != inst {
                    f.push(json!({"law": "instance-from-link", "assertion": a, "got": [l2, i2], "want": [full_base, inst]}));
                }
                let (l3, i3) = L::assertion_label_from_link(&rel);
                if l3 != full_base || i3 != inst {
                    f.push(json!({"law": "instance-from-relative-link", "assertion": a, "got": [l3, i3], "want": [full_base, inst]}));
                }
                // public assertions::labels agree on base/version/instance for non-thumbnail labels
                if ext.is_none() {
                    if c2pa::assertions::labels::instance(&a) != inst {
                        f.push(json!({"law": "labels-instance", "assertion": a, "got": c2pa::assertions::labels::instance(&a), "want": inst}));
                    }
                }
                f
            }));
            match r {
                Ok(f) => fails.extend(f),
                Err(p) => fails.push(json!({"law": "panic", "panic": p, "parts": format!("{parts:?}")})),
            }
        }
        out.emit(&json!({"i": idx, "fails": fails}));
    }
}
