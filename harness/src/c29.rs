//! C29 -- resource files confined to the manifest directory: the identifier x base x operation cases enumerated by
//! TLC (MC_ResourceFs) are run against a real directory tree (same table as spec/ResourceFs.tla, real symlinks) through
//! the public ResourceStore; a before/after snapshot of the whole area locates every created or modified file.
use std::collections::BTreeMap;
use std::io::Cursor;
use std::path::{Path, PathBuf};

use c2pa::ResourceStore;
use serde_json::{json, Value};

use crate::common::*;

fn build_tree(area: &Path) {
    let d = |p: &str| std::fs::create_dir_all(area.join(p)).unwrap();
    let f = |p: &str, c: &str| std::fs::write(area.join(p), c).unwrap();
    let l = |p: &str, t: &str| std::os::unix::fs::symlink(t, area.join(p)).unwrap();
    d("root/sub/deep"); d("outside/dir");
    f("root/a.txt", "A"); f("root/sub/b.txt", "B"); f("root/sub/deep/c.txt", "C");
    f("outside/secret.txt", "S"); f("outside/dir/t.txt", "T");
    l("root/link_in", "sub"); l("root/link_out", "../outside"); l("root/link_file_out", "../outside/secret.txt");
    l("root/chain", "link_out"); l("root/dangling", "nowhere/x"); l("root/sub/up_out", "../../outside/dir");
}

/// snapshot without following symlinks: relative path -> (kind, content)
fn snapshot(area: &Path) -> BTreeMap<String, String> {
    fn walk(dir: &Path, area: &Path, out: &mut BTreeMap<String, String>) {
        if let Ok(rd) = std::fs::read_dir(dir) {
            for e in rd.flatten() {
                let p = e.path();
                let rel = p.strip_prefix(area).unwrap().to_string_lossy().to_string();
                let md = std::fs::symlink_metadata(&p).unwrap();
                if md.file_type().is_symlink() {
                    out.insert(rel, format!("link:{}", std::fs::read_link(&p).unwrap().to_string_lossy()));
                } else if md.is_dir() {
                    out.insert(rel, "dir".into());
                    walk(&p, area, out);
                } else {
                    out.insert(rel, format!("file:{}", String::from_utf8_lossy(&std::fs::read(&p).unwrap_or_default())));
                }
            }
        }
    }
    let mut m = BTreeMap::new();
    walk(area, area, &mut m);
    m
}

fn concrete_id(id: &Value, area: &Path) -> String {
    let comps: Vec<String> = id.as_array().unwrap().iter().map(|c| match c.as_str().unwrap() {
        "ABS" => area.join("outside").to_string_lossy().to_string(),
        "ENC" => "%2e%2e".to_string(),
        "BSL" => "..\\outside\\secret.txt".to_string(),
        o => o.to_string(),
    }).collect();
    comps.join("/")
}

pub fn replay(_args: &[String]) {
    let tmp = tempfile::tempdir().unwrap();
    let mut out = Out::new();
    let ro_area = tmp.path().join("ro");
    std::fs::create_dir_all(&ro_area).unwrap();
    build_tree(&ro_area);
    let ro_snap = snapshot(&ro_area);
    let mut n_area = 0usize;
    for v in read_ndjson_stdin() {
        let op = v["op"].as_str().unwrap();
        let mutating = op == "add";
        let area: PathBuf = if mutating {
            n_area += 1;
            let a = tmp.path().join(format!("w{n_area}"));
            std::fs::create_dir_all(&a).unwrap();
            build_tree(&a);
            a
        } else { ro_area.clone() };
        let base: PathBuf = v["base"].as_array().unwrap().iter().fold(area.clone(), |p, c| p.join(c.as_str().unwrap()));
        let id = concrete_id(&v["id"], &area);
        let before = if mutating { snapshot(&area) } else { ro_snap.clone() };
        let mut store = ResourceStore::new();
        store.set_base_path(base.clone());
        store.set_resource_root(area.join("root"));
        let r = catch(std::panic::AssertUnwindSafe(|| -> (String, String, Value) {
            match op {
                "add" => match store.add(id.clone(), b"NEW".to_vec()) { Ok(_) => ("ok".into(), "-".into(), Value::Null), Err(e) => (format!("err:{}", err_kind(&e)), "-".into(), Value::Null) },
                "get" => match store.get(&id) { Ok(b) => ("ok".into(), String::from_utf8_lossy(&b).to_string(), Value::Null), Err(e) => (format!("err:{}", err_kind(&e)), "-".into(), Value::Null) },
                "write_stream" => { let mut c = Cursor::new(Vec::new()); match store.write_stream(&id, &mut c) { Ok(_) => ("ok".into(), String::from_utf8_lossy(c.get_ref()).to_string(), Value::Null), Err(e) => (format!("err:{}", err_kind(&e)), "-".into(), Value::Null) } }
                "exists" => (store.exists(&id).to_string(), "-".into(), Value::Null),
                _ => match store.path_for_id(&id) { Some(p) => ("some".into(), "-".into(), json!(p.to_string_lossy())), None => ("none".into(), "-".into(), Value::Null) },
            }
        }));
        let (result, content, path) = match r { Ok(t) => t, Err(p) => (format!("panic:{p}"), "-".into(), Value::Null) };
        let after = snapshot(&area);
        let mut touched: Vec<Vec<String>> = vec![];
        for (k, val) in &after {
            if before.get(k) != Some(val) { touched.push(k.split('/').map(|s| s.to_string()).collect()); }
        }
        for k in before.keys() {
            if !after.contains_key(k) { touched.push(k.split('/').map(|s| s.to_string()).collect()); }
        }
        if mutating { let _ = std::fs::remove_dir_all(&area); }
        let content_tok = if ["A", "B", "C", "S", "T"].contains(&content.as_str()) { content.clone() } else { "-".to_string() };
        out.emit(&json!({"op": op, "base": v["base"], "id": v["id"], "concrete": id, "result": result, "content": content_tok,
                         "raw_content": content, "touched": touched, "path": path}));
    }
}
