//! C30 -- remote manifest references through XMP: URL token vectors (MC_XmpRef) are concretised, embedded with
//! set_remote_url + set_no_embed and read back with fetching disabled; the URL carried by Error::RemoteManifestUrl must
//! equal the embedded one.  For assets that already carry XMP, the pre-existing properties must survive.
use std::collections::BTreeMap;
use std::io::Cursor;

use c2pa::{Builder, Reader};
use rand::{rngs::StdRng, Rng, SeedableRng};
use serde_json::{json, Value};

use crate::common::*;

fn tok(t: &str, rng: &mut StdRng) -> String {
    match t {
        "plain" => ["abc", "store/x1", "m.c2pa", "a-b_c.d~e"][rng.gen_range(0..4)].to_string(),
        "amp" => "&".into(), "lt" => "<".into(), "gt" => ">".into(), "quot" => "\"".into(), "apos" => "'".into(),
        "pct" => ["%20", "%2F", "%26", "%25"][rng.gen_range(0..4)].to_string(),
        "hash" => "#frag".into(), "qm" => "?q".into(), "eq" => "=v".into(), "space" => " ".into(),
        "nonascii" => ["é", "日本", "ß"][rng.gen_range(0..3)].to_string(),
        "entamp" => "&amp;".into(),
        o => o.to_string(),
    }
}

/// independent, minimal scan of the first XMP packet in a file: attribute and simple element properties of rdf:Description
pub fn xmp_props(data: &[u8]) -> Option<BTreeMap<String, String>> {
    let s = String::from_utf8_lossy(data);
    let a = s.find("<x:xmpmeta")?;
    let b = s[a..].find("</x:xmpmeta>")? + a;
    let x = &s[a..b];
    let d = x.find("<rdf:Description")?;
    let end = x[d..].find('>')? + d;
    let tag = &x[d + "<rdf:Description".len()..end];
    let mut m = BTreeMap::new();
    let bytes = tag.as_bytes();
    let mut i = 0;
    while i < bytes.len() {
        while i < bytes.len() && (bytes[i] as char).is_whitespace() { i += 1; }
        let ks = i;
        while i < bytes.len() && bytes[i] != b'=' && !(bytes[i] as char).is_whitespace() { i += 1; }
        if i >= bytes.len() || bytes[i] != b'=' { break; }
        let key = tag[ks..i].to_string();
        i += 1;
        if i >= bytes.len() { break; }
        let q = bytes[i];
        if q != b'"' && q != b'\'' { break; }
        i += 1;
        let vs = i;
        while i < bytes.len() && bytes[i] != q { i += 1; }
        m.insert(key, tag[vs..i.min(tag.len())].to_string());
        i += 1;
    }
    // simple child elements <ns:name>text</ns:name>
    let body = &x[end + 1..];
    let mut p = 0;
    while let Some(o) = body[p..].find('<') {
        let st = p + o;
        if body[st..].starts_with("</") || body[st..].starts_with("<rdf:") || body[st..].starts_with("<?") { p = st + 1; continue; }
        let Some(ne) = body[st..].find('>') else { break };
        let name = body[st + 1..st + ne].split_whitespace().next().unwrap_or("").to_string();
        if name.ends_with('/') || name.is_empty() { p = st + ne; continue; }
        let close = format!("</{name}>");
        if let Some(c) = body[st + ne..].find(&close) {
            let text = &body[st + ne + 1..st + ne + c];
            if !text.contains('<') { m.insert(name, text.trim().to_string()); }
            p = st + ne + c;
        } else { p = st + ne; }
    }
    Some(m)
}

pub fn replay(args: &[String]) {
    let seed = arg_u64(args, "--seed", 1);
    let fmts: Vec<String> = arg(args, "--formats").unwrap_or("jpg,png".into()).split(',').map(|s| s.to_string()).collect();
    let mut rng = StdRng::seed_from_u64(seed ^ 0xC30);
    let vectors = read_ndjson_stdin();
    let mut out = Out::new();
    for f in &fmts {
        let (fmt, fx) = match f.as_str() {
            "jpg" => ("image/jpeg", "no_manifest.jpg"), "jpgx" => ("image/jpeg", "IMG_0003.jpg"), "png" => ("image/png", "libpng-test.png"), "webp" => ("image/webp", "sample1.webp"),
            "webpx" => ("image/webp", "test_xmp.webp"), "gif" => ("image/gif", "sample1.gif"), "svg" => ("image/svg+xml", "sample1.svg"), "tiff" => ("image/tiff", "TUSCANY.TIF"),
            "mp4" => ("video/mp4", "video1_no_manifest.mp4"), "wav" => ("audio/wav", "sample1.wav"), "mp3" => ("audio/mpeg", "sample1.mp3"), "jxl" => ("image/jxl", "sample1.jxl"),
            _ => continue,
        };
        let src = fixture(fx);
        let before = xmp_props(&src);
        for v in &vectors {
            let url_tail: String = v["url"].as_array().unwrap().iter().map(|t| tok(t.as_str().unwrap(), &mut rng)).collect();
            let url = format!("https://manifests.example/{}", url_tail);
            let r = catch(std::panic::AssertUnwindSafe(|| -> Result<Value, c2pa::Error> {
                let mut b = Builder::from_context(ctx(&Value::Null)).with_definition(simple_manifest_json("c30", fmt).to_string().as_str())?;
                b.set_remote_url(url.clone());
                b.set_no_embed(true);
                let s = signer("ed25519");
                let mut o = Cursor::new(Vec::new());
                b.sign(s.as_ref(), fmt, &mut Cursor::new(src.clone()), &mut o)?;
                let signed = o.into_inner();
                let c = ctx(&json!({"verify": {"remote_manifest_fetch": false}}));
                let got = match Reader::from_context(c).with_stream(fmt, Cursor::new(signed.clone())) {
                    Err(c2pa::Error::RemoteManifestUrl(u)) => {
                        // equivalence modulo URL normalisation (characters that are not legal in a URL get percent-encoded)
                        let ne = match (url::Url::parse(&u), url::Url::parse(&url)) { (Ok(a), Ok(b)) => a == b, _ => false };
                        json!({"kind": "url", "url": u, "norm_equal": ne})
                    }
                    Err(e) => json!({"kind": format!("Err:{}", err_kind(&e))}),
                    Ok(r) => json!({"kind": "Ok", "state": state_str(&r)}),
                };
                let after = xmp_props(&signed);
                let mut lost = vec![];
                if let (Some(b), Some(a)) = (&before, &after) {
                    for (k, val) in b {
                        if k == "dcterms:provenance" || k == "xmlns:dcterms" { continue; }
                        if a.get(k) != Some(val) { lost.push(json!({"prop": k, "before": val, "after": a.get(k)})); }
                    }
                }
                Ok(json!({"sign": "Ok", "got": got, "had_xmp": before.is_some(), "n_props": before.as_ref().map(|m| m.len()).unwrap_or(0), "xmp_after": after.is_some(), "lost": lost}))
            }));
            let obs = match r {
                Ok(Ok(v)) => v,
                Ok(Err(e)) => json!({"sign": format!("Err:{}", err_kind(&e)), "msg": format!("{e}").chars().take(160).collect::<String>()}),
                Err(p) => json!({"sign": "Panic", "msg": p}),
            };
            out.emit(&json!({"format": f, "tokens": v["url"], "url": url, "obs": obs}));
        }
    }
}
