//! C13 -- range hashing bindings.
//!  replay: TLC vectors {len, excl, rs} x every chunk size through the hook (configurable max_hash_buf,
//!          which drives the reader/worker hand-off schedule); emits digests.
//!  record: seeded random cases through the public hash_stream_by_alg; emits inputs + digests.
use std::io::Cursor;

use c2pa::{hash_stream_by_alg, HashRange};
use rand::{rngs::StdRng, Rng, SeedableRng};
use serde_json::{json, Value};
use sha2::{Digest, Sha256};

use crate::common::*;

/// Deterministic content shared with the python driver: SHA-256(cseed_le8 || counter_le8) blocks.
pub fn content(cseed: u64, len: usize) -> Vec<u8> {
    let mut out = Vec::with_capacity(len + 32);
    let mut ctr: u64 = 0;
    while out.len() < len {
        let mut h = Sha256::new();
        h.update(cseed.to_le_bytes());
        h.update(ctr.to_le_bytes());
        out.extend_from_slice(&h.finalize());
        ctr += 1;
    }
    out.truncate(len);
    out
}

fn ranges_of(v: &Value) -> Vec<HashRange> {
    v.as_array()
        .map(|a| {
            a.iter()
                .map(|r| {
                    let start = r["start"].as_u64().or_else(|| r["start"].as_str().and_then(|s| s.parse().ok())).unwrap();
                    let length = r["length"].as_u64().or_else(|| r["length"].as_str().and_then(|s| s.parse().ok())).unwrap();
                    let mut h = HashRange::new(start, length);
                    if r["marker"].as_bool().unwrap_or(false) {
                        let moff = r["moff"].as_u64().or_else(|| r["moff"].as_str().and_then(|s| s.parse().ok())).unwrap_or(start);
                        h.set_bmff_offset(moff);
                    }
                    h
                })
                .collect()
        })
        .unwrap_or_default()
}

fn outcome(r: Result<c2pa::Result<Vec<u8>>, String>) -> Value {
    match r {
        Ok(Ok(d)) => json!(hex::encode(d)),
        Ok(Err(e)) => json!(format!("Err:{}", err_kind(&e))),
        Err(p) => json!(format!("Panic:{p}")),
    }
}

pub fn replay(args: &[String]) {
    let algs: Vec<String> = arg(args, "--algs").unwrap_or("sha256".into()).split(',').map(|s| s.to_string()).collect();
    let mut out = Out::new();
    for (i, v) in read_ndjson_stdin().into_iter().enumerate() {
        let len = v["len"].as_u64().unwrap() as usize;
        let excl = v["excl"].as_bool().unwrap();
        let data = content(len as u64, len);
        let mut results = vec![];
        for alg in &algs {
            for chunk in 1..=(len.max(1) + 1) {
                let rs = ranges_of(&v["rs"]);
                let hr = if rs.is_empty() && excl { None } else { Some(rs) };
                let mut ticks: Vec<(u32, u32)> = vec![];
                let d = data.clone();
                let r = catch(std::panic::AssertUnwindSafe(|| {
                    let mut cur = Cursor::new(d);
                    c2pa::verif_hooks::hash_stream_chunked(alg, &mut cur, hr, excl, chunk, &mut |a, b| {
                        ticks.push((a, b));
                        Ok(())
                    })
                }));
                // progress grammar (C23 shares this site): steps positive, increasing, never above a non-zero total
                let mut grammar_ok = true;
                let mut last = 0;
                for (a, b) in &ticks {
                    if *a == 0 || *a <= last || (*b != 0 && a > b) {
                        grammar_ok = false;
                    }
                    last = *a;
                }
                results.push(json!({"alg": alg, "chunk": chunk, "r": outcome(r), "ticks": ticks.len(), "grammar_ok": grammar_ok}));
            }
        }
        out.emit(&json!({"i": i, "results": results}));
    }
}

pub fn record(args: &[String]) {
    let seed = arg_u64(args, "--seed", 1);
    let n = arg_u64(args, "--n", 1000);
    let mut rng = StdRng::seed_from_u64(seed ^ 0xC13);
    let mut out = Out::new();
    let algs = ["sha256", "sha384", "sha512"];
    for i in 0..n {
        let len: usize = match rng.gen_range(0..10) {
            0 => rng.gen_range(0..4),
            1..=4 => rng.gen_range(1..64),
            _ => rng.gen_range(1..4097),
        };
        let excl = rng.gen_bool(0.65);
        let nr = rng.gen_range(0..7);
        let mut rs = vec![];
        let mut used_starts = std::collections::HashSet::new();
        for _ in 0..nr {
            let class = rng.gen_range(0..20);
            let l64 = len as u64;
            let mut moff: u64 = 0;
            let (start, length, marker): (u64, u64, bool) = match class {
                0 => (rng.gen_range(0..=l64), 0, false),                                    // empty
                1 => (rng.gen_range(0..=l64 + 3), rng.gen_range(0..=l64 + 3), false),       // maybe past end
                2 => (u64::MAX - rng.gen_range(0..3), rng.gen_range(0..3), false),          // u64 extremes
                3 => (rng.gen_range(0..=l64), u64::MAX - rng.gen_range(0..3), false),
                4 | 5 if excl && len > 0 => (rng.gen_range(0..l64), 1, true),               // BMFF marker inside the data
                6 => (0, rng.gen_range(0..=l64), false),                                    // prefix
                7 if len > 0 => { let s = rng.gen_range(0..l64); (s, l64 - s, false) }      // suffix (reaches exactly the end)
                _ => {
                    if len == 0 { (0, 0, false) } else {
                        let s = rng.gen_range(0..l64);
                        let max = (l64 - s).min(1 + l64 / 3);
                        (s, rng.gen_range(0..=max), false)
                    }
                }
            };
            if !excl && !used_starts.insert(start) {
                continue; // keep inclusion starts distinct (order of equal starts is unspecified)
            }
            let mut marker = marker;
            if marker {
                moff = start;
            } else if !excl && len > 0 && rng.gen_bool(0.35) {
                // inclusion range carrying a BMFF offset (offsets deliberately unrelated to range order)
                marker = true;
                moff = rng.gen_range(0..(len as u64 + 50));
            }
            rs.push(json!({"start": start.to_string(), "length": length.to_string(), "marker": marker, "moff": moff.to_string()}));
        }
        if rng.gen_bool(0.3) {
            // adjacent pair
            if len > 4 && excl {
                let s = rng.gen_range(0..(len as u64 - 3));
                rs.push(json!({"start": s.to_string(), "length": "1", "marker": false, "moff": "0"}));
                rs.push(json!({"start": (s + 1).to_string(), "length": "2", "marker": false, "moff": "0"}));
            }
        }
        let alg = algs[rng.gen_range(0..3)];
        let cseed = rng.gen_range(0..1000u64);
        let data = content(cseed, len);
        let rsv = Value::Array(rs.clone());
        let hr = ranges_of(&rsv);
        let hr = if hr.is_empty() && rng.gen_bool(0.5) && excl { None } else { Some(hr) };
        let r = catch(std::panic::AssertUnwindSafe(|| {
            let mut cur = Cursor::new(data);
            hash_stream_by_alg(alg, &mut cur, hr, excl)
        }));
        out.emit(&json!({"i": i, "len": len, "cseed": cseed, "excl": excl, "rs": rs, "alg": alg, "r": outcome(r)}));
    }
}
