//! C16 -- Merkle proofs: real tree (hook) + public MerkleMap::check_merkle_tree.
//! For each (n, maxp): build the real tree over random leaves, store the row the SDK stores, generate the
//! proof for selected leaves and record accept/reject of the verifier for: the right leaf, wrong leaves,
//! wrong indices, a replaced / dropped proof element, and proof = None.
use c2pa::assertions::{MerkleMap, VecByteBuf};
use c2pa::verif_hooks::{C2PAMerkleTree, MerkleNode};
use rand::{rngs::StdRng, Rng, SeedableRng};
use serde_json::json;

use crate::common::*;

fn bb(v: &[u8]) -> serde_bytes::ByteBuf {
    serde_bytes::ByteBuf::from(v.to_vec())
}

pub fn record(args: &[String]) {
    let seed = arg_u64(args, "--seed", 1);
    let mut rng = StdRng::seed_from_u64(seed ^ 0xC16);
    let mut out = Out::new();
    for v in read_ndjson_stdin() {
        let n = v["n"].as_u64().unwrap() as usize;
        let maxp = v["maxp"].as_u64().unwrap() as usize;
        let all_idx = v["all"].as_bool().unwrap_or(false);
        let alg = v["alg"].as_str().unwrap_or("sha256");
        let hlen = match alg { "sha384" => 48, "sha512" => 64, _ => 32 };
        // leaves are already-hashed values (hash_leaves = false), distinct random
        let leaves: Vec<MerkleNode> = (0..n).map(|_| MerkleNode((0..hlen).map(|_| rng.gen::<u8>()).collect())).collect();
        let tree = C2PAMerkleTree::from_leaves(leaves.clone(), alg, false);
        let tree_row = std::cmp::min(maxp, tree.layers.len() - 1);
        let hashes: Vec<serde_bytes::ByteBuf> = tree.layers[tree_row].iter().map(|m| bb(&m.0)).collect();
        let mm = MerkleMap {
            unique_id: 0, local_id: 0, count: n, alg: Some(alg.to_string()), init_hash: None,
            hashes: VecByteBuf(hashes), fixed_block_size: None, variable_block_sizes: None,
        };
        let idxs: Vec<usize> = if all_idx || n <= 12 { (0..n).collect() } else {
            let mut s: Vec<usize> = vec![0, 1, n / 2, n - 2, n - 1];
            for _ in 0..6 { s.push(rng.gen_range(0..n)); }
            s.sort(); s.dedup(); s
        };
        let mut checks = vec![];
        let mut panicked = None;
        for &i in &idxs {
            let r = catch(std::panic::AssertUnwindSafe(|| {
                let mut cs = vec![];
                let proof = tree.get_proof_by_index(i, maxp).expect("proof");
                let pv = |p: &Vec<Vec<u8>>| Some(VecByteBuf(p.iter().map(|x| bb(x)).collect()));
                cs.push(json!([i, "ok", 0, mm.check_merkle_tree(alg, &leaves[i].0, i, &pv(&proof))]));
                cs.push(json!([i, "none", 0, mm.check_merkle_tree(alg, &leaves[i].0, i, &None)]));
                // wrong leaves / wrong indices: neighbours, sibling, a far one
                let mut others: Vec<usize> = vec![i ^ 1, i.wrapping_sub(1), i + 1, i + 2, 0, n - 1, n / 2, i / 2, i * 2, i * 2 + 1];
                others.retain(|&j| j < n && j != i);
                others.sort(); others.dedup();
                for &j in &others {
                    cs.push(json!([i, "leaf", j, mm.check_merkle_tree(alg, &leaves[j].0, i, &pv(&proof))]));
                    cs.push(json!([i, "index", j, mm.check_merkle_tree(alg, &leaves[i].0, j, &pv(&proof))]));
                }
                // locations outside the tree
                for j in [n, n + 1, 2 * n + 1, i + n] {
                    cs.push(json!([i, "index", j, mm.check_merkle_tree(alg, &leaves[i].0, j, &pv(&proof))]));
                }
                for k in 0..proof.len() {
                    let mut p2 = proof.clone();
                    p2[k] = vec![0x4a; hlen];
                    cs.push(json!([i, "replace", k + 1, mm.check_merkle_tree(alg, &leaves[i].0, i, &pv(&p2))]));
                    let mut p3 = proof.clone();
                    p3.remove(k);
                    cs.push(json!([i, "drop", k + 1, mm.check_merkle_tree(alg, &leaves[i].0, i, &pv(&p3))]));
                }
                cs
            }));
            match r {
                Ok(cs) => checks.extend(cs),
                Err(p) => { panicked = Some(json!({"i": i, "panic": p})); break; }
            }
        }
        out.emit(&json!({"n": n, "maxp": maxp, "alg": alg, "checks": checks, "layers": tree.layers.len(),
                         "rowlen": tree.layers[tree_row].len(), "panic": panicked}));
    }
}
