//! C02 -- tamper evidence of the manifest store: stores of really-signed assets (single manifest, parent + component
//! ingredient chains, update manifest) are modified byte by byte and structurally (box swap / duplicate / delete with
//! ancestor sizes fixed up) using the harness' own JUMBF walker, and read back against the unmodified asset.
use std::io::Cursor;

use c2pa::{Builder, Reader};
use rand::{rngs::StdRng, Rng, SeedableRng};
use serde_json::{json, Value};

use crate::common::*;

#[derive(Clone, Debug)]
pub struct JBox { pub off: usize, pub size: usize, pub hdr: usize, pub ty: String, pub label: String, pub depth: usize, pub parent: Option<usize> }

/// independent JUMBF walker: every box with its offset; superboxes ("jumb") are descended; labels come from "jumd"
pub fn walk(d: &[u8]) -> Vec<JBox> {
    fn rec(d: &[u8], start: usize, end: usize, depth: usize, parent: Option<usize>, out: &mut Vec<JBox>) {
        let mut p = start;
        while p + 8 <= end {
            let l = u32::from_be_bytes(d[p..p + 4].try_into().unwrap()) as usize;
            let ty = String::from_utf8_lossy(&d[p + 4..p + 8]).to_string();
            let (hdr, size) = if l == 1 && p + 16 <= end { (16, u64::from_be_bytes(d[p + 8..p + 16].try_into().unwrap()) as usize) } else if l == 0 { (8, end - p) } else { (8, l) };
            if size < hdr || p + size > end { break; }
            let idx = out.len();
            out.push(JBox { off: p, size, hdr, ty: ty.clone(), label: String::new(), depth, parent });
            if ty == "jumb" {
                rec(d, p + hdr, p + size, depth + 1, Some(idx), out);
                // label from the jumd child: uuid(16) toggles(1) then zero-terminated label
                let lbl = out.iter().skip(idx + 1).find(|b| b.parent == Some(idx) && b.ty == "jumd").map(|b| {
                    let s = b.off + b.hdr + 17;
                    let e = d[s.min(d.len())..(b.off + b.size).min(d.len())].iter().position(|c| *c == 0).map(|x| s + x).unwrap_or(s);
                    String::from_utf8_lossy(&d[s.min(d.len())..e.min(d.len())]).to_string()
                }).unwrap_or_default();
                out[idx].label = lbl;
            }
            p += size;
        }
    }
    let mut out = vec![];
    rec(d, 0, d.len(), 0, None, &mut out);
    out
}

/// component class of a byte offset: path of superbox labels down to the innermost box
pub fn class_of(boxes: &[JBox], off: usize) -> String {
    let mut best: Option<usize> = None;
    for (i, b) in boxes.iter().enumerate() {
        if b.off <= off && off < b.off + b.size && best.map(|j| boxes[j].depth <= b.depth).unwrap_or(true) { best = Some(i); }
    }
    let Some(mut i) = best else { return "outside".into() };
    let leaf_ty = boxes[i].ty.clone();
    let in_hdr = off < boxes[i].off + boxes[i].hdr;
    let mut labels = vec![];
    loop {
        if boxes[i].ty == "jumb" { labels.push(boxes[i].label.clone()); }
        match boxes[i].parent { Some(p) => i = p, None => break }
    }
    labels.reverse();
    // generalise manifest labels and assertion instance names
    let path: Vec<String> = labels.iter().enumerate().map(|(k, l)| if k == 1 { "manifest".to_string() } else { l.split("__").next().unwrap_or("").to_string() }).collect();
    format!("{}:{}{}", path.join("/"), leaf_ty, if in_hdr { ":hdr" } else { "" })
}

fn set_size(d: &mut [u8], b: &JBox, new: usize) {
    if b.hdr == 16 { d[b.off + 8..b.off + 16].copy_from_slice(&(new as u64).to_be_bytes()); } else { d[b.off..b.off + 4].copy_from_slice(&(new as u32).to_be_bytes()); }
}

fn sign_chain(depth: usize, with_component: bool, update: bool) -> Option<(Vec<u8>, &'static str)> {
    let fmt = "image/jpeg";
    let src = fixture("no_manifest.jpg");
    let mut cur = sign_bytes(ctx(&Value::Null), &simple_manifest_json("c02 level0", fmt), fmt, &src, "ed25519").ok()?;
    for lvl in 1..=depth {
        let mut b = Builder::from_context(ctx(&Value::Null)).with_definition(simple_manifest_json(&format!("c02 level{lvl}"), fmt).to_string().as_str()).ok()?;
        b.add_ingredient_from_stream(json!({"title": "parent", "relationship": "parentOf"}).to_string(), fmt, &mut Cursor::new(cur.clone())).ok()?;
        if with_component {
            let comp = sign_bytes(ctx(&Value::Null), &simple_manifest_json(&format!("c02 comp{lvl}"), "image/png"), "image/png", &fixture("libpng-test.png"), "es256").ok()?;
            b.add_ingredient_from_stream(json!({"title": "component", "relationship": "componentOf"}).to_string(), "image/png", &mut Cursor::new(comp)).ok()?;
        }
        let s = signer("ed25519");
        let mut o = Cursor::new(Vec::new());
        b.sign(s.as_ref(), fmt, &mut Cursor::new(cur.clone()), &mut o).ok()?;
        cur = o.into_inner();
    }
    if update {
        let mut b = Builder::from_context(ctx(&Value::Null)).with_definition(json!({"title": "c02 update", "claim_generator_info": [{"name": "vh", "version": "0.1"}]}).to_string().as_str()).ok()?;
        b.set_intent(c2pa::BuilderIntent::Update);
        let s = signer("ed25519");
        let mut o = Cursor::new(Vec::new());
        b.sign(s.as_ref(), fmt, &mut Cursor::new(cur.clone()), &mut o).ok()?;
        cur = o.into_inner();
    }
    Some((cur, fmt))
}

fn first_diff(a: &Value, b: &Value, path: String) -> Option<String> {
    match (a, b) {
        (Value::Object(x), Value::Object(y)) => {
            for (k, v) in x { match y.get(k) { Some(w) => if let Some(d) = first_diff(v, w, format!("{path}/{k}")) { return Some(d); }, None => return Some(format!("{path}/{k} (removed)")) } }
            for k in y.keys() { if !x.contains_key(k) { return Some(format!("{path}/{k} (added)")); } }
            None
        }
        (Value::Array(x), Value::Array(y)) => {
            if x.len() != y.len() { return Some(format!("{path} (length {} -> {})", x.len(), y.len())); }
            for (i, (v, w)) in x.iter().zip(y.iter()).enumerate() { if let Some(d) = first_diff(v, w, format!("{path}/{i}")) { return Some(d); } }
            None
        }
        _ => if a == b { None } else { Some(format!("{path}: {} -> {}", a.to_string().chars().take(60).collect::<String>(), b.to_string().chars().take(60).collect::<String>())) },
    }
}

/// parent with two assertions of the same label (label, label__1) plus a third; the child redacts ONLY label__1
pub fn sign_redaction() -> Option<(Vec<u8>, &'static str)> {
    let fmt = "image/jpeg";
    let src = fixture("no_manifest.jpg");
    let mut def = simple_manifest_json("c02 redaction parent", fmt);
    let a = def["assertions"].as_array_mut()?;
    a.push(json!({"label": "org.vh.dup", "data": {"n": 1111, "pad": "aaaaaaaaaaaaaaaaaaaaaaaaaaaaaaaa"}}));
    a.push(json!({"label": "org.vh.dup", "data": {"n": 2222, "pad": "bbbbbbbbbbbbbbbbbbbbbbbbbbbbbbbb"}}));
    let parent = sign_bytes(ctx(&Value::Null), &def, fmt, &src, "ed25519").ok()?;
    let plabel = Reader::from_context(ctx(&Value::Null)).with_stream(fmt, Cursor::new(parent.clone())).ok()?.active_label()?.to_string();
    let uri = format!("self#jumbf=/c2pa/{plabel}/c2pa.assertions/org.vh.dup__1");
    let cdef = json!({"title": "c02 redaction child", "format": fmt, "claim_generator_info": [{"name": "vh", "version": "0.1"}], "redactions": [uri],
        "assertions": [{"label": "c2pa.actions", "data": {"actions": [{"action": "c2pa.redacted", "reason": "testing", "parameters": {"redacted": uri}}]}}]});
    let mut b = Builder::from_context(ctx(&Value::Null)).with_definition(cdef.to_string().as_str()).ok()?;
    b.set_intent(c2pa::BuilderIntent::Edit);
    b.add_ingredient_from_stream(json!({"title": "parent", "relationship": "parentOf"}).to_string(), fmt, &mut Cursor::new(parent.clone())).ok()?;
    let s = signer("ed25519");
    let mut o = Cursor::new(Vec::new());
    b.sign(s.as_ref(), fmt, &mut Cursor::new(parent), &mut o).ok()?;
    Some((o.into_inner(), fmt))
}

fn observe(fmt: &str, asset: &[u8], store: &[u8], base: &Value) -> (String, bool, String) {
    match catch(std::panic::AssertUnwindSafe(|| Reader::from_context(ctx(&Value::Null)).with_manifest_data_and_stream(store, fmt, Cursor::new(asset.to_vec())))) {
        Ok(Ok(r)) => {
            let rep = json!({"report": report(&r), "codes": codes(&r)});
            let eq = &rep == base;
            let detail = if eq { failure_codes(&r).join(",") } else { first_diff(base, &rep, String::new()).unwrap_or_default() };
            (state_str(&r).to_string(), eq, detail)
        }
        Ok(Err(e)) => ("ReadErr".into(), false, err_kind(&e)),
        Err(p) => ("Panic".into(), false, p),
    }
}

/// vh c02-record --seed S [--per N | --every]
pub fn record(args: &[String]) {
    let seed = arg_u64(args, "--seed", 1);
    let per = arg_u64(args, "--per", 1500) as usize;
    let every = args.iter().any(|a| a == "--every");
    let mut rng = StdRng::seed_from_u64(seed ^ 0xC02);
    let mut out = Out::new();
    let shapes: Vec<(&str, usize, bool, bool)> = vec![("single", 0, false, false), ("parent1+component", 1, true, false), ("parent2", 2, false, false), ("update", 1, false, true), ("redaction", 9, false, false)];
    for (name, depth, comp, upd) in shapes {
        let signed = if name == "redaction" { sign_redaction() } else { sign_chain(depth, comp, upd) };
        let Some((asset, fmt)) = signed else { out.emit(&json!({"shape": name, "setup_error": "could not sign"})); continue };
        let Ok(store) = c2pa::jumbf_io::load_jumbf_from_memory(fmt, &asset) else { out.emit(&json!({"shape": name, "setup_error": "no store"})); continue };
        let base = match Reader::from_context(ctx(&Value::Null)).with_manifest_data_and_stream(&store, fmt, Cursor::new(asset.clone())) {
            Ok(r) => json!({"report": report(&r), "codes": codes(&r)}),
            Err(e) => { out.emit(&json!({"shape": name, "setup_error": format!("baseline: {e}")})); continue }
        };
        let base_state = base["report"]["state"].as_str().unwrap_or("").to_string();
        let boxes = walk(&store);
        let n = store.len();
        // byte flips
        let offs: Vec<usize> = if every || n <= per { (0..n).collect() } else {
            let mut v: Vec<usize> = boxes.iter().flat_map(|b| [b.off, b.off + 3, b.off + 4, b.off + 7, b.off + b.hdr, b.off + b.size - 1]).filter(|o| *o < n).collect();
            while v.len() < per { v.push(rng.gen_range(0..n)); }
            v.sort(); v.dedup(); v
        };
        for o in offs {
            let pats: Vec<u8> = if every { vec![0x01, 0x80, 0xff] } else { vec![[0x01u8, 0x80, 0xff][rng.gen_range(0..3)]] };
            for p in pats {
                let mut s2 = store.clone();
                s2[o] ^= p;
                let (outcome, eq, detail) = observe(fmt, &asset, &s2, &base);
                out.emit(&json!({"shape": name, "op": "flip", "off": o, "class": class_of(&boxes, o), "outcome": outcome, "report_equal": eq, "detail": detail, "base_state": base_state, "store_len": n}));
            }
        }
        // COSE-level edits of every manifest's signature: the claim bytes (original or altered) are put into the COSE_Sign1
        // payload field (a C2PA signature is detached: the field is nil), the unprotected header is emptied, the padding
        // dropped -- alone and combined with byte flips inside the claim box
        for (mi, mb) in boxes.iter().enumerate() {
            if mb.ty != "jumb" || mb.depth != 1 { continue; }
            let inside = |i: usize| { let mut p = boxes[i].parent; while let Some(x) = p { if x == mi { return true; } p = boxes[x].parent; } false };
            let content_of = |lbl: &str| boxes.iter().enumerate().find(|(i, b)| b.ty == "jumb" && b.label.starts_with(lbl) && inside(*i)).and_then(|(i, _)| boxes.iter().enumerate().find(|(_, c)| c.parent == Some(i) && c.ty == "cbor").map(|(k, _)| k));
            let (Some(ck), Some(sk)) = (content_of("c2pa.claim"), content_of("c2pa.signature")) else { continue };
            let (cb, sb) = (&boxes[ck], &boxes[sk]);
            let claim = store[cb.off + cb.hdr..cb.off + cb.size].to_vec();
            let sig = &store[sb.off + sb.hdr..sb.off + sb.size];
            use coset::{CborSerializable, TaggedCborSerializable};
            let (parsed, tagged) = match coset::CoseSign1::from_tagged_slice(sig) { Ok(c) => (c, true), Err(_) => match coset::CoseSign1::from_slice(sig) { Ok(c) => (c, false), Err(_) => continue } };
            let ancestors = |mut i: usize| { let mut v = vec![i]; while let Some(p) = boxes[i].parent { v.push(p); i = p; } v };
            let mut edited_claim = claim.clone();
            if let Some(last) = edited_claim.last_mut() { *last ^= 0x01; }
            let variants: Vec<(&str, coset::CoseSign1)> = vec![
                ("payload=claim", { let mut c = parsed.clone(); c.payload = Some(claim.clone()); c }),
                ("payload=other", { let mut c = parsed.clone(); c.payload = Some(edited_claim.clone()); c }),
                ("payload=empty", { let mut c = parsed.clone(); c.payload = Some(vec![]); c }),
                ("unprotected-emptied", { let mut c = parsed.clone(); c.unprotected = coset::Header::default(); c }),
                ("reencoded", parsed.clone()),
            ];
            for (vname, c) in variants {
                let Ok(enc) = (if tagged { c.to_tagged_vec() } else { c.to_vec() }) else { continue };
                let mut s2 = store[..sb.off + sb.hdr].to_vec();
                s2.extend_from_slice(&enc);
                s2.extend_from_slice(&store[sb.off + sb.size..]);
                let delta = enc.len() as i64 - (sb.size - sb.hdr) as i64;
                for a in ancestors(sk) { let ab = &boxes[a]; set_size(&mut s2, ab, (ab.size as i64 + delta) as usize); }
                // claim box precedes the signature box or follows it: its offset moves only in the second case
                let coff = if cb.off > sb.off { (cb.off as i64 + delta) as usize } else { cb.off };
                let nflip = if vname == "reencoded" { 0 } else { 24usize };
                let mut flips: Vec<Option<usize>> = vec![None];
                let clen = cb.size - cb.hdr;
                for k in 0..nflip { flips.push(Some(if k < 8 { k * clen / 8 } else { rng.gen_range(0..clen) })); }
                flips.push(Some(clen - 1));
                for f in flips {
                    let mut s3 = s2.clone();
                    if let Some(f) = f { s3[coff + cb.hdr + f] ^= 0x01; }
                    let (outcome, eq, detail) = observe(fmt, &asset, &s3, &base);
                    out.emit(&json!({"shape": name, "op": format!("cose:{vname}{}", if f.is_some() { "+claim-flip" } else { "" }), "off": f.map(|f| cb.off + cb.hdr + f).unwrap_or(sb.off), "class": class_of(&boxes, sb.off + sb.hdr), "outcome": outcome, "report_equal": eq, "detail": detail, "base_state": base_state, "store_len": n}));
                }
            }
        }
        // structural edits on children of each superbox: swap adjacent siblings, duplicate, delete
        for (pi, pb) in boxes.iter().enumerate() {
            if pb.ty != "jumb" { continue; }
            let kids: Vec<usize> = boxes.iter().enumerate().filter(|(_, b)| b.parent == Some(pi) && b.ty != "jumd").map(|(i, _)| i).collect();
            let ancestors = |mut i: usize| { let mut v = vec![i]; while let Some(p) = boxes[i].parent { v.push(p); i = p; } v };
            for w in kids.windows(2) {
                let (a, b) = (&boxes[w[0]], &boxes[w[1]]);
                if a.off + a.size != b.off { continue; }
                let mut s2 = store[..a.off].to_vec();
                s2.extend_from_slice(&store[b.off..b.off + b.size]);
                s2.extend_from_slice(&store[a.off..a.off + a.size]);
                s2.extend_from_slice(&store[b.off + b.size..]);
                let (outcome, eq, detail) = observe(fmt, &asset, &s2, &base);
                out.emit(&json!({"shape": name, "op": "swap", "off": a.off, "class": format!("{} <-> {}", class_of(&boxes, a.off + a.hdr), class_of(&boxes, b.off + b.hdr)), "outcome": outcome, "report_equal": eq, "detail": detail, "base_state": base_state, "store_len": n}));
            }
            for &k in &kids {
                let kb = &boxes[k];
                for op in ["duplicate", "delete"] {
                    let mut s2: Vec<u8>;
                    let delta: i64;
                    if op == "duplicate" {
                        s2 = store[..kb.off + kb.size].to_vec();
                        s2.extend_from_slice(&store[kb.off..kb.off + kb.size]);
                        s2.extend_from_slice(&store[kb.off + kb.size..]);
                        delta = kb.size as i64;
                    } else {
                        s2 = store[..kb.off].to_vec();
                        s2.extend_from_slice(&store[kb.off + kb.size..]);
                        delta = -(kb.size as i64);
                    }
                    for a in ancestors(pi) {
                        let ab = &boxes[a];
                        set_size(&mut s2, ab, (ab.size as i64 + delta) as usize);
                    }
                    let (outcome, eq, detail) = observe(fmt, &asset, &s2, &base);
                    out.emit(&json!({"shape": name, "op": op, "off": kb.off, "class": class_of(&boxes, kb.off + kb.hdr), "outcome": outcome, "report_equal": eq, "detail": detail, "base_state": base_state, "store_len": n}));
                }
            }
        }
    }
}
