//! C31 -- C API handle misuse.  A seeded driver (child process, so that a crash is data) calls the exported extern "C"
#![allow(deprecated)]
//! functions of c2pa_c_ffi with handle arguments drawn from {right, wrong type, freed, NULL, foreign}; it logs
//! callstart / call events, and the registry hook (H4) logs track / validate / untrack / free events in between.
use std::collections::HashMap;
use std::ffi::{c_void, CStr, CString};
use std::io::Write;
use std::sync::Arc;

use c2pa_c::*;
use rand::{rngs::StdRng, seq::SliceRandom, Rng, SeedableRng};
use serde_json::{json, Value};

use crate::common::*;

fn emit(v: &Value) {
    let so = std::io::stdout();
    let mut l = so.lock();
    let _ = writeln!(l, "{}", v);
    let _ = l.flush();
}

struct Pool {
    live: HashMap<usize, &'static str>, // driver-side mirror of live handles (address -> API type)
    freed: Vec<(usize, &'static str)>,
    foreign: Vec<Box<[u8; 256]>>,
}

impl Pool {
    fn pick(&mut self, ty: &'static str, rng: &mut StdRng) -> (usize, &'static str) {
        // argument classes
        let right: Vec<usize> = self.live.iter().filter(|(_, t)| **t == ty).map(|(a, _)| *a).collect();
        let wrong: Vec<usize> = self.live.iter().filter(|(_, t)| **t != ty).map(|(a, _)| *a).collect();
        let freed: Vec<usize> = self.freed.iter().map(|(a, _)| *a).filter(|a| !self.live.contains_key(a)).collect();
        let mut classes: Vec<&'static str> = vec!["null", "foreign"];
        if !right.is_empty() { classes.extend(["right", "right", "right", "right"]); }
        if !wrong.is_empty() { classes.push("wrong"); }
        if !freed.is_empty() { classes.push("freed"); }
        let c = *classes.choose(rng).unwrap();
        let a = match c {
            "right" => *right.choose(rng).unwrap(),
            "wrong" => *wrong.choose(rng).unwrap(),
            "freed" => *freed.choose(rng).unwrap(),
            "foreign" => { let i = rng.gen_range(0..self.foreign.len()); self.foreign[i].as_ptr() as usize + 16 * rng.gen_range(0..4) }
            _ => 0,
        };
        (a, c)
    }
}

unsafe fn last_error() -> bool {
    let e = c2pa_error();
    if e.is_null() { return false; }
    let nonempty = !CStr::from_ptr(e).to_bytes().is_empty();
    c2pa_free(e as *const c_void);
    nonempty
}

pub fn child(args: &[String]) {
    let seed = arg_u64(args, "--seed", 1);
    let ncalls = arg_u64(args, "--calls", 30);
    let mut rng = StdRng::seed_from_u64(seed);
    c2pa::verif_hooks::set_trace_sink(Some(Arc::new(|ev: &str, js: &str| {
        if ev == "registry" {
            let so = std::io::stdout();
            let mut l = so.lock();
            let _ = writeln!(l, "{{\"e\":\"reg\",\"d\":{js}}}");
            let _ = l.flush();
        }
    })));
    let mut pool = Pool { live: HashMap::new(), freed: vec![], foreign: (0..3).map(|_| Box::new([0x5au8; 256])).collect() };
    let cs = |s: &str| CString::new(s).unwrap();
    let manifest = cs(&simple_manifest_json("c31", "image/jpeg").to_string());
    let cert = cs(&String::from_utf8_lossy(&fixture("certs/ed25519.pub")));
    let key = cs(&String::from_utf8_lossy(&fixture("certs/ed25519.pem")));
    let alg = cs("ed25519");
    let api = ["settings_new", "context_builder_new", "context_new", "builder_from_json", "signer_from_info", "settings_set_value",
               "context_builder_set_settings", "context_builder_build", "context_builder_set_signer", "context_cancel", "reader_from_context",
               "builder_from_context", "reader_json", "reader_is_embedded", "builder_set_no_embed", "builder_set_remote_url",
               "builder_with_definition", "signer_reserve_size", "free", "free", "reader_free", "builder_free", "signer_free", "free_null"];
    // Directed misuse scenarios (interleaved with the random calls): use a handle, give it away or free it, then use and
    // free it again -- the exact histories in which a stale registry answer would matter.
    type Step = (&'static str, Vec<Option<&'static str>>, Option<&'static str>);
    let scenarios: Vec<Vec<Step>> = vec![
        vec![("builder_from_json", vec![], Some("h")), ("builder_set_no_embed", vec![Some("h")], None), ("builder_with_definition", vec![Some("h")], Some("h2")),
             ("builder_set_no_embed", vec![Some("h")], None), ("builder_free", vec![Some("h")], None), ("builder_set_no_embed", vec![Some("h2")], None)],
        vec![("signer_from_info", vec![], Some("s")), ("context_builder_new", vec![], Some("cb")), ("signer_reserve_size", vec![Some("s")], None),
             ("context_builder_set_signer", vec![Some("cb"), Some("s")], None), ("signer_reserve_size", vec![Some("s")], None), ("signer_free", vec![Some("s")], None)],
        vec![("context_builder_new", vec![], Some("cb")), ("settings_new", vec![], Some("st")), ("context_builder_set_settings", vec![Some("cb"), Some("st")], None),
             ("context_builder_build", vec![Some("cb")], Some("c")), ("context_builder_set_settings", vec![Some("cb"), Some("st")], None), ("context_builder_build", vec![Some("cb")], None),
             ("free", vec![Some("cb")], None), ("context_cancel", vec![Some("c")], None)],
        vec![("context_new", vec![], Some("c")), ("context_cancel", vec![Some("c")], None), ("free", vec![Some("c")], None), ("context_cancel", vec![Some("c")], None),
             ("reader_from_context", vec![Some("c")], None), ("free", vec![Some("c")], None)],
        vec![("context_new", vec![], Some("c")), ("reader_from_context", vec![Some("c")], Some("r")), ("reader_is_embedded", vec![Some("r")], None), ("reader_free", vec![Some("r")], None),
             ("reader_json", vec![Some("r")], None), ("reader_free", vec![Some("r")], None), ("builder_set_no_embed", vec![Some("r")], None)],
        vec![("settings_new", vec![], Some("st")), ("settings_set_value", vec![Some("st")], None), ("free", vec![Some("st")], None), ("settings_set_value", vec![Some("st")], None),
             ("settings_new", vec![], Some("st2")), ("settings_set_value", vec![Some("st")], None), ("free", vec![Some("st")], None)],
    ];
    let mut script: std::collections::VecDeque<Step> = Default::default();
    let mut named: HashMap<&'static str, usize> = HashMap::new();
    for _ in 0..ncalls {
        if script.is_empty() && rng.gen_bool(0.08) {
            script.extend(scenarios.choose(&mut rng).unwrap().iter().cloned());
        }
        let (name, forced, bind): Step = match script.pop_front() { Some(s) => s, None => (*api.choose(&mut rng).unwrap(), vec![], None) };
        let mut forced_it = forced.into_iter();
        unsafe {
            // (kind, args [(addr, class, expected type, role)], call) ; role: "borrow" | "consume" | "free"
            let mut args_v: Vec<(usize, &'static str, &'static str, &'static str)> = vec![];
            let mut take = |ty: &'static str, role: &'static str, pool: &mut Pool, rng: &mut StdRng| -> usize {
                let (a, c) = match forced_it.next().flatten().and_then(|n| named.get(n).copied()) {
                    Some(a) => (a, match pool.live.get(&a) { Some(t) if *t == ty => "right", Some(_) => "wrong", None => if a == 0 { "null" } else { "freed" } }),
                    None => pool.pick(ty, rng),
                };
                args_v.push((a, c, ty, role));
                a
            };
            let (ret_ty, a1, a2): (Option<&'static str>, usize, usize) = match name {
                "settings_new" => (Some("Settings"), 0, 0),
                "context_builder_new" => (Some("ContextBuilder"), 0, 0),
                "context_new" => (Some("Context"), 0, 0),
                "builder_from_json" => (Some("Builder"), 0, 0),
                "signer_from_info" => (Some("Signer"), 0, 0),
                "settings_set_value" | "signer_reserve_size" | "context_cancel" | "reader_is_embedded" | "builder_set_no_embed" | "builder_set_remote_url" => {
                    let ty = match name { "settings_set_value" => "Settings", "signer_reserve_size" => "Signer", "context_cancel" => "Context", "reader_is_embedded" => "Reader", _ => "Builder" };
                    (None, take(ty, "borrow", &mut pool, &mut rng), 0)
                }
                "context_builder_set_settings" => { let a = take("ContextBuilder", "borrow", &mut pool, &mut rng); let b = take("Settings", "borrow", &mut pool, &mut rng); (None, a, b) }
                "context_builder_set_signer" => { let a = take("ContextBuilder", "borrow", &mut pool, &mut rng); let b = take("Signer", "consume_if_first_valid", &mut pool, &mut rng); (None, a, b) }
                "context_builder_build" => (Some("Context"), take("ContextBuilder", "consume", &mut pool, &mut rng), 0),
                "reader_from_context" => (Some("Reader"), take("Context", "borrow", &mut pool, &mut rng), 0),
                "builder_from_context" => (Some("Builder"), take("Context", "borrow", &mut pool, &mut rng), 0),
                "reader_json" => (Some("String"), take("Reader", "borrow", &mut pool, &mut rng), 0),
                "builder_with_definition" => (Some("Builder"), take("Builder", "consume", &mut pool, &mut rng), 0),
                "free" => { let tys = ["Settings", "ContextBuilder", "Context", "Reader", "Builder", "Signer", "String"]; (None, take(tys[rng.gen_range(0..tys.len())], "free", &mut pool, &mut rng), 0) }
                "reader_free" => (None, take("Reader", "free", &mut pool, &mut rng), 0),
                "builder_free" => (None, take("Builder", "free", &mut pool, &mut rng), 0),
                "signer_free" => (None, take("Signer", "free", &mut pool, &mut rng), 0),
                _ => (None, 0, 0),
            };
            emit(&json!({"e": "callstart", "name": name, "args": args_v.iter().map(|(a, c, t, r)| json!({"a": a, "cls": c, "ty": t, "role": r})).collect::<Vec<_>>()}));
            // the call itself
            let (ind, ret): (&str, usize) = match name {
                "settings_new" => { let p = c2pa_settings_new() as usize; (if p == 0 { "err" } else { "ok" }, p) }
                "context_builder_new" => { let p = c2pa_context_builder_new() as usize; (if p == 0 { "err" } else { "ok" }, p) }
                "context_new" => { let p = c2pa_context_new() as usize; (if p == 0 { "err" } else { "ok" }, p) }
                "builder_from_json" => { let p = c2pa_builder_from_json(manifest.as_ptr()) as usize; (if p == 0 { "err" } else { "ok" }, p) }
                "signer_from_info" => {
                    let info = C2paSignerInfo { alg: alg.as_ptr(), sign_cert: cert.as_ptr(), private_key: key.as_ptr(), ta_url: std::ptr::null() };
                    let p = c2pa_signer_from_info(&info) as usize; (if p == 0 { "err" } else { "ok" }, p)
                }
                "settings_set_value" => { let r = c2pa_settings_set_value(a1 as *mut _, cs("verify.verify_trust").as_ptr(), cs("true").as_ptr()); (if r < 0 { "err" } else { "ok" }, 0) }
                "signer_reserve_size" => { let r = c2pa_signer_reserve_size(a1 as *mut _); (if r < 0 { "err" } else { "ok" }, 0) }
                "context_cancel" => { let r = c2pa_context_cancel(a1 as *mut _); (if r < 0 { "err" } else { "ok" }, 0) }
                "reader_is_embedded" => { let _ = c2pa_reader_is_embedded(a1 as *mut _); ("void", 0) }
                "builder_set_no_embed" => { c2pa_builder_set_no_embed(a1 as *mut _); ("void", 0) }
                "builder_set_remote_url" => { let r = c2pa_builder_set_remote_url(a1 as *mut _, cs("https://x.example/m").as_ptr()); (if r < 0 { "err" } else { "ok" }, 0) }
                "context_builder_set_settings" => { let r = c2pa_context_builder_set_settings(a1 as *mut _, a2 as *mut _); (if r < 0 { "err" } else { "ok" }, 0) }
                "context_builder_set_signer" => { let r = c2pa_context_builder_set_signer(a1 as *mut _, a2 as *mut _); (if r < 0 { "err" } else { "ok" }, 0) }
                "context_builder_build" => { let p = c2pa_context_builder_build(a1 as *mut _) as usize; (if p == 0 { "err" } else { "ok" }, p) }
                "reader_from_context" => { let p = c2pa_reader_from_context(a1 as *mut _) as usize; (if p == 0 { "err" } else { "ok" }, p) }
                "builder_from_context" => { let p = c2pa_builder_from_context(a1 as *mut _) as usize; (if p == 0 { "err" } else { "ok" }, p) }
                "reader_json" => { let p = c2pa_reader_json(a1 as *mut _) as usize; (if p == 0 { "err" } else { "ok" }, p) }
                "builder_with_definition" => { let p = c2pa_builder_with_definition(a1 as *mut _, manifest.as_ptr()) as usize; (if p == 0 { "err" } else { "ok" }, p) }
                "free" => { let r = c2pa_free(a1 as *const c_void); (if r < 0 { "err" } else { "ok" }, 0) }
                "reader_free" => { c2pa_reader_free(a1 as *mut _); ("void", 0) }
                "builder_free" => { c2pa_builder_free(a1 as *mut _); ("void", 0) }
                "signer_free" => { c2pa_signer_free(a1 as *const _); ("void", 0) }
                _ => { let r = c2pa_free(std::ptr::null()); (if r < 0 { "err" } else { "ok" }, 0) }
            };
            emit(&json!({"e": "callret", "name": name, "ind": ind, "ret": ret, "ret_ty": ret_ty}));
            let errset = if ind == "err" || ind == "void" { last_error() } else { false };
            emit(&json!({"e": "call", "name": name, "ind": ind, "ret": ret, "ret_ty": ret_ty, "errset": errset,
                         "registry_len": c2pa_c::verif_registry_len()}));
            // update the driver-side mirror from what the API contract says (used only to choose argument classes)
            let valid = |a: usize, t: &str, pool: &Pool| pool.live.get(&a).map(|x| *x == t).unwrap_or(false);
            let all_valid = args_v.iter().all(|(a, _, t, _)| valid(*a, t, &pool));
            for (i, (a, _, t, role)) in args_v.iter().enumerate() {
                let v = valid(*a, t, &pool);
                match *role {
                    "consume" if v => { pool.live.remove(a); pool.freed.push((*a, t)); }
                    "consume_if_first_valid" if v && i > 0 && valid(args_v[0].0, args_v[0].2, &pool) => { pool.live.remove(a); pool.freed.push((*a, t)); }
                    "free" if pool.live.contains_key(a) => { let t0 = pool.live.remove(a).unwrap(); pool.freed.push((*a, t0)); }
                    _ => {}
                }
            }
            let _ = all_valid;
            if ret != 0 { if let Some(t) = ret_ty { pool.live.insert(ret, t); } }
            if let Some(b) = bind { named.insert(b, ret); }
        }
    }
    emit(&json!({"e": "end"}));
}

pub fn drive(args: &[String]) {
    let seed = arg_u64(args, "--seed", 1);
    let n = arg_u64(args, "--n", 50);
    let calls = arg_u64(args, "--calls", 30);
    let exe = std::env::current_exe().unwrap();
    let mut out = Out::new();
    for i in 0..n {
        let s = seed.wrapping_mul(1_000_003).wrapping_add(i);
        let o = std::process::Command::new(&exe).args(["c31-child", "--seed", &s.to_string(), "--calls", &calls.to_string()])
            .env("RUST_BACKTRACE", "0").output().expect("spawn child");
        let mut ids: HashMap<u64, u64> = HashMap::new();
        let idof = |p: u64, ids: &mut HashMap<u64, u64>| -> u64 { if p == 0 { 0 } else { let n = ids.len() as u64 + 1; *ids.entry(p).or_insert(n) } };
        let mut events: Vec<Value> = vec![json!({"e": "reset", "seq": s})];
        for line in String::from_utf8_lossy(&o.stdout).lines() {
            let Ok(mut v) = serde_json::from_str::<Value>(line) else { continue };
            match v["e"].as_str().unwrap_or("") {
                "reg" => { let d = v["d"].clone(); let p = d["ptr"].as_u64().unwrap_or(0); events.push(json!({"e": "reg", "op": d["op"], "a": idof(p, &mut ids), "ty": d["ty"], "ok": d["ok"]})); }
                "callstart" => { if let Some(a) = v["args"].as_array_mut() { for x in a.iter_mut() { let p = x["a"].as_u64().unwrap_or(0); x["a"] = json!(idof(p, &mut ids)); } } events.push(v); }
                "callret" | "call" => { let p = v["ret"].as_u64().unwrap_or(0); v["ret"] = json!(idof(p, &mut ids)); events.push(v); }
                _ => events.push(v),
            }
        }
        use std::os::unix::process::ExitStatusExt;
        let clean = events.last().map(|e| e["e"] == "end").unwrap_or(false);
        if !clean {
            events.push(json!({"e": "crash", "signal": o.status.signal(), "code": o.status.code(), "stderr": String::from_utf8_lossy(&o.stderr).chars().rev().take(300).collect::<String>().chars().rev().collect::<String>()}));
        }
        for e in events { out.emit(&e); }
    }
}
