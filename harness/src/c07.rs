//! C07 C08 C09 C12 -- container handlers.  Operation sequences (write / write same size / write bigger / write smaller /
//! remove) are run on real assets through the public jumbf_io functions and the hook wrappers; after every step the real
//! file is projected: store read back, which store markers are present, manifest region reported by the handler, bytes
//! changed outside that region, media digest from the harness' own per-format walkers, box map.
use std::io::Cursor;

use c2pa::jumbf_io::{load_jumbf_from_memory, save_jumbf_to_memory};
use rand::{rngs::StdRng, Rng, SeedableRng};
use serde_json::{json, Value};
use sha2::{Digest, Sha256};

use crate::c01::bmff_tree;
use crate::common::*;

const C2PA_UUID: [u8; 16] = [0x63, 0x32, 0x70, 0x61, 0x00, 0x11, 0x00, 0x10, 0x80, 0x00, 0x00, 0xaa, 0x00, 0x38, 0x9b, 0x71];

fn marker(id: &str) -> Vec<u8> { format!("<VHSTORE:{id:>6}>").into_bytes() }

/// a syntactically valid manifest-store superbox of exactly `len` bytes carrying the marker of `id`
pub fn build_store(id: &str, len: usize, rng: &mut StdRng) -> Vec<u8> {
    let len = len.max(70);
    let mut s = Vec::with_capacity(len);
    s.extend_from_slice(&(len as u32).to_be_bytes()); s.extend_from_slice(b"jumb");
    s.extend_from_slice(&30u32.to_be_bytes()); s.extend_from_slice(b"jumd");
    s.extend_from_slice(&C2PA_UUID); s.push(0x03); s.extend_from_slice(b"c2pa\0");
    let inner = len - 8 - 30;
    s.extend_from_slice(&(inner as u32).to_be_bytes()); s.extend_from_slice(b"vhbx");
    s.extend_from_slice(&marker(id));
    while s.len() < len { s.push(rng.gen::<u8>()); }
    s.truncate(len);
    s
}

/// a real manifest store (BMFF handlers parse the store they embed): signed in this run, marker inside a custom assertion
pub fn real_store(id: &str, pad_len: usize) -> Option<Vec<u8>> {
    let mut def = simple_manifest_json(&format!("store {id:>6}"), "image/jpeg");
    def["assertions"].as_array_mut()?.push(json!({"label": "org.vh.marker", "data": {"m": String::from_utf8_lossy(&marker(id)), "pad": "x".repeat(pad_len)}}));
    let signed = sign_bytes(ctx(&Value::Null), &def, "image/jpeg", &fixture("no_manifest.jpg"), "ed25519").ok()?;
    load_jumbf_from_memory("image/jpeg", &signed).ok()
}

fn count(hay: &[u8], needle: &[u8]) -> usize {
    if needle.is_empty() || hay.len() < needle.len() { return 0; }
    hay.windows(needle.len()).filter(|w| *w == needle).count()
}

fn h(b: &[u8]) -> String { hex::encode(&Sha256::digest(b)[..8]) }

/// per-format media projection: list of (kind, digest) of every non-manifest unit, or None when no walker exists
pub fn media(fmt: &str, d: &[u8]) -> Option<Vec<String>> {
    match fmt {
        "jpeg" => {
            if d.len() < 4 || d[0] != 0xff || d[1] != 0xd8 { return None; }
            let mut v = vec![];
            let mut p = 2;
            while p + 4 <= d.len() {
                if d[p] != 0xff { return None; }
                let m = d[p + 1];
                if m == 0xda { v.push(format!("scan:{}", h(&d[p..]))); break; } // entropy-coded data and everything after it
                let l = u16::from_be_bytes([d[p + 2], d[p + 3]]) as usize;
                if p + 2 + l > d.len() { return None; }
                let body = &d[p + 4..p + 2 + l];
                let is_c2pa = m == 0xeb && body.len() > 16 && &body[0..2] == b"JP" && &body[12..16] == b"jumb";
                if !is_c2pa { v.push(format!("{m:02x}:{}", h(body))); }
                p += 2 + l;
            }
            Some(v)
        }
        "png" => {
            if d.len() < 8 { return None; }
            let mut v = vec![];
            let mut p = 8;
            while p + 12 <= d.len() {
                let l = u32::from_be_bytes(d[p..p + 4].try_into().unwrap()) as usize;
                let t = String::from_utf8_lossy(&d[p + 4..p + 8]).to_string();
                if p + 12 + l > d.len() { return None; }
                if t != "caBX" { v.push(format!("{t}:{}", h(&d[p + 8..p + 8 + l]))); }
                p += 12 + l;
                if t == "IEND" { v.push(format!("after-iend:{}", h(&d[p..]))); break; }
            }
            Some(v)
        }
        "webp" | "wav" | "avi" => {
            if d.len() < 12 || &d[0..4] != b"RIFF" { return None; }
            let mut v = vec![format!("form:{}", String::from_utf8_lossy(&d[8..12]))];
            let mut p = 12;
            while p + 8 <= d.len() {
                let t = String::from_utf8_lossy(&d[p..p + 4]).to_string();
                let l = u32::from_le_bytes(d[p + 4..p + 8].try_into().unwrap()) as usize;
                if p + 8 + l > d.len() { return None; }
                let mut body = d[p + 8..p + 8 + l].to_vec();
                if t == "VP8X" && !body.is_empty() { body[0] &= !0x04; } // the XMP flag is metadata, set when a reference is embedded
                if t != "C2PA" { v.push(format!("{t}:{}", h(&body))); }
                p += 8 + l + (l & 1);
            }
            Some(v)
        }
        "mp4" | "avif" | "heic" => {
            let boxes = bmff_tree(d, 0, d.len(), "");
            let mut v = vec![];
            for (path, off, hl, size) in &boxes {
                let depth = path.matches('/').count();
                if depth == 1 {
                    let is_c2pa = path == "/uuid" && off + hl + 16 <= d.len() && d[off + hl..off + hl + 4] == [0xd8, 0xfe, 0xc3, 0xd6];
                    if path == "/mdat" { v.push(format!("mdat:{}", h(&d[off + hl..off + size]))); }
                    else if !is_c2pa && path != "/moov" && path != "/meta" && path != "/free" { v.push(format!("{path}:{}", h(&d[off + hl..off + size]))); }
                }
                // every absolute chunk offset must still address the same bytes
                if path.ends_with("/stco") || path.ends_with("/co64") {
                    let wide = path.ends_with("/co64");
                    let base = off + hl + 4;
                    if base + 4 > d.len() { continue; }
                    let n = u32::from_be_bytes(d[base..base + 4].try_into().unwrap()) as usize;
                    let mut samples = Sha256::new();
                    for i in 0..n.min(100000) {
                        let e = base + 4 + i * if wide { 8 } else { 4 };
                        if e + if wide { 8 } else { 4 } > d.len() { break; }
                        let o = if wide { u64::from_be_bytes(d[e..e + 8].try_into().unwrap()) as usize } else { u32::from_be_bytes(d[e..e + 4].try_into().unwrap()) as usize };
                        let end = (o + 16).min(d.len());
                        if o < d.len() { samples.update(&d[o..end]); } else { samples.update(b"OUT-OF-FILE"); }
                    }
                    v.push(format!("deref{}:{}:{}", path, n, hex::encode(&samples.finalize()[..8])));
                }
            }
            Some(v)
        }
        _ => None,
    }
}

// ---------------------------------------------------------------- foreign (non-manifest) structures
pub const FOREIGN: &[u8] = b"VH-FOREIGN-PAYLOAD-7f3a91c2-not-c2pa";

fn crc32(data: &[u8]) -> u32 {
    let mut c = 0xffff_ffffu32;
    for b in data { c ^= *b as u32; for _ in 0..8 { c = if c & 1 != 0 { (c >> 1) ^ 0xedb8_8320 } else { c >> 1 }; } }
    !c
}

fn bx(t: &[u8; 4], payload: &[u8]) -> Vec<u8> {
    let mut v = ((8 + payload.len()) as u32).to_be_bytes().to_vec();
    v.extend_from_slice(t); v.extend_from_slice(payload); v
}

/// The fixture plus one structure of another application carrying FOREIGN exactly once, placed where the manifest
/// ends up next to it (segments / chunks / boxes / comments that every conforming reader must preserve).
pub fn decorate(name: &str, src: &[u8]) -> Option<Vec<u8>> {
    match name {
        "jpeg" => {
            // a JPEG XT APP11 segment holding a JUMBF superbox of a non-C2PA type, with its own box instance number
            let mut jumd = vec![0x78, 0x5f, 0x34, 0xb7, 0x5d, 0x4b, 0x47, 0x4c, 0xb8, 0x9f, 0x1d, 0x99, 0xe0, 0xe3, 0xa8, 0xdd, 0x03];
            jumd.extend_from_slice(b"foreign.metadata\0");
            let mut sup = bx(b"jumd", &jumd);
            sup.extend_from_slice(&bx(b"xml ", FOREIGN));
            let jumb = bx(b"jumb", &sup);
            let mut payload = b"JP".to_vec(); payload.extend_from_slice(&[0x00, 0x01]); payload.extend_from_slice(&1u32.to_be_bytes()); payload.extend_from_slice(&jumb);
            let mut seg = vec![0xff, 0xeb]; seg.extend_from_slice(&((2 + payload.len()) as u16).to_be_bytes()); seg.extend_from_slice(&payload);
            let mut pos = 2;
            if src.get(2..4) == Some(&[0xff, 0xe0]) { pos += 2 + u16::from_be_bytes([src[4], src[5]]) as usize; }
            // and two rarely seen marker segments with a length field: DAC (arithmetic conditioning) and a comment
            seg.extend_from_slice(&[0xff, 0xcc, 0x00, 0x08, 0x00, 0x10, 0x01, 0x10, 0x10, 0x05]);
            seg.extend_from_slice(&[0xff, 0xfe, 0x00, 0x0c]); seg.extend_from_slice(b"vh comment");
            let mut o = src[..pos].to_vec(); o.extend_from_slice(&seg); o.extend_from_slice(&src[pos..]); Some(o)
        }
        "png" => {
            // private ancillary chunk right after IHDR
            let pos = 8 + 8 + 13 + 4;
            let mut ch = (FOREIGN.len() as u32).to_be_bytes().to_vec();
            let mut body = b"vhMk".to_vec(); body.extend_from_slice(FOREIGN);
            ch.extend_from_slice(&body); ch.extend_from_slice(&crc32(&body).to_be_bytes());
            let mut o = src[..pos].to_vec(); o.extend_from_slice(&ch); o.extend_from_slice(&src[pos..]); Some(o)
        }
        "gif" => {
            // application extension after the logical screen descriptor / global colour table
            let packed = *src.get(10)?;
            let gct = if packed & 0x80 != 0 { 3 * (1usize << ((packed & 7) + 1)) } else { 0 };
            let pos = 13 + gct;
            let mut ext = vec![0x21, 0xff, 0x0b]; ext.extend_from_slice(b"VHFOREIGN10"); ext.push(FOREIGN.len() as u8); ext.extend_from_slice(FOREIGN); ext.push(0);
            let mut o = src[..pos].to_vec(); o.extend_from_slice(&ext); o.extend_from_slice(&src[pos..]); Some(o)
        }
        "avi" => {
            // OpenDML layout: three RIFF/AVIX segments after the first RIFF chunk (odd and even sizes); the last one carries
            // the other application's data
            let mut o = src.to_vec();
            let riff_len = u32::from_le_bytes([o[4], o[5], o[6], o[7]]) as usize;
            if 8 + riff_len != o.len() { return None; }
            for k in 0..3usize {
                let mut body = b"AVIX".to_vec();
                let data: Vec<u8> = if k == 2 { FOREIGN.to_vec() } else { (0..(40 + 7 * k)).map(|i| (i * 31 + k) as u8).collect() };
                body.extend_from_slice(b"vhMK"); body.extend_from_slice(&(data.len() as u32).to_le_bytes()); body.extend_from_slice(&data); if data.len() % 2 == 1 { body.push(0); }
                o.extend_from_slice(b"RIFF"); o.extend_from_slice(&(body.len() as u32).to_le_bytes()); o.extend_from_slice(&body);
            }
            Some(o)
        }
        "webp" | "wav" => {
            // one more chunk at the end of the RIFF list
            let mut o = src.to_vec();
            let mut ch = b"vhMK".to_vec(); ch.extend_from_slice(&(FOREIGN.len() as u32).to_le_bytes()); ch.extend_from_slice(FOREIGN); if FOREIGN.len() % 2 == 1 { ch.push(0); }
            let riff_len = u32::from_le_bytes([o[4], o[5], o[6], o[7]]) as usize;
            if 8 + riff_len != o.len() { return None; }
            o.extend_from_slice(&ch);
            let n = (riff_len + ch.len()) as u32; o[4..8].copy_from_slice(&n.to_le_bytes()); Some(o)
        }
        "mp4" | "avif" | "heic" => {
            // a top-level uuid box of another application at the end of the file
            let mut p = vec![0x11u8, 0x22, 0x33, 0x44, 0x55, 0x66, 0x47, 0x88, 0x99, 0xaa, 0xbb, 0xcc, 0xdd, 0xee, 0xff, 0x01]; p.extend_from_slice(FOREIGN);
            let mut o = src.to_vec(); o.extend_from_slice(&bx(b"uuid", &p)); Some(o)
        }
        "jxl" => { let mut o = src.to_vec(); o.extend_from_slice(&bx(b"vhmk", FOREIGN)); Some(o) }
        "svg" => {
            let s = String::from_utf8_lossy(src).to_string();
            let i = s.rfind("</svg>")?;
            Some(format!("{}<!-- {} -->{}", &s[..i], String::from_utf8_lossy(FOREIGN), &s[i..]).into_bytes())
        }
        _ => None,
    }
}

pub const FORMATS: [(&str, &str, &str); 14] = [
    ("jpeg", "image/jpeg", "no_manifest.jpg"), ("png", "image/png", "libpng-test.png"), ("gif", "image/gif", "sample1.gif"), ("webp", "image/webp", "sample1.webp"),
    ("wav", "audio/wav", "sample1.wav"), ("avi", "video/avi", "test.avi"), ("tiff", "image/tiff", "TUSCANY.TIF"), ("svg", "image/svg+xml", "sample1.svg"),
    ("mp3", "audio/mpeg", "sample1.mp3"), ("flac", "audio/flac", "sample1.flac"), ("jxl", "image/jxl", "sample1.jxl"), ("mp4", "video/mp4", "video1_no_manifest.mp4"),
    ("avif", "image/avif", "sample1.avif"), ("heic", "image/heic", "sample1.heic"),
];

fn locations(mime: &str, d: &[u8]) -> Result<Vec<(usize, usize, String)>, String> {
    let mut c = Cursor::new(d.to_vec());
    c2pa::verif_hooks::object_locations_from_stream(mime, &mut c).map(|v| v.into_iter().map(|p| (p.offset, p.length, format!("{:?}", p.htype))).collect()).map_err(|e| err_kind(&e))
}

fn remove(mime: &str, d: &[u8]) -> Result<Vec<u8>, String> {
    let mut i = Cursor::new(d.to_vec());
    let mut o = Cursor::new(Vec::new());
    c2pa::verif_hooks::remove_cai_store_from_stream(mime, &mut i, &mut o).map_err(|e| err_kind(&e))?;
    Ok(o.into_inner())
}

/// vh c07-run --seed S [--formats a,b] < vectors {layout, ops:[..], base_len}
pub fn run(args: &[String]) {
    let seed = arg_u64(args, "--seed", 1);
    let only: Option<Vec<String>> = arg(args, "--formats").map(|s| s.split(',').map(|x| x.to_string()).collect());
    let vectors = read_ndjson_stdin();
    let mut out = Out::new();
    for (name, mime, fx) in FORMATS {
        if let Some(o) = &only { if !o.iter().any(|x| x == name) { continue; } }
        let src = fixture(fx);
        if src.is_empty() { continue; }
        let mut rng = StdRng::seed_from_u64(seed ^ 0xC07);
        for v in &vectors {
            let layout = v["layout"].as_str().unwrap();
            let base_len = v["base_len"].as_u64().unwrap() as usize;
            // initial asset for the layout
            let is_bmff = ["mp4", "avif", "heic"].contains(&name);
            let mk_store = |id: &str, len: usize, rng: &mut StdRng| -> Vec<u8> {
                if is_bmff { real_store(id, len.min(70000)).unwrap_or_default() } else { build_store(id, len, rng) }
            };
            let foreign = layout.starts_with("foreign");
            let src: Vec<u8> = if foreign { match decorate(name, &src) { Some(d) => d, None => continue } } else { src.clone() };
            let layout_base = if layout == "foreign-manifest" { "manifest" } else if layout == "foreign" { "bare" } else { layout };
            let start: Vec<u8> = match layout_base {
                "bare" => src.clone(),
                "manifest" => match save_jumbf_to_memory(mime, &src, &mk_store("old", base_len + 37, &mut rng)) { Ok(a) => a, Err(e) => { out.emit(&json!({"format": name, "vector": v, "setup_error": format!("write old: {}", err_kind(&e))})); continue } },
                _ => src.clone(),
            };
            let orig_media = media(name, &start);
            let removed_orig = remove(mime, &start);
            let mut cur = start.clone();
            let mut steps = vec![];
            let mut prev_store: Option<(String, usize)> = if layout_base == "manifest" { Some(("old".into(), usize::MAX)) } else { None };
            let mut written: Vec<String> = if layout_base == "manifest" { vec!["old".into()] } else { vec![] };
            for op in v["ops"].as_array().unwrap() {
                let op = op.as_str().unwrap();
                let r = catch(std::panic::AssertUnwindSafe(|| -> Value {
                    let mut cur = cur.clone();
                    if op == "RM" {
                        let res = remove(mime, &cur);
                        let mut rec = json!({"op": "remove"});
                        match res {
                            Ok(o) => {
                                rec["ok"] = json!(true);
                                rec["read"] = json!(match load_jumbf_from_memory(mime, &o) { Ok(_) => "some".to_string(), Err(e) => format!("none:{}", err_kind(&e)) });
                                rec["present"] = json!(written.iter().filter(|w| count(&o, &marker(w)) > 0).collect::<Vec<_>>());
                                rec["remove_equal"] = json!(removed_orig.as_ref().map(|x| x == &o).unwrap_or(false));
                                rec["removed_orig_ok"] = json!(removed_orig.is_ok());
                                rec["accepts"] = json!(locations(mime, &o).is_ok() || name == "mp4" || name == "avif" || name == "heic");
                                rec["rewritable"] = json!(save_jumbf_to_memory(mime, &o, &mk_store("probe", 200, &mut StdRng::seed_from_u64(1))).is_ok());
                                let m = media(name, &o);
                                rec["media_same"] = match (&orig_media, &m) { (Some(a), Some(b)) => json!(a == b), (Some(_), None) => json!(false), _ => Value::Null };
                                rec["len"] = json!(o.len());
                                if foreign { rec["foreign"] = json!(count(&o, FOREIGN)); }
                                cur = o;
                            }
                            Err(e) => { rec["ok"] = json!(false); rec["err"] = json!(e); }
                        }
                        rec["__cur"] = json!(base64::Engine::encode(&base64::engine::general_purpose::STANDARD, &cur));
                        return rec;
                    }
                    let (id, len) = match op { "WA" => ("A", base_len), "WB" => ("B", base_len), "WC" => ("C", base_len + 1 + (base_len / 3)), _ => ("D", (base_len / 2).max(70)) };
                    let store = mk_store(id, len, &mut StdRng::seed_from_u64(seed ^ id.as_bytes()[0] as u64));
                    let mut rec = json!({"op": "write", "s": id, "size": store.len()});
                    match save_jumbf_to_memory(mime, &cur, &store) {
                        Ok(o) => {
                            rec["ok"] = json!(true);
                            rec["read"] = json!(match load_jumbf_from_memory(mime, &o) { Ok(b) => if b == store { "equal".to_string() } else { format!("differs:{}", b.len()) }, Err(e) => format!("err:{}", err_kind(&e)) });
                            let mut all = written.clone(); if !all.iter().any(|x| x == id) { all.push(id.to_string()); }
                            rec["present"] = json!(all.iter().filter(|w| count(&o, &marker(w)) > 0).cloned().collect::<Vec<_>>());
                            rec["marker_count"] = json!(count(&o, &marker(id)));
                            let locs = locations(mime, &o);
                            match &locs {
                                Ok(l) => {
                                    rec["locations"] = json!(l);
                                    let cai: Vec<&(usize, usize, String)> = l.iter().filter(|x| x.2 == "Cai").collect();
                                    let in_file = l.iter().all(|x| x.0 + x.1 <= o.len());
                                    // the Cai region must contain the embedded store (found by its marker)
                                    let mk = marker(id);
                                    let mposs: Vec<usize> = o.windows(mk.len()).enumerate().filter(|(_, w)| *w == mk.as_slice()).map(|(i, _)| i).collect();
                                    let contains = match cai.first() { Some(c) => mposs.is_empty() || mposs.iter().any(|p| c.0 <= *p && p + mk.len() <= c.0 + c.1), None => false };
                                    let mut disjoint = true;
                                    for (i, a) in l.iter().enumerate() { for b in l.iter().skip(i + 1) { if a.2 == "Cai" || b.2 == "Cai" { if a.0 < b.0 + b.1 && b.0 < a.0 + a.1 && a.1 > 0 && b.1 > 0 { disjoint = false; } } } }
                                    rec["cai"] = json!({"n": cai.len(), "in_file": in_file, "contains_store": contains, "disjoint": disjoint});
                                    // same-size replacement locality
                                    if let Some((pid, plen)) = &prev_store {
                                        if *plen == store.len() && pid != id && o.len() == cur.len() {
                                            let (cs, ce) = cai.first().map(|c| (c.0, c.0 + c.1)).unwrap_or((0, 0));
                                            let outside = o.iter().zip(cur.iter()).enumerate().filter(|(i, (a, b))| a != b && !(cs <= *i && *i < ce)).count();
                                            rec["samesize_outside"] = json!(outside);
                                        } else if *plen == store.len() && pid != id { rec["samesize_len_changed"] = json!([cur.len(), o.len()]); }
                                    }
                                }
                                Err(e) => { rec["locations_err"] = json!(e); }
                            }
                            let m = media(name, &o);
                            rec["media_same"] = match (&orig_media, &m) { (Some(a), Some(b)) => json!(a == b), (Some(_), None) => json!(false), _ => Value::Null };
                            // box map (C12)
                            let mut c = Cursor::new(o.clone());
                            if let Some(bm) = c2pa::verif_hooks::box_map(mime, &mut c) {
                                rec["boxmap"] = match bm { Ok(b) => json!({"len": o.len(), "ranges": b.iter().map(|x| json!([x.range_start, x.range_len, x.names.join("+")])).collect::<Vec<_>>()}), Err(e) => json!({"err": err_kind(&e)}) };
                            }
                            rec["len"] = json!(o.len());
                            if foreign { rec["foreign"] = json!(count(&o, FOREIGN)); }
                            // the file entry point (patch in place if possible, rewrite otherwise) on a copy of the result:
                            // stores one byte shorter, of the same size and one byte longer than the one just embedded
                            if !is_bmff {
                                let ext = fx.rsplit('.').next().unwrap_or("bin").to_lowercase();
                                let dir = std::env::temp_dir().join(format!("vh_c07_{}", std::process::id()));
                                let _ = std::fs::create_dir_all(&dir);
                                let path = dir.join(format!("probe.{ext}"));
                                let mut fw = vec![];
                                for d in [-1i64, 0, 1] {
                                    let l2 = (store.len() as i64 + d).max(70) as usize;
                                    let st2 = build_store("F", l2, &mut StdRng::seed_from_u64(7 + l2 as u64));
                                    if std::fs::write(&path, &o).is_err() { continue; }
                                    let r = c2pa::jumbf_io::save_jumbf_to_file(&st2, &path, Some(&path));
                                    let back = std::fs::read(&path).unwrap_or_default();
                                    let res = match &r { Ok(()) => match load_jumbf_from_memory(mime, &back) { Ok(b) => if b == st2 { "equal".to_string() } else { format!("differs:{}:{}", b.len(), st2.len()) }, Err(e) => format!("err:{}", err_kind(&e)) }, Err(e) => format!("refused:{}", err_kind(e)) };
                                    fw.push(json!({"delta": l2 as i64 - store.len() as i64, "ok": r.is_ok(), "read": res}));
                                }
                                let _ = std::fs::remove_dir_all(&dir);
                                rec["fwrite"] = json!(fw);
                            }
                            cur = o;
                        }
                        Err(e) => { rec["ok"] = json!(false); rec["err"] = json!(err_kind(&e)); }
                    }
                    rec["__cur"] = json!(base64::Engine::encode(&base64::engine::general_purpose::STANDARD, &cur));
                    rec
                }));
                match r {
                    Ok(mut rec) => {
                        if let Some(c) = rec["__cur"].as_str() { cur = base64::Engine::decode(&base64::engine::general_purpose::STANDARD, c).unwrap_or(cur); }
                        rec.as_object_mut().unwrap().remove("__cur");
                        if rec["op"] == "write" && rec["ok"] == true { let id = rec["s"].as_str().unwrap().to_string(); prev_store = Some((id.clone(), rec["size"].as_u64().unwrap() as usize)); if !written.contains(&id) { written.push(id); } }
                        if rec["op"] == "remove" && rec["ok"] == true { prev_store = None; }
                        steps.push(rec);
                    }
                    Err(p) => { steps.push(json!({"op": op, "panic": p})); break; }
                }
            }
            out.emit(&json!({"format": name, "layout": layout, "foreign_at_start": if foreign { json!(count(&start, FOREIGN)) } else { Value::Null }, "base_len": base_len, "ops": v["ops"], "has_media_walker": orig_media.is_some(), "steps": steps}));
        }
    }
}

/// vh c12-extra : box maps of signed fixtures with restart markers, trailing data, multiple images, and of bare assets
pub fn extra(_args: &[String]) {
    let mut out = Out::new();
    let assets: Vec<(&str, &str, &str)> = vec![("jpeg", "image/jpeg", "earth_apollo17.jpg"), ("jpeg", "image/jpeg", "C.jpg"), ("jpeg", "image/jpeg", "CA.jpg"), ("jpeg", "image/jpeg", "IMG_0003.jpg"),
        ("jpeg", "image/jpeg", "P1000827.jpg"), ("jpeg", "image/jpeg", "cloud.jpg"), ("jpeg", "image/jpeg", "boxhash.jpg"), ("png", "image/png", "libpng-test.png"), ("png", "image/png", "sample1.png"),
        ("gif", "image/gif", "sample1.gif"), ("jxl", "image/jxl", "sample1.jxl")];
    for (name, mime, fx) in assets {
        let src = fixture(fx);
        if src.is_empty() { continue; }
        let mut variants: Vec<(String, Vec<u8>)> = vec![(fx.to_string(), src.clone())];
        let mut t = src.clone(); t.extend_from_slice(b"TRAILING-DATA-AFTER-THE-END-MARKER"); variants.push((format!("{fx}+trailing"), t));
        if let Ok(signed) = sign_bytes(ctx(&json!({"core": {"prefer_compress_manifests": true}})), &simple_manifest_json("c12", mime), mime, &src, "ed25519") { variants.push((format!("{fx}+boxhash-signed"), signed)); }
        // structurally mutated variants: a structure of another application next to the manifest position, and (box formats)
        // each top-level box rewritten with the 64-bit extended size form, which is legal but never written by the SDK
        if let Some(d) = decorate(name, &src) {
            if let Ok(signed) = sign_bytes(ctx(&json!({"core": {"prefer_compress_manifests": true}})), &simple_manifest_json("c12", mime), mime, &d, "ed25519") { variants.push((format!("{fx}+foreign+boxhash-signed"), signed)); }
            variants.push((format!("{fx}+foreign"), d));
        }
        if name == "jxl" && src.len() > 12 && &src[4..8] == b"JXL " {
            let mut boxes: Vec<(usize, usize)> = vec![];
            let mut p = 0usize;
            while p + 8 <= src.len() {
                let s = u32::from_be_bytes([src[p], src[p + 1], src[p + 2], src[p + 3]]) as usize;
                let s = if s == 0 { src.len() - p } else { s };
                if s < 8 || s == 1 || p + s > src.len() { break; }
                boxes.push((p, s)); p += s;
            }
            for (k, (bp, bs)) in boxes.iter().enumerate().skip(1) {
                let mut o = src[..*bp].to_vec();
                o.extend_from_slice(&1u32.to_be_bytes()); o.extend_from_slice(&src[bp + 4..bp + 8]); o.extend_from_slice(&((*bs + 8) as u64).to_be_bytes());
                o.extend_from_slice(&src[bp + 8..bp + bs]); o.extend_from_slice(&src[bp + bs..]);
                if let Ok(signed) = sign_bytes(ctx(&json!({"core": {"prefer_compress_manifests": true}})), &simple_manifest_json("c12", mime), mime, &o, "ed25519") { variants.push((format!("{fx}+largesize{k}+boxhash-signed"), signed)); }
                variants.push((format!("{fx}+largesize{k}"), o));
            }
        }
        for (an, data) in variants {
            let mut c = Cursor::new(data.clone());
            match c2pa::verif_hooks::box_map(mime, &mut c) {
                Some(Ok(b)) => out.emit(&json!({"format": name, "asset": an, "len": data.len(), "ranges": b.iter().map(|x| json!([x.range_start, x.range_len, x.names.join("+")])).collect::<Vec<_>>()})),
                Some(Err(e)) => out.emit(&json!({"format": name, "asset": an, "err": err_kind(&e)})),
                None => {}
            }
        }
    }
}
