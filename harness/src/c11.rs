//! C11 -- format hint independence: signed assets of every format are read with every supported format string
//! (extensions and MIME types, case variants, empty and generic hints); report and codes must equal the
//! correct-hint baseline whenever the leading bytes identify a container.
use serde_json::{json, Value};

use crate::common::*;

pub const FORMATS: [(&str, &str, &str, &str); 13] = [
    ("jpeg", "image/jpeg", "no_manifest.jpg", "magic"), ("png", "image/png", "libpng-test.png", "magic"), ("gif", "image/gif", "sample1.gif", "magic"),
    ("tiff", "image/tiff", "TUSCANY.TIF", "magic"), ("jxl", "image/jxl", "sample1.jxl", "magic"), ("webp", "image/webp", "sample1.webp", "magic"),
    ("wav", "audio/wav", "sample1.wav", "magic"), ("avi", "video/avi", "test.avi", "magic"), ("mp4", "video/mp4", "video1_no_manifest.mp4", "magic"),
    ("heic", "image/heic", "sample1.heic", "magic"), ("flac", "audio/flac", "sample1.flac", "magic"), ("mp3", "audio/mpeg", "sample1.mp3", "magic"),
    ("svg", "image/svg+xml", "sample1.svg", "none"),
];

pub fn replay(args: &[String]) {
    let only: Option<Vec<String>> = arg(args, "--formats").map(|s| s.split(',').map(|x| x.to_string()).collect());
    let mut hints: Vec<String> = c2pa::Reader::supported_mime_types();
    let mut extra = vec![];
    for h in &hints { extra.push(h.to_uppercase()); }
    hints.extend(extra.into_iter().step_by(3));
    for h in ["", "application/octet-stream", "bin", "xyz", "image/unknown", "c2pa", "application/c2pa", "jpg", "JPG", "png", "tif", "dng", "mov", "m4a", "avif", "heif", "webp", "wav", "avi", "mp3", "flac", "gif", "svg", "jxl", "pdf"] {
        hints.push(h.to_string());
    }
    hints.sort(); hints.dedup();
    let mut out = Out::new();
    for (name, mime, fx, magic) in FORMATS {
        if let Some(o) = &only { if !o.iter().any(|x| x == name) { continue; } }
        let src = fixture(fx);
        if src.is_empty() { continue; }
        let signed = match sign_bytes(ctx(&Value::Null), &simple_manifest_json("c11", mime), mime, &src, "ed25519") {
            Ok(s) => s,
            Err(e) => { out.emit(&json!({"format": name, "setup_error": format!("{e}")})); continue; }
        };
        // variants: the signed asset, a tampered copy (so failure codes are compared too), the unsigned source
        let mut tampered = signed.clone();
        let n = tampered.len();
        tampered[n - n / 3] ^= 0x40;
        for (vname, data) in [("signed", &signed), ("tampered", &tampered), ("unsigned", &src)] {
            let base = match catch(std::panic::AssertUnwindSafe(|| read_bytes(ctx(&Value::Null), mime, data))) {
                Ok(Ok(r)) => json!({"kind": "ok", "report": report(&r), "codes": codes(&r)}),
                Ok(Err(e)) => json!({"kind": format!("err:{}", err_kind(&e))}),
                Err(p) => json!({"kind": format!("panic:{p}")}),
            };
            let mut diffs = vec![];
            for h in &hints {
                let got = match catch(std::panic::AssertUnwindSafe(|| read_bytes(ctx(&Value::Null), h, data))) {
                    Ok(Ok(r)) => json!({"kind": "ok", "report": report(&r), "codes": codes(&r)}),
                    Ok(Err(e)) => json!({"kind": format!("err:{}", err_kind(&e))}),
                    Err(p) => json!({"kind": format!("panic:{p}")}),
                };
                if got != base {
                    diffs.push(json!({"hint": h, "got_kind": got["kind"], "got_state": got["report"]["state"], "base_kind": base["kind"], "base_state": base["report"]["state"]}));
                }
            }
            out.emit(&json!({"format": name, "magic": magic, "variant": vname, "hints": hints.len(), "base_kind": base["kind"], "base_state": base["report"]["state"], "diffs": diffs}));
        }
    }
}
