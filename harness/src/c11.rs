//! C11 -- format hint independence: signed assets of every format are read with every supported format string
//! (extensions and MIME types, case variants, empty and generic hints); report and codes must equal the
//! correct-hint baseline whenever the leading bytes identify a container.
use serde_json::{json, Value};

use crate::common::*;

pub const FORMATS: [(&str, &str, &str, &str); 13] = [
    ("jpeg", "image/jpeg", "no_manifest.jpg", "magic"), ("png", "image/png", "libpng-test.png", "magic"), ("gif", "image/gif", "sample1.gif", "magic"),
    ("tiff", "image/tiff", "TUSCANY.TIF", "magic"), ("jxl", "image/jxl", "sample1.jxl", "magic"), ("webp", "image/webp", "sample1.webp", "magic"),
    ("wav", "audio/wav", "sample1.wav", "magic"), ("avi", "video/avi", "test.avi", "magic"), ("mp4", "video/mp4", "video1_no_manifest.mp4", "magic"),
    ("heic", "image/heic", "sample1.heic", "magic"), ("flac", "audio/flac", "sample1.flac", "magic"), ("mp3", "audio/mpeg", "sample1.mp3", "magic"),
    ("svg", "image/svg+xml", "sample1.svg", "none"),
];

pub fn replay(args: &[String]) {
    let only: Option<Vec<String>> = arg(args, "--formats").map(|s| s.split(',').map(|x| x.to_string()).collect());
    let mut hints: Vec<String> = c2pa::Reader::supported_mime_types();
    let mut extra = vec![];
    for h in &hints { extra.push(h.to_uppercase()); }
    hints.extend(extra.into_iter().step_by(3));
    for h in ["", "application/octet-stream", "bin", "xyz", "image/unknown", "c2pa", "application/c2pa", "jpg", "JPG", "png", "tif", "dng", "mov", "m4a", "avif", "heif", "webp", "wav", "avi", "mp3", "flac", "gif", "svg", "jxl", "pdf"] {
        hints.push(h.to_string());
    }
    hints.sort(); hints.dedup();
    let mut out = Out::new();
    for (name, mime, fx, magic) in FORMATS {
        if let Some(o) = &only { if !o.iter().any(|x| x == name) { continue; } }
        let src = fixture(fx);
        if src.is_empty() { continue; }
        let signed = match sign_bytes(ctx(&Value::Null), &simple_manifest_json("c11", mime), mime, &src, "ed25519") {
            Ok(s) => s,
            Err(e) => { out.emit(&json!({"format": name, "setup_error": format!("{e}")})); continue; }
        };
        // variants: the signed asset, a tampered copy (so failure codes are compared too), the unsigned source
        let mut tampered = signed.clone();
        let n = tampered.len();
        tampered[n - n / 3] ^= 0x40;
        for (vname, data) in [("signed", &signed), ("tampered", &tampered), ("unsigned", &src)] {
            let base = match catch(std::panic::AssertUnwindSafe(|| read_bytes(ctx(&Value::Null), mime, data))) {
                Ok(Ok(r)) => json!({"kind": "ok", "report": report(&r), "codes": codes(&r)}),
                Ok(Err(e)) => json!({"kind": format!("err:{}", err_kind(&e))}),
                Err(p) => json!({"kind": format!("panic:{p}")}),
            };
            let mut diffs = vec![];
            for h in &hints {
                let got = match catch(std::panic::AssertUnwindSafe(|| read_bytes(ctx(&Value::Null), h, data))) {
                    Ok(Ok(r)) => json!({"kind": "ok", "report": report(&r), "codes": codes(&r)}),
                    Ok(Err(e)) => json!({"kind": format!("err:{}", err_kind(&e))}),
                    Err(p) => json!({"kind": format!("panic:{p}")}),
                };
                if got != base {
                    diffs.push(json!({"hint": h, "got_kind": got["kind"], "got_state": got["report"]["state"], "base_kind": base["kind"], "base_state": base["report"]["state"]}));
                }
            }
            out.emit(&json!({"format": name, "magic": magic, "variant": vname, "hints": hints.len(), "base_kind": base["kind"], "base_state": base["report"]["state"], "diffs": diffs}));
        }
    }
    // an MP3 without any ID3v2 tag starts with the MPEG frame sync, not with a text signature: the unsigned stream, and the
    // stream together with a sidecar manifest (signed with no_embed), under every hint
    if only.as_ref().map(|o| o.iter().any(|x| x == "mp3")).unwrap_or(true) {
        let src = fixture("sample1.mp3");
        let raw: Vec<u8> = if src.len() > 10 && &src[0..3] == b"ID3" {
            let sz = ((src[6] as usize & 0x7f) << 21) | ((src[7] as usize & 0x7f) << 14) | ((src[8] as usize & 0x7f) << 7) | (src[9] as usize & 0x7f);
            src[(10 + sz).min(src.len())..].to_vec()
        } else { src.clone() };
        let starts_with_sync = raw.len() > 2 && raw[0] == 0xff && raw[1] & 0xe0 == 0xe0;
        let sidecar = catch(std::panic::AssertUnwindSafe(|| -> Result<Vec<u8>, String> {
            let mut b = c2pa::Builder::from_context(ctx(&Value::Null)).with_definition(simple_manifest_json("c11", "audio/mpeg").to_string().as_str()).map_err(|e| err_kind(&e))?;
            b.set_no_embed(true);
            let s = signer("ed25519");
            let mut dst = std::io::Cursor::new(Vec::new());
            b.sign(s.as_ref(), "audio/mpeg", &mut std::io::Cursor::new(raw.clone()), &mut dst).map_err(|e| err_kind(&e))
        }));
        let read_with = |h: &str, manifest: Option<&Vec<u8>>| -> Value {
            let r = catch(std::panic::AssertUnwindSafe(|| match manifest {
                Some(m) => c2pa::Reader::from_context(ctx(&Value::Null)).with_manifest_data_and_stream(m, h, std::io::Cursor::new(raw.clone())),
                None => read_bytes(ctx(&Value::Null), h, &raw),
            }));
            match r { Ok(Ok(r)) => json!({"kind": "ok", "report": report(&r), "codes": codes(&r)}), Ok(Err(e)) => json!({"kind": format!("err:{}", err_kind(&e))}), Err(p) => json!({"kind": format!("panic:{p}")}) }
        };
        let mut variants: Vec<(&str, Option<Vec<u8>>)> = vec![("unsigned", None)];
        match sidecar { Ok(Ok(m)) => variants.push(("sidecar", Some(m))), other => out.emit(&json!({"format": "mp3-tagless", "setup_error": format!("{other:?}")})) }
        for (vname, m) in variants {
            let base = read_with("audio/mpeg", m.as_ref());
            let mut diffs = vec![];
            for h in &hints {
                let got = read_with(h, m.as_ref());
                if got != base { diffs.push(json!({"hint": h, "got_kind": got["kind"], "got_state": got["report"]["state"], "base_kind": base["kind"], "base_state": base["report"]["state"]})); }
            }
            out.emit(&json!({"format": "mp3-tagless", "magic": if starts_with_sync { "magic" } else { "none" }, "variant": vname, "hints": hints.len(), "base_kind": base["kind"], "base_state": base["report"]["state"], "diffs": diffs}));
        }
    }
}
