//! C35 -- results do not depend on stream chunking, and I/O errors are never hidden.
//! Wrapper streams return short reads/writes with seeded sizes (chunk mode) or fail the k-th call of one kind on one
//! stream (fault mode; the stream keeps working afterwards, or stays broken in sticky mode).  Every run is one record:
//! what the operation returned and whether its result equals the result obtained with plain in-memory streams.
use std::io::{self, Cursor, Read, Seek, SeekFrom, Write};
use std::panic::AssertUnwindSafe;
use std::sync::{Arc, Mutex};

use c2pa::{Builder, Reader};
use rand::{rngs::StdRng, Rng, SeedableRng};
use serde_json::{json, Value};

use crate::common::*;

pub const FORMATS: [(&str, &str, &str); 16] = [
    ("jpeg", "image/jpeg", "no_manifest.jpg"), ("png", "image/png", "libpng-test.png"), ("gif", "image/gif", "sample1.gif"), ("webp", "image/webp", "sample1.webp"),
    ("tiff", "image/tiff", "TUSCANY.TIF"), ("svg", "image/svg+xml", "sample1.svg"), ("mp4", "video/mp4", "video1_no_manifest.mp4"), ("wav", "audio/wav", "sample1.wav"),
    ("jxl", "image/jxl", "sample1.jxl"), ("mp3", "audio/mpeg", "sample1.mp3"), ("flac", "audio/flac", "sample1.flac"), ("avi", "video/avi", "test.avi"), ("pdf", "application/pdf", "basic.pdf"),
    ("mov", "video/quicktime", "c.mov"), ("avif", "image/avif", "sample1.avif"),
    // an AVI with three trailing RIFF/AVIX segments (OpenDML), built from test.avi
    ("avix", "video/avi", "test.avi"),
];

const KINDS: [&str; 4] = ["read", "write", "seek", "flush"];

#[derive(Default)]
pub struct Ctl {
    pub counts: [u64; 4],
    pub fault: Option<(usize, u64, bool)>, // (kind, k (1-based), sticky)
    pub fired: bool,
    pub fired_at: [u64; 4],
    pub short: Option<StdRng>,
    pub shorted: u64,
    pub after_fault_calls: u64,
    pub site: Vec<String>,
}

pub struct Wrap {
    pub inner: Cursor<Vec<u8>>,
    pub ctl: Arc<Mutex<Ctl>>,
}

impl Wrap {
    pub fn new(bytes: Vec<u8>) -> (Self, Arc<Mutex<Ctl>>) {
        let ctl = Arc::new(Mutex::new(Ctl::default()));
        (Wrap { inner: Cursor::new(bytes), ctl: ctl.clone() }, ctl)
    }
    fn gate(&self, kind: usize) -> io::Result<()> {
        let mut c = self.ctl.lock().unwrap();
        c.counts[kind] += 1;
        if c.fired {
            c.after_fault_calls += 1;
            if let Some((_, _, true)) = c.fault {
                return Err(io::Error::new(io::ErrorKind::Other, "vh: stream stays broken"));
            }
        }
        if let Some((fk, k, _)) = c.fault {
            if !c.fired && fk == kind && c.counts[kind] == k {
                c.fired = true;
                c.fired_at = c.counts;
                c.site = call_site();
                return Err(io::Error::new(io::ErrorKind::Other, "vh: injected I/O fault"));
            }
        }
        Ok(())
    }
    fn piece(&self, n: usize) -> usize {
        let mut c = self.ctl.lock().unwrap();
        if n <= 1 {
            return n;
        }
        let m = match c.short.as_mut() {
            None => return n,
            Some(r) => {
                let cap = [1usize, 2, 3, 7, 64, 1000, 4096, 70000][r.gen_range(0..8)];
                r.gen_range(1..=cap.min(n))
            }
        };
        if m < n {
            c.shorted += 1;
        }
        m
    }
}
impl Read for Wrap {
    fn read(&mut self, buf: &mut [u8]) -> io::Result<usize> {
        self.gate(0)?;
        let n = self.piece(buf.len());
        self.inner.read(&mut buf[..n])
    }
}
impl Write for Wrap {
    fn write(&mut self, buf: &[u8]) -> io::Result<usize> {
        self.gate(1)?;
        let n = self.piece(buf.len());
        self.inner.write(&buf[..n])
    }
    fn flush(&mut self) -> io::Result<()> {
        self.gate(3)?;
        self.inner.flush()
    }
}
impl Seek for Wrap {
    fn seek(&mut self, pos: SeekFrom) -> io::Result<u64> {
        self.gate(2)?;
        self.inner.seek(pos)
    }
}

/// The SDK functions on the stack when the fault is injected (innermost first): identifies the call whose error is at stake.
fn call_site() -> Vec<String> {
    let bt = std::backtrace::Backtrace::force_capture().to_string();
    let mut out: Vec<String> = vec![];
    for line in bt.lines() {
        let t = line.trim();
        // frame lines look like "12: c2pa::asset_handlers::jpeg_io::..."
        if let Some((_, f)) = t.split_once(": ") {
            if (f.starts_with("c2pa::") || f.starts_with("<c2pa::")) && !f.contains("verif_hooks") {
                let mut f = f.to_string();
                if let Some(i) = f.rfind("::h") { if f.len() - i == 19 { f.truncate(i); } }
                if out.last() != Some(&f) { out.push(f); }
                if out.len() == 12 { break; }
            }
        }
    }
    out
}

/// Functions known to turn an error of the calls beneath them into "absent" (probing code); the innermost SDK function otherwise.
const CATCHERS: [&str; 7] = ["XmpInfo::from_source", "jumbf_io::format_from_stream", "Store::get_store_validation_info", "Claim::verify_hash_binding",
    "riff_io::get_manifest_pos", "Store::load_jumbf_from_stream", "Ingredient::add_stream_internal"];
fn short_fn(f: &str) -> String {
    let f = f.replace("c2pa::", "").replace("asset_handlers::", "").replace("::{{closure}}", "");
    let f = f.trim_start_matches('<').to_string();
    // "<X as Trait>::m" -> "X::m"
    match f.split_once(" as ") { Some((ty, rest)) => format!("{}::{}", ty, rest.rsplit("::").next().unwrap_or("")), None => f }
}
fn catcher(site: &[String]) -> String {
    for f in site {
        if let Some(c) = CATCHERS.iter().find(|c| f.contains(*c)) {
            if *c == "Ingredient::add_stream_internal" { continue; }
            return c.to_string();
        }
    }
    site.first().map(|f| short_fn(f)).unwrap_or_else(|| "?".into())
}

/// Manifest labels are fresh UUIDs per signing: rename each to a token derived from the manifest's title and role.
fn rename_manifests(v: &mut Value) {
    let mut map: Vec<(String, String)> = vec![];
    let active = v["report"]["active_manifest"].as_str().unwrap_or("").to_string();
    if let Some(ms) = v["report"]["manifests"].as_object() {
        let mut named: Vec<(String, String)> = ms.iter().map(|(k, m)| (k.clone(), format!("{}{}", if *k == active { "active:" } else { "" }, m["title"].as_str().unwrap_or("?")))).collect();
        named.sort_by(|a, b| a.1.cmp(&b.1));
        for (i, (k, t)) in named.into_iter().enumerate() { map.push((k, format!("<manifest {i} {t}>"))); }
    }
    fn walk(v: &mut Value, map: &[(String, String)]) {
        let sub = |s: &str| { let mut s = s.to_string(); for (k, t) in map { if s.contains(k.as_str()) { s = s.replace(k.as_str(), t); } } s };
        match v {
            Value::Object(m) => {
                let keys: Vec<String> = m.keys().cloned().collect();
                let mut items: Vec<(String, Value)> = vec![];
                for k in keys { let mut x = m.remove(&k).unwrap(); walk(&mut x, map); items.push((sub(&k), x)); }
                items.sort_by(|a, b| a.0.cmp(&b.0));
                for (k, x) in items { m.insert(k, x); }
            }
            Value::Array(a) => a.iter_mut().for_each(|x| walk(x, map)),
            Value::String(s) => *s = sub(s),
            _ => {}
        }
    }
    walk(v, &map);
}

fn normalise(v: &mut Value) {
    fn blank_uuids(s: &str) -> String {
        // blank anything shaped like a UUID (manifest labels, instance ids are fresh per signing)
        let b = s.as_bytes();
        let mut out = String::with_capacity(s.len());
        let mut i = 0;
        let is_uuid = |w: &[u8]| w.len() == 36 && w.iter().enumerate().all(|(j, c)| if [8, 13, 18, 23].contains(&j) { *c == b'-' } else { c.is_ascii_hexdigit() });
        while i < b.len() {
            if i + 36 <= b.len() && s.is_char_boundary(i) && s.is_char_boundary(i + 36) && is_uuid(&b[i..i + 36]) {
                out.push_str("<uuid>");
                i += 36;
            } else {
                let ch = s[i..].chars().next().unwrap();
                out.push(ch);
                i += ch.len_utf8();
            }
        }
        out
    }
    match v {
        Value::Object(m) => {
            for k in ["time", "hash", "pad", "pad2", "instance_id", "instanceId", "instanceID", "validationTime", "validation_time", "when"] {
                m.remove(k);
            }
            let keys: Vec<String> = m.keys().cloned().collect();
            for k in keys {
                let nk = blank_uuids(&k);
                let mut x = m.remove(&k).unwrap();
                normalise(&mut x);
                m.insert(nk, x);
            }
        }
        Value::Array(a) => a.iter_mut().for_each(normalise),
        Value::String(s) => *s = blank_uuids(s),
        _ => {}
    }
}

fn summary(r: &Reader) -> String {
    let mut v = report(r);
    rename_manifests(&mut v);
    normalise(&mut v);
    json!({"report": v, "codes": codes(r)}).to_string()
}

fn read_plain(fmt: &str, bytes: &[u8]) -> Result<String, String> {
    match read_bytes(ctx(&json!({"verify": {"remote_manifest_fetch": false}})), fmt, bytes) {
        Ok(r) => Ok(summary(&r)),
        Err(e) => Err(err_kind(&e)),
    }
}

/// outcome of one operation: Ok(summary string) | Err(kind) | panic
type Outcome = Result<Result<String, String>, String>;

struct Env<'a> {
    mime: &'a str,
    plain: &'a [u8],
    signed: &'a [u8],
    def: Value,
}

/// Runs `op` with wrapper streams configured by `cfg(stream_index, ctl)`; returns the outcome and the controls.
fn run_op(op: &str, env: &Env, setup: &dyn Fn(usize, &mut Ctl)) -> (Outcome, Vec<Arc<Mutex<Ctl>>>) {
    let mk = |bytes: Vec<u8>, idx: usize| {
        let (w, c) = Wrap::new(bytes);
        setup(idx, &mut c.lock().unwrap());
        (w, c)
    };
    let settings = json!({"verify": {"remote_manifest_fetch": false}});
    match op {
        "read" => {
            let (w, c) = mk(env.signed.to_vec(), 0);
            let o = catch(AssertUnwindSafe(|| match Reader::from_context(ctx(&settings)).with_stream(env.mime, w) {
                Ok(r) => Ok(summary(&r)),
                Err(e) => Err(err_kind(&e)),
            }));
            (o, vec![c])
        }
        "sign" | "resign" => {
            // "resign": the source already carries a manifest (it becomes the parent ingredient's provenance)
            let (mut src, c0) = mk(if op == "resign" { env.signed.to_vec() } else { env.plain.to_vec() }, 0);
            let (mut dst, c1) = mk(Vec::new(), 1);
            let o = catch(AssertUnwindSafe(|| {
                let mut b = Builder::from_context(ctx(&settings)).with_definition(env.def.to_string().as_str()).map_err(|e| format!("setup:{}", err_kind(&e)))?;
                let s = signer("ed25519");
                match b.sign(s.as_ref(), env.mime, &mut src, &mut dst) {
                    Ok(_) => {
                        let bytes = dst.inner.get_ref().clone();
                        Ok(match read_plain(env.mime, &bytes) {
                            Ok(s) => s,
                            Err(e) => format!("unreadable-output:{e}"),
                        })
                    }
                    Err(e) => Err(err_kind(&e)),
                }
            }));
            (o, vec![c0, c1])
        }
        "ingredient" => {
            let (mut ing, c) = mk(env.signed.to_vec(), 0);
            let o = catch(AssertUnwindSafe(|| {
                let def = simple_manifest_json("c35 parent", "image/jpeg");
                let mut b = Builder::from_context(ctx(&settings)).with_definition(def.to_string().as_str()).map_err(|e| format!("setup:{}", err_kind(&e)))?;
                let ij = json!({"title": "ing", "relationship": "componentOf"}).to_string();
                if let Err(e) = b.add_ingredient_from_stream(ij, env.mime, &mut ing) {
                    return Err(err_kind(&e));
                }
                let s = signer("ed25519");
                let mut src = Cursor::new(fixture("no_manifest.jpg"));
                let mut dst = Cursor::new(Vec::new());
                match b.sign(s.as_ref(), "image/jpeg", &mut src, &mut dst) {
                    Ok(_) => Ok(read_plain("image/jpeg", dst.get_ref()).unwrap_or_else(|e| format!("unreadable-output:{e}"))),
                    // add_ingredient_from_stream returned Ok: that is the outcome at stake, whatever the later signing does
                    Err(e) => Ok(format!("ingredient-accepted-then-sign-failed:{}", err_kind(&e))),
                }
            }));
            (o, vec![c])
        }
        "hash" => {
            let (mut w, c) = mk(env.signed.to_vec(), 0);
            let o = catch(AssertUnwindSafe(|| {
                let ex = vec![c2pa::HashRange::new(3, 10)];
                match c2pa::hash_stream_by_alg("sha256", &mut w, Some(ex), true) {
                    Ok(d) => Ok(hex::encode(d)),
                    Err(e) => Err(err_kind(&e)),
                }
            }));
            (o, vec![c])
        }
        _ => panic!("op {op}"),
    }
}

fn show(o: &Outcome) -> (String, String) {
    match o {
        Ok(Ok(s)) => ("ok".into(), s.clone()),
        Ok(Err(e)) => ("err".into(), e.clone()),
        Err(p) => ("panic".into(), p.chars().take(200).collect()),
    }
}

fn first_diff(a: &str, b: &str) -> String {
    let i = a.bytes().zip(b.bytes()).position(|(x, y)| x != y).unwrap_or(a.len().min(b.len()));
    let lo = i.saturating_sub(60);
    let cut = |s: &str| -> String { s.chars().skip(lo).take(160).collect() };
    format!("at {i}: base=...{} run=...{}", cut(a), cut(b))
}

pub fn run(args: &[String]) {
    let seed = arg_u64(args, "--seed", 1);
    let cap = arg_u64(args, "--cap", 12); // fault positions per (op, format, stream, kind)
    let shorts = arg_u64(args, "--shorts", 3); // chunked runs per (op, format)
    let formats: Vec<String> = arg(args, "--formats").map(|s| s.split(',').map(|x| x.to_string()).collect()).unwrap_or_else(|| FORMATS.iter().map(|f| f.0.to_string()).collect());
    let ops: Vec<String> = arg(args, "--ops").map(|s| s.split(',').map(|x| x.to_string()).collect()).unwrap_or_else(|| vec!["read".into(), "sign".into(), "resign".into(), "ingredient".into(), "hash".into()]);
    let mut rng = StdRng::seed_from_u64(seed ^ 0xC35);
    let mut out = Out::new();
    std::panic::set_hook(Box::new(|_| {}));
    for (name, mime, fx) in FORMATS.iter().filter(|f| formats.iter().any(|x| x == f.0)) {
        let plain = if *name == "avix" { crate::c07::decorate("avi", &fixture(fx)).unwrap_or_default() } else { fixture(fx) };
        let def = simple_manifest_json("c35", mime);
        let signed = match catch(AssertUnwindSafe(|| sign_bytes(ctx(&json!({"verify": {"remote_manifest_fetch": false}})), &def, mime, &plain, "ed25519"))) {
            Ok(Ok(b)) => b,
            other => {
                out.emit(&json!({"e": "setup", "format": name, "error": format!("{:?}", other.map(|r| r.map(|_| ()).map_err(|e| err_kind(&e))))}));
                continue;
            }
        };
        let env = Env { mime, plain: &plain, signed: &signed, def: def.clone() };
        for op in &ops {
            // baseline with well-behaved streams (also counts the calls per stream and kind)
            let (base, ctls) = run_op(op, &env, &|_, _| {});
            let (bk, bs) = show(&base);
            let counts: Vec<[u64; 4]> = ctls.iter().map(|c| c.lock().unwrap().counts).collect();
            out.emit(&json!({"e": "base", "format": name, "op": op, "result": bk, "detail": if bk == "ok" { Value::Null } else { json!(bs) }, "counts": counts, "state": state_of(&bs)}));
            if bk != "ok" {
                continue;
            }
            // determinism guard: a second baseline must give the same summary, otherwise comparisons mean nothing
            let (base2, _) = run_op(op, &env, &|_, _| {});
            let stable = show(&base2).1 == bs;
            // chunk mode
            for i in 0..shorts {
                let s = rng.gen::<u64>();
                let (o, ctls) = run_op(op, &env, &|idx, c| c.short = Some(StdRng::seed_from_u64(s ^ idx as u64)));
                let (k, d) = show(&o);
                let shorted: u64 = ctls.iter().map(|c| c.lock().unwrap().shorted).sum();
                let same = k == "ok" && d == bs;
                out.emit(&json!({"e": "run", "mode": "short", "format": name, "op": op, "i": i, "sseed": s.to_string(), "result": k, "same": same, "stable": stable, "shorted": shorted,
                    "detail": if same { Value::Null } else if k == "ok" { json!(first_diff(&bs, &d)) } else { json!(d) }, "state": if k == "ok" { state_of(&d) } else { Value::Null }}));
            }
            // fault mode
            for (si, cnt) in counts.iter().enumerate() {
                for (ki, kind) in KINDS.iter().enumerate() {
                    let n = cnt[ki];
                    if n == 0 {
                        continue;
                    }
                    let mut ks: Vec<u64> = if n <= cap { (1..=n).collect() } else {
                        // first / last calls, then one seeded position in each of the remaining equal strata
                        let mut v: Vec<u64> = vec![1, 2, 3, n - 1, n];
                        let strata = cap.saturating_sub(5).max(1);
                        for j in 0..strata { let lo = 1 + j * n / strata; let hi = ((j + 1) * n / strata).max(lo); v.push(rng.gen_range(lo..=hi)); }
                        v
                    };
                    ks.sort();
                    ks.dedup();
                    for k in ks {
                        for sticky in [false, true] {
                            let (o, ctls) = run_op(op, &env, &|idx, c| if idx == si { c.fault = Some((ki, k, sticky)) });
                            let (rk, d) = show(&o);
                            let c = ctls[si].lock().unwrap();
                            let same = rk == "ok" && d == bs;
                            out.emit(&json!({"e": "run", "mode": if sticky { "sticky" } else { "fault" }, "format": name, "op": op, "stream": si, "kind": kind, "k": k, "of": n, "reached": c.fired,
                                "after": c.after_fault_calls, "site": c.site, "catcher": catcher(&c.site), "result": rk, "same": same, "stable": stable, "detail": if rk == "ok" { Value::Null } else { json!(d) },
                                "state": if rk == "ok" { state_of(&d) } else { Value::Null }}));
                        }
                    }
                }
            }
        }
    }
}

fn state_of(summary: &str) -> Value {
    serde_json::from_str::<Value>(summary).ok().and_then(|v| v["report"]["state"].as_str().map(|s| json!(s))).unwrap_or(Value::Null)
}
