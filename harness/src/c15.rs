//! C15 -- embeddable (placeholder) signing: vectors {n, start, length} (exclusion-list shapes from MC_Embeddable) through
//! Builder::placeholder -> set_data_hash_exclusions -> update_hash_from_stream -> sign_embeddable, then the signed
//! manifest is patched over the placeholder and the asset is read back.
use std::io::Cursor;

use c2pa::{Builder, Context, HashRange};
use serde_json::{json, Value};

use crate::common::*;

/// where the composed placeholder is spliced into the bare asset
fn splice_offset(fmt: &str, src: &[u8]) -> usize {
    match fmt {
        "image/jpeg" => 2,                                   // after SOI
        "image/png" => 8 + 25,                               // after signature + IHDR chunk
        "image/gif" => { // after header + logical screen descriptor (+ global colour table)
            let flags = src[10];
            let gct = if flags & 0x80 != 0 { 3 * (1usize << ((flags & 7) + 1)) } else { 0 };
            13 + gct
        }
        _ => 0,
    }
}

pub fn replay(args: &[String]) {
    let fmts: Vec<String> = arg(args, "--formats").unwrap_or("jpg,png".into()).split(',').map(|s| s.to_string()).collect();
    let algs: Vec<String> = arg(args, "--algs").unwrap_or("es256".into()).split(',').map(|s| s.to_string()).collect();
    let vectors = read_ndjson_stdin();
    let mut out = Out::new();
    for f in &fmts {
        let (fmt, fx) = match f.as_str() { "jpg" => ("image/jpeg", "no_manifest.jpg"), "png" => ("image/png", "sample1.png"), "gif" => ("image/gif", "sample1.gif"), _ => continue };
        let src = fixture(fx);
        for (vi, v) in vectors.iter().enumerate() {
            let alg = &algs[vi % algs.len()];
            let r = catch(std::panic::AssertUnwindSafe(|| -> Result<Value, c2pa::Error> {
                let c = Context::new().with_settings(try_settings(&Value::Null)?)?.with_signer(WrapSigner { inner: signer(alg), reserve: None, tsa: None });
                // one builder for all rounds (placeholder/sign may be repeated on the same builder)
                let mut b = Builder::from_context(c).with_definition(simple_manifest_json("c15", fmt).to_string().as_str())?;
                let mut rounds_out = vec![];
                for rd in v["rounds"].as_array().unwrap() {
                    let n = rd["n"].as_u64().unwrap() as usize;
                    let smag = rd["start"].as_u64().unwrap();
                    let lmag = rd["length"].as_u64().unwrap();
                    let ph = b.placeholder(fmt)?;
                    let off = splice_offset(fmt, &src);
                    let mut asset = Vec::with_capacity(src.len() + ph.len());
                    asset.extend_from_slice(&src[..off]);
                    asset.extend_from_slice(&ph);
                    asset.extend_from_slice(&src[off..]);
                    // exclusions: the manifest itself first, then n-1 further ranges with the requested magnitudes,
                    // placed after the manifest where the asset is long enough (they exclude media bytes, which is legal)
                    let mut ex = vec![HashRange::new(off as u64, ph.len() as u64)];
                    let after = (off + ph.len()) as u64;
                    for i in 1..n {
                        let len = lmag.min(64).max(1) + (i as u64 % 3);
                        let want = smag.max(after) + (i as u64) * (lmag.min(64) + 8);
                        let start = if want + len < asset.len() as u64 { want } else { after + (i as u64) * 70 };
                        ex.push(HashRange::new(start, if lmag > 64 && start + lmag < asset.len() as u64 && i == 1 { lmag } else { len }));
                    }
                    let exj: Vec<Value> = ex.iter().map(|h| json!([h.start(), h.length()])).collect();
                    b.set_data_hash_exclusions(ex)?;
                    b.update_hash_from_stream(fmt, &mut Cursor::new(asset.clone()))?;
                    let signed = match b.sign_embeddable(fmt) {
                        Ok(s) => s,
                        Err(e) => { rounds_out.push(json!({"sign": format!("Err:{}", err_kind(&e)), "placeholder_len": ph.len(), "exclusions": exj})); continue; }
                    };
                    let mut rec = json!({"sign": "Ok", "placeholder_len": ph.len(), "signed_len": signed.len(), "exclusions": exj});
                    if signed.len() == ph.len() {
                        let mut patched = asset.clone();
                        patched[off..off + signed.len()].copy_from_slice(&signed);
                        rec["read"] = match read_bytes(ctx(&Value::Null), fmt, &patched) {
                            Ok(r) => json!({"state": state_str(&r), "failures": failure_codes(&r)}),
                            Err(e) => json!({"state": format!("ReadErr:{}", err_kind(&e))}),
                        };
                    }
                    rounds_out.push(rec);
                }
                Ok(json!({"rounds": rounds_out}))
            }));
            let rec = match r {
                Ok(Ok(v)) => v,
                Ok(Err(e)) => json!({"rounds": [{"sign": format!("SetupErr:{}", err_kind(&e)), "msg": format!("{e}")}]}),
                Err(p) => json!({"rounds": [{"sign": "Panic", "msg": p}]}),
            };
            out.emit(&json!({"format": f, "alg": alg, "vector": v, "obs": rec}));
        }
        // the earlier entry points (data_hashed_placeholder / sign_data_hashed_embeddable): a dense sweep of the encoded size of
        // the exclusion list -- `extra` further ranges, `big` of them at offsets >= 65536 (5-byte CBOR integers instead of 3),
        // and `steps` one-byte increments spread over the lengths (1, 2 or 3 byte integers)
        let alg = &algs[0];
        for extra in 0..=11usize {
            for big in [0, extra / 2, extra] {
                for steps in 0..=(2 * extra) {
                    if extra > 0 && big > extra { continue; }
                    let r = catch(std::panic::AssertUnwindSafe(|| -> Result<Value, c2pa::Error> {
                        let s = signer(alg);
                        let mut b = Builder::from_context(ctx(&Value::Null)).with_definition(simple_manifest_json("c15 legacy", fmt).to_string().as_str())?;
                        let ph = b.data_hashed_placeholder(s.reserve_size(), fmt)?;
                        let off = splice_offset(fmt, &src);
                        let mut asset = Vec::with_capacity(src.len() + ph.len());
                        asset.extend_from_slice(&src[..off]);
                        asset.extend_from_slice(&ph);
                        asset.extend_from_slice(&src[off..]);
                        let mut ex = vec![HashRange::new(off as u64, ph.len() as u64)];
                        let after = (off + ph.len()) as u64;
                        for i in 0..extra {
                            let start = if i < extra - big { after + 300 + 400 * i as u64 } else { 66000u64.max(after + 6000) + 400 * i as u64 };
                            // each step lengthens one range's length field by one encoded byte: 10 -> 100 -> 300
                            let bump = (steps + extra - 1 - i) / extra.max(1);   // steps spread over the ranges
                            let len = match bump.min(2) { 0 => 10u64, 1 => 100, _ => 300 };
                            ex.push(HashRange::new(start, len));
                        }
                        let exj: Vec<Value> = ex.iter().map(|h| json!([h.start(), h.length()])).collect();
                        if ex.iter().any(|h| h.start() + h.length() > asset.len() as u64) { return Ok(json!({"sign": "skipped"})); }
                        let mut dh = c2pa::assertions::DataHash::new("jumbf manifest", "sha256");
                        dh.exclusions = Some(ex.clone());
                        let h = c2pa::hash_stream_by_alg("sha256", &mut Cursor::new(asset.clone()), dh.exclusions.clone(), true)?;
                        dh.set_hash(h);
                        let signed = match b.sign_data_hashed_embeddable(s.as_ref(), &dh, fmt) {
                            Ok(x) => x,
                            Err(e) => return Ok(json!({"sign": format!("Err:{}", err_kind(&e)), "placeholder_len": ph.len(), "exclusions": exj})),
                        };
                        let mut rec = json!({"sign": "Ok", "placeholder_len": ph.len(), "signed_len": signed.len(), "exclusions": exj});
                        if signed.len() == ph.len() {
                            let mut patched = asset.clone();
                            patched[off..off + signed.len()].copy_from_slice(&signed);
                            rec["read"] = match read_bytes(ctx(&Value::Null), fmt, &patched) {
                                Ok(r) => json!({"state": state_str(&r), "failures": failure_codes(&r)}),
                                Err(e) => json!({"state": format!("ReadErr:{}", err_kind(&e))}),
                            };
                        }
                        Ok(rec)
                    }));
                    let rec = match r {
                        Ok(Ok(v)) => v,
                        Ok(Err(e)) => json!({"sign": format!("SetupErr:{}", err_kind(&e)), "msg": format!("{e}")}),
                        Err(p) => json!({"sign": "Panic", "msg": p}),
                    };
                    if rec["sign"] == "skipped" { continue; }
                    out.emit(&json!({"format": f, "alg": alg, "vector": {"legacy": true, "extra": extra, "big": big, "steps": steps, "rounds": []}, "obs": {"rounds": [rec]}}));
                }
            }
        }
    }
}
