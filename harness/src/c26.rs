//! C26 / C27 -- HTTP policy stack: replay of TLC behaviours (MC_HttpPolicy) through the real
//! Redirect(Restricted(transport)) stack (hook policy_stack_sync / policy_stack_async) over a scripted,
//! recording transport.  Every abstract host class is concretised in several notations.
use std::io::Read;
use std::net::IpAddr;
use std::sync::{Arc, Mutex};

use c2pa::http::{restricted::HostPattern, AsyncHttpResolver, HttpResolverError, SyncHttpResolver};
use http::{Request, Response};
use rand::{rngs::StdRng, Rng, SeedableRng};
use serde_json::{json, Value};

use crate::common::*;

pub fn concretes(class: &str) -> Vec<&'static str> {
    match class {
        "A" => vec!["a.example", "A.Example"],
        "SA" => vec!["sub.a.example", "Sub.A.example"],
        "SSA" => vec!["x.sub.a.example", "deep.x.sub.a.example"],
        "FA" => vec!["fakea.example", "xa.example"],
        "B" => vec!["b.example", "B.EXAMPLE"],
        "localhost" => vec!["localhost", "LOCALHOST", "localhost.", "LocalHost"],
        "sub.localhost" => vec!["foo.localhost", "a.b.localhost", "x.LOCALHOST", "foo.localhost."],
        "loopback" => vec!["127.0.0.1", "127.1", "2130706433", "0x7f000001", "0177.0.0.1", "0x7f.0.0.1", "127.255.255.254", "127.0.0.1.", "0x7F.1", "017700000001"],
        "private10" => vec!["10.0.0.1", "10.255.255.254", "167772161", "0xa.0.0.1", "012.0.0.1", "10.1"],
        "private172" => vec!["172.16.0.1", "172.31.255.255", "172.20.10.5", "0xac.16.0.1", "2886729729"],
        "private192" => vec!["192.168.1.1", "192.168.255.255", "3232235777", "0xc0.0xa8.0.1", "192.168.1"],
        "linklocal" => vec!["169.254.169.254", "169.254.0.1", "2852039166", "0xa9fea9fe", "0251.0376.0251.0376"],
        "unspecified" => vec!["0.0.0.0", "0", "0x0", "00.0.0.0"],
        "zeronet" => vec!["0.1.2.3", "0.255.255.255", "0.0.0.1"],
        "multicast" => vec!["224.0.0.1", "239.255.255.255", "230.1.2.3", "3758096385"],
        "broadcast" => vec!["255.255.255.255", "4294967295", "0xffffffff"],
        "doc1" => vec!["192.0.2.1", "192.0.2.255"],
        "doc2" => vec!["198.51.100.7", "198.51.100.0"],
        "doc3" => vec!["203.0.113.9", "203.0.113.255"],
        "cgnat" => vec!["100.64.0.1", "100.127.255.255", "100.100.100.100", "1681915905"],
        "v6unspecified" => vec!["[::]", "[0:0:0:0:0:0:0:0]"],
        "v6loopback" => vec!["[::1]", "[0:0:0:0:0:0:0:1]", "[0000:0000:0000:0000:0000:0000:0000:0001]"],
        "v6ula" => vec!["[fc00::1]", "[fd12:3456:789a::1]", "[FDFF:ffff::ffff]", "[fc00:0:0:0:0:0:0:0]"],
        "v6linklocal" => vec!["[fe80::1]", "[febf::abcd]", "[FE80::1]"],
        "v6multicast" => vec!["[ff02::1]", "[ff0e::1]", "[FF00::]"],
        "mapped-loopback" => vec!["[::ffff:127.0.0.1]", "[::ffff:7f00:1]", "[0:0:0:0:0:ffff:127.0.0.1]", "[::FFFF:127.0.0.1]"],
        "mapped-private" => vec!["[::ffff:10.0.0.1]", "[::ffff:c0a8:101]", "[::ffff:172.16.0.1]", "[::ffff:a00:1]"],
        "mapped-linklocal" => vec!["[::ffff:169.254.169.254]", "[::ffff:a9fe:a9fe]"],
        "ip4global" => vec!["93.184.216.34", "8.8.8.8", "11.0.0.1", "172.15.255.255", "172.32.0.1", "100.63.255.255", "100.128.0.1", "169.253.255.255", "169.255.0.1", "192.0.3.1", "223.255.255.255", "1.1.1.1", "126.255.255.255", "128.0.0.1", "192.167.255.255", "192.169.0.1", "198.51.101.1", "203.0.114.1"],
        "ip6global" => vec!["[2606:4700::1111]", "[2a00:1450:4001::64]", "[fbff::1]", "[fe7f::1]", "[fec0::1]", "[::ffff:8.8.8.8]"],
        _ => vec![],
    }
}

/// Independent classifier: concrete host string (as it reached the transport) -> abstract class.
pub fn classify(host: &str) -> String {
    let h = host.trim_start_matches('[').trim_end_matches(']').trim_end_matches('.').to_ascii_lowercase();
    if let Ok(ip) = h.parse::<IpAddr>() {
        let v4 = match ip {
            IpAddr::V4(v) => Some((v.octets(), false)),
            IpAddr::V6(v) => {
                let s = v.segments();
                if s[0..5] == [0, 0, 0, 0, 0] && s[5] == 0xffff {
                    let o = v.octets();
                    Some(([o[12], o[13], o[14], o[15]], true))
                } else { None }
            }
        };
        if let Some((o, mapped)) = v4 {
            let c = if o == [0, 0, 0, 0] { "unspecified" }
                else if o[0] == 0 { "zeronet" }
                else if o[0] == 127 { "loopback" }
                else if o[0] == 10 { "private10" }
                else if o[0] == 172 && (16..=31).contains(&o[1]) { "private172" }
                else if o[0] == 192 && o[1] == 168 { "private192" }
                else if o[0] == 169 && o[1] == 254 { "linklocal" }
                else if o == [255, 255, 255, 255] { "broadcast" }
                else if (224..=239).contains(&o[0]) { "multicast" }
                else if o[0] == 192 && o[1] == 0 && o[2] == 2 { "doc1" }
                else if o[0] == 198 && o[1] == 51 && o[2] == 100 { "doc2" }
                else if o[0] == 203 && o[1] == 0 && o[2] == 113 { "doc3" }
                else if o[0] == 100 && (64..=127).contains(&o[1]) { "cgnat" }
                else { "ip4global" };
            if !mapped { return c.to_string(); }
            return match c {
                "ip4global" => "ip6global".to_string(),
                "loopback" => "mapped-loopback".to_string(),
                "linklocal" => "mapped-linklocal".to_string(),
                "private10" | "private172" | "private192" => "mapped-private".to_string(),
                other => format!("mapped-{other}"),
            };
        }
        if let IpAddr::V6(v) = ip {
            let s0 = v.segments()[0];
            return (if v.is_unspecified() { "v6unspecified" } else if v.is_loopback() { "v6loopback" }
                else if s0 & 0xff00 == 0xff00 { "v6multicast" } else if s0 & 0xfe00 == 0xfc00 { "v6ula" }
                else if s0 & 0xffc0 == 0xfe80 { "v6linklocal" } else { "ip6global" }).to_string();
        }
    }
    if h == "localhost" { return "localhost".into(); }
    if h.ends_with(".localhost") { return "sub.localhost".into(); }
    match h.as_str() {
        "a.example" => "A".into(),
        "sub.a.example" => "SA".into(),
        "b.example" => "B".into(),
        "fakea.example" | "xa.example" => "FA".into(),
        _ if h.ends_with(".sub.a.example") => "SSA".into(),
        _ => format!("unknown:{h}"),
    }
}

fn port_str(scheme: &str, port: &str) -> String {
    match port { "none" => "".into(), "dflt" => if scheme == "http" { ":80".into() } else { ":443".into() }, p => format!(":{p}") }
}
fn port_class(scheme: &str, port: Option<u16>) -> String {
    match port { None => "none".into(), Some(443) if scheme == "https" => "dflt".into(), Some(80) if scheme == "http" => "dflt".into(), Some(p) => p.to_string() }
}
fn pick<'a>(rng: &mut StdRng, v: &[&'a str]) -> &'a str { v[rng.gen_range(0..v.len())] }
fn uri_str(u: &Value, rng: &mut StdRng, canonical: bool) -> String {
    let scheme = u["scheme"].as_str().unwrap();
    let all = concretes(u["host"].as_str().unwrap());
    // the initial request is not passed through a URL parser: only notations std::net / DNS would accept as such
    let host = if canonical { let n = if u["host"].as_str().unwrap().len() <= 3 { all.len() } else { 1 }; pick(rng, &all[..n]) } else { pick(rng, &all) };
    let paths = ["/", "/m.c2pa", "/a/b?x=1&y=2", "/ocsp"];
    format!("{scheme}://{host}{}{}", port_str(scheme, u["port"].as_str().unwrap()), pick(rng, &paths))
}
fn pattern_str(p: &Value) -> String {
    let scheme = p["scheme"].as_str().unwrap();
    let host = p["host"].as_str().unwrap();
    let mut s = String::new();
    if scheme != "none" { s.push_str(scheme); s.push_str("://"); }
    if host != "none" {
        if p["wild"].as_bool().unwrap() { s.push_str("*."); }
        s.push_str(concretes(host)[0]);
        let ps = if scheme == "none" { "https" } else { scheme };
        s.push_str(&port_str(ps, p["port"].as_str().unwrap()));
    }
    s
}

#[derive(Clone)]
struct Scripted {
    answers: Arc<Vec<(u16, Option<String>, bool)>>, // (status, location, transport_error)
    log: Arc<Mutex<Vec<Value>>>,
}
impl Scripted {
    fn answer(&self, req: Request<Vec<u8>>) -> Result<Response<Box<dyn Read>>, HttpResolverError> {
        let mut log = self.log.lock().unwrap();
        let k = log.len();
        let uri = req.uri().clone();
        let scheme = uri.scheme_str().unwrap_or("").to_string();
        let mut names: Vec<String> = req.headers().keys().map(|h| h.as_str().to_string()).collect();
        names.sort();
        log.push(json!({"uri": uri.to_string(), "scheme": scheme, "host": classify(uri.host().unwrap_or("")),
                        "port": port_class(&scheme, uri.port_u16()), "headers": names}));
        let (status, loc, err) = self.answers.get(k).cloned().unwrap_or((200, None, false));
        if err {
            return Err(HttpResolverError::Io(std::io::Error::new(std::io::ErrorKind::Other, "scripted transport failure")));
        }
        let mut b = Response::builder().status(status);
        if let Some(l) = loc { b = b.header("Location", l); }
        Ok(b.body(Box::new(std::io::Cursor::new(b"ok".to_vec())) as Box<dyn Read>).unwrap())
    }
}
impl SyncHttpResolver for Scripted {
    fn http_resolve(&self, req: Request<Vec<u8>>) -> Result<Response<Box<dyn Read>>, HttpResolverError> { self.answer(req) }
}
#[async_trait::async_trait]
impl AsyncHttpResolver for Scripted {
    async fn http_resolve_async(&self, req: Request<Vec<u8>>) -> Result<Response<Box<dyn Read>>, HttpResolverError> { self.answer(req) }
}

fn result_class(r: &Result<Response<Box<dyn Read>>, HttpResolverError>) -> String {
    match r {
        Ok(_) => "ok".into(),
        Err(HttpResolverError::UriDisallowed { .. }) => "uriDisallowed".into(),
        Err(HttpResolverError::RedirectDisallowed { .. }) => "redirectDisallowed".into(),
        Err(e) => {
            let d = format!("{e:?}");
            if d.starts_with("RedirectTargetDisallowed") { "targetDisallowed".into() }
            else if d.starts_with("TooManyRedirects") { "tooMany".into() }
            else if d.starts_with("Io") { "transportError".into() }
            else { format!("other:{}", d.split(|c: char| !c.is_alphanumeric()).next().unwrap_or("")) }
        }
    }
}

pub fn replay(args: &[String]) {
    let seed = arg_u64(args, "--seed", 1);
    let k = arg_u64(args, "--k", 2);
    let mut rng = StdRng::seed_from_u64(seed ^ 0xC26);
    let mut out = Out::new();
    let rt = tokio::runtime::Builder::new_current_thread().build().unwrap();
    for (idx, v) in read_ndjson_stdin().into_iter().enumerate() {
        let mut runs = vec![];
        for rep in 0..k {
            let allow: Option<Vec<HostPattern>> = if v["restricted"].as_bool().unwrap() {
                Some(v["allow"].as_array().unwrap().iter().map(|p| HostPattern::new(&pattern_str(p))).collect())
            } else { None };
            let allow_redirects = v["allowRedirects"].as_bool().unwrap();
            let statuses = [301u16, 302, 303, 307, 308];
            let mut cur_scheme = v["first"]["uri"]["scheme"].as_str().unwrap().to_string();
            let answers: Vec<(u16, Option<String>, bool)> = v["script"].as_array().unwrap().iter().map(|a| {
                match a["kind"].as_str().unwrap() {
                    "final" => (200, None, false),
                    "error" => (200, None, true),
                    _ => {
                        let loc = &a["loc"];
                        let l = match loc["kind"].as_str().unwrap() {
                            "rel" => ["/next", "other/path?q=1", "../up", "?only=query"][rng.gen_range(0..4)].to_string(),
                            "bad" => ["http://[::1", "http://exa mple.org/", "https://[zz]/"][rng.gen_range(0..3)].to_string(),
                            _ => {
                                let full = uri_str(&loc["uri"], &mut rng, false);
                                let tscheme = loc["uri"]["scheme"].as_str().unwrap().to_string();
                                // scheme-less (network-path) references resolve against the current scheme
                                let l = if tscheme == cur_scheme && rng.gen_bool(0.35) {
                                    let rest = full.splitn(2, "://").nth(1).unwrap().to_string();
                                    match rng.gen_range(0..3) { 0 => format!("//{rest}"), 1 => format!("/\\{rest}"), _ => format!("\\/{rest}") }
                                } else { full };
                                cur_scheme = tscheme;
                                l
                            }
                        };
                        (statuses[rng.gen_range(0..5)], Some(l), false)
                    }
                }
            }).collect();
            let first = &v["first"];
            let u0 = uri_str(&first["uri"], &mut rng, true);
            let mk_req = || {
                let mut b = Request::get(u0.as_str());
                for h in first["headers"].as_array().unwrap() {
                    let name = h.as_str().unwrap();
                    b = b.header(name, if name == "Host" { "a.example" } else { "secret-value" });
                }
                b.body(Vec::new())
            };
            let log = Arc::new(Mutex::new(vec![]));
            let t = Scripted { answers: Arc::new(answers.clone()), log: log.clone() };
            let flavour = if rep % 2 == 0 { "sync" } else { "async" };
            // the resolver stack is the one Context assembles from the settings (not a copy of it); the scripted
            // transport answers at the bottom through the generic resolvers' transport override (hook H2)
            let overlay = json!({"core": {"allow_redirects": allow_redirects,
                "allowed_network_hosts": if v["restricted"].as_bool().unwrap() { json!(v["allow"].as_array().unwrap().iter().map(pattern_str).collect::<Vec<_>>()) } else { Value::Null }}});
            let _ = &allow;
            let t2 = t.clone();
            c2pa::verif_hooks::set_transport(Some(Arc::new(move |req: Request<Vec<u8>>| {
                t2.answer(req).map(|r| r.map(|mut b| { let mut v = vec![]; let _ = b.read_to_end(&mut v); v }))
            })));
            let r = catch(std::panic::AssertUnwindSafe(|| {
                let req = match mk_req() { Ok(r) => r, Err(e) => return format!("badRequest:{e}") };
                let c = match try_settings(&overlay).and_then(|s| c2pa::Context::new().with_settings(s)) { Ok(c) => c, Err(e) => return format!("settings:{}", err_kind(&e)) };
                if flavour == "sync" {
                    result_class(&c.resolver().http_resolve(req))
                } else {
                    result_class(&rt.block_on(c.resolver_async().http_resolve_async(req)))
                }
            }));
            c2pa::verif_hooks::set_transport(None);
            let recorded = log.lock().unwrap().clone();
            runs.push(json!({"flavour": flavour, "first": u0, "locations": answers.iter().map(|a| a.1.clone()).collect::<Vec<_>>(),
                             "patterns": v["allow"].as_array().unwrap().iter().map(pattern_str).collect::<Vec<_>>(),
                             "recorded": recorded, "result": match r { Ok(s) => s, Err(p) => format!("panic:{p}") }}));
        }
        out.emit(&json!({"i": idx, "runs": runs}));
    }
}

/// vh c26-classify : self-check of the independent classifier against the table (every concrete must map to its class)
pub fn selfcheck(_args: &[String]) {
    let classes = ["A", "SA", "SSA", "FA", "B", "localhost", "sub.localhost", "loopback", "private10", "private172", "private192", "linklocal",
        "unspecified", "zeronet", "multicast", "broadcast", "doc1", "doc2", "doc3", "cgnat", "v6unspecified", "v6loopback", "v6ula", "v6linklocal",
        "v6multicast", "mapped-loopback", "mapped-private", "mapped-linklocal", "ip4global", "ip6global"];
    let mut bad = vec![];
    for c in classes {
        for h in concretes(c) {
            // run the concrete through the URL parser the way a Location header is processed
            let u = url::Url::parse(&format!("https://{h}/")).map(|u| u.host_str().unwrap_or("").to_string());
            match u {
                Ok(hs) => { let got = classify(&hs); if got != c { bad.push(json!({"class": c, "concrete": h, "parsed": hs, "got": got})); } }
                Err(e) => bad.push(json!({"class": c, "concrete": h, "parse_error": e.to_string()})),
            }
        }
    }
    println!("{}", json!({"bad": bad}));
}
