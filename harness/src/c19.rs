//! C19 -- ingredient graphs.  A really signed staircase store (A1; A2 <- A1; A3 <- A1,A2; A4 <- A1,A2,A3) is turned into
//! every graph of the family exported by TLC by retargeting ingredient references in place (all manifest labels have
//! the same length), and read back.  Long chains and large random graphs are built by repeated signing and run in a
//! child process with a time budget (a stack overflow or a hang is data).
use std::io::Cursor;
use std::panic::AssertUnwindSafe;
use std::time::Instant;

use c2pa::{Builder, Reader};
use rand::{rngs::StdRng, Rng, SeedableRng};
use serde_json::{json, Value};

use crate::c02::walk;
use crate::common::*;

fn settings_json() -> Value { json!({"verify": {"remote_manifest_fetch": false}}) }
fn fast_sign_settings() -> Value { json!({"verify": {"remote_manifest_fetch": false, "verify_after_sign": false}}) }

fn sign_with_ings(title: &str, ings: &[&Vec<u8>]) -> Result<Vec<u8>, String> { sign_with_ings_s(title, ings, &settings_json()) }
fn sign_with_ings_s(title: &str, ings: &[&Vec<u8>], st: &Value) -> Result<Vec<u8>, String> {
    let mut actions = vec![];
    if ings.is_empty() { actions.push(json!({"action": "c2pa.created", "digitalSourceType": "http://cv.iptc.org/newscodes/digitalsourcetype/digitalCapture"})); }
    for k in 0..ings.len() { actions.push(json!({"action": if k == 0 { "c2pa.opened" } else { "c2pa.placed" }, "parameters": {"ingredientIds": [format!("ING{}", k + 1)]}})); }
    let def = json!({"title": title, "format": "image/jpeg", "claim_generator_info": [{"name": "vh", "version": "0.1"}], "assertions": [{"label": "c2pa.actions", "data": {"actions": actions}}]});
    let mut b = Builder::from_context(ctx(st)).with_definition(def.to_string().as_str()).map_err(|e| err_kind(&e))?;
    for (k, bytes) in ings.iter().enumerate() {
        let ij = json!({"title": format!("ing{}", k + 1), "relationship": if k == 0 { "parentOf" } else { "componentOf" }, "label": format!("ING{}", k + 1)}).to_string();
        b.add_ingredient_from_stream(ij, "image/jpeg", &mut Cursor::new((*bytes).clone())).map_err(|e| format!("ingredient:{}", err_kind(&e)))?;
    }
    let s = signer("ed25519");
    let mut dst = Cursor::new(Vec::new());
    b.sign(s.as_ref(), "image/jpeg", &mut Cursor::new(fixture("no_manifest.jpg")), &mut dst).map_err(|e| format!("sign:{}", err_kind(&e)))?;
    Ok(dst.into_inner())
}

fn active_label(bytes: &[u8]) -> String {
    read_bytes(ctx(&settings_json()), "image/jpeg", bytes).ok().and_then(|r| r.active_label().map(|s| s.to_string())).unwrap_or_default()
}

/// byte ranges of the ingredient assertion boxes of the manifest box labelled `mlabel`, in store order
fn ingredient_boxes(store: &[u8], mlabel: &str) -> Vec<(usize, usize)> {
    let boxes = walk(store);
    let Some(mi) = boxes.iter().position(|b| b.ty == "jumb" && b.label == mlabel) else { return vec![] };
    let mut out = vec![];
    for (i, b) in boxes.iter().enumerate() {
        if b.ty == "jumb" && b.label.starts_with("c2pa.ingredient") {
            // is it inside manifest mi?
            let mut p = boxes[i].parent; let mut inside = false;
            while let Some(x) = p { if x == mi { inside = true; break; } p = boxes[x].parent; }
            if inside { out.push((b.off, b.size)); }
        }
    }
    out
}

fn read_store(store: &[u8], asset: &[u8]) -> Value {
    let t0 = Instant::now();
    let r = catch(AssertUnwindSafe(|| Reader::from_context(ctx(&settings_json())).with_manifest_data_and_stream(store, "image/jpeg", Cursor::new(asset.to_vec()))));
    let ms = t0.elapsed().as_millis() as u64;
    match r {
        Ok(Ok(r)) => json!({"state": state_str(&r), "failures": failure_codes(&r).into_iter().collect::<std::collections::BTreeSet<_>>(), "ms": ms}),
        Ok(Err(e)) => json!({"err": err_kind(&e), "ms": ms}),
        Err(p) => json!({"panic": p, "ms": ms}),
    }
}

/// vh c19-replay < vectors {id, edges:[[..],[..],[..],[..]]}
pub fn replay(_args: &[String]) {
    let mut out = Out::new();
    std::panic::set_hook(Box::new(|_| {}));
    // the staircase
    let a1 = sign_with_ings("G1", &[]).expect("A1");
    let a2 = sign_with_ings("G2", &[&a1]).expect("A2");
    let a3 = sign_with_ings("G3", &[&a1, &a2]).expect("A3");
    let a4 = sign_with_ings("G4", &[&a1, &a2, &a3]).expect("A4");
    let labels = [active_label(&a1), active_label(&a2), active_label(&a3), active_label(&a4)];
    let store = c2pa::jumbf_io::load_jumbf_from_memory("image/jpeg", &a4).expect("store");
    let slots: Vec<Vec<(usize, usize)>> = labels.iter().map(|l| ingredient_boxes(&store, l)).collect();
    let missing = "urn:c2pa:00000000-dead-4bad-8bad-000000000000";
    let base = read_store(&store, &a4);
    out.emit(&json!({"e": "base", "labels": labels, "slots": slots.iter().map(|s| s.len()).collect::<Vec<_>>(), "read": base, "same_len": labels.iter().all(|l| l.len() == missing.len())}));
    for v in read_ndjson_stdin() {
        let edges = v["edges"].as_array().unwrap();
        let mut s = store.clone();
        let mut changed = 0;
        for (i, row) in edges.iter().enumerate() {
            for (k, t) in row.as_array().unwrap().iter().enumerate() {
                let t = t.as_u64().unwrap() as usize;
                let orig = k + 1; // slot k of manifest i+1 originally refers to manifest k+1
                if t == orig { continue; }
                let Some(&(off, size)) = slots[i].get(k) else { continue };
                let from = labels[orig - 1].as_bytes();
                let to = if t == 0 { missing.as_bytes() } else { labels[t - 1].as_bytes() };
                let mut p = off;
                while p + from.len() <= off + size { if &s[p..p + from.len()] == from { s[p..p + from.len()].copy_from_slice(to); changed += 1; p += from.len(); } else { p += 1; } }
            }
        }
        out.emit(&json!({"e": "graph", "id": v["id"], "changed": changed, "read": read_store(&s, &a4)}));
    }
}

/// vh c19-big --n N --seed S --mode chain|random : build a store of N manifests by repeated signing, then (random mode)
/// retarget references at random; prints build progress and read results.  Meant to run as a child process.
pub fn big(args: &[String]) {
    let n = arg_u64(args, "--n", 40) as usize;
    let seed = arg_u64(args, "--seed", 1);
    let mode = arg(args, "--mode").unwrap_or_else(|| "chain".into());
    let mut rng = StdRng::seed_from_u64(seed ^ 0xC19);
    let mut out = Out::new();
    std::panic::set_hook(Box::new(|_| {}));
    let mut assets: Vec<Vec<u8>> = vec![];
    let mut labels: Vec<String> = vec![];
    let t0 = Instant::now();
    for i in 0..n {
        let r = if i == 0 { sign_with_ings("N1", &[]) } else if mode == "random" && i >= 2 { let j = rng.gen_range(0..i - 1); sign_with_ings(&format!("N{}", i + 1), &[&assets[i - 1], &assets[j]]) } else if mode == "shortcut" { sign_with_ings_s(&format!("N{}", i + 1), &[&assets[i - 1]], &fast_sign_settings()) } else { sign_with_ings(&format!("N{}", i + 1), &[&assets[i - 1]]) };
        match r {
            Ok(a) => { let rd = read_bytes(ctx(&settings_json()), "image/jpeg", &a); let (st, lb) = match &rd { Ok(r) => (state_str(r).to_string(), r.active_label().unwrap_or("").to_string()), Err(e) => (format!("err:{}", err_kind(e)), String::new()) };
                if [10usize, 20, 40, 80, 120, 160, 198, 199, 200, 201, 202, 250, 300].contains(&(i + 1)) || i + 1 == n { out.emit(&json!({"e": "built", "depth": i + 1, "state": st, "secs": t0.elapsed().as_secs_f64()})); }
                labels.push(lb); assets.push(a); }
            Err(e) => { out.emit(&json!({"e": "build-refused", "depth": i + 1, "err": e, "secs": t0.elapsed().as_secs_f64()})); break; }
        }
    }
    if mode == "shortcut" && assets.len() >= 2 {
        // a root whose first ingredient is the far end of the chain (reached by a short path first) and whose second is the
        // near end: the far end is then met again at the bottom of the over-deep path
        let r = sign_with_ings_s("ROOT", &[&assets[0], assets.last().unwrap()], &fast_sign_settings());
        match r {
            Ok(a) => { let rd = read_bytes(ctx(&settings_json()), "image/jpeg", &a); let st = match &rd { Ok(r) => state_str(r).to_string(), Err(e) => format!("err:{}", err_kind(e)) };
                       out.emit(&json!({"e": "shortcut", "chain": assets.len(), "state": st, "secs": t0.elapsed().as_secs_f64()})); }
            Err(e) => out.emit(&json!({"e": "shortcut", "chain": assets.len(), "state": format!("refused:{e}"), "secs": t0.elapsed().as_secs_f64()})),
        }
        out.emit(&json!({"e": "end"}));
        return;
    }
    let last = assets.last().unwrap().clone();
    let store = c2pa::jumbf_io::load_jumbf_from_memory("image/jpeg", &last).expect("store");
    out.emit(&json!({"e": "read", "kind": "as-built", "manifests": assets.len(), "store_len": store.len(), "read": read_store(&store, &last)}));
    if mode == "random" {
        let missing = "urn:c2pa:00000000-dead-4bad-8bad-000000000000";
        for round in 0..6 {
            let mut s = store.clone();
            let mut kinds = vec![];
            let nmut = [1usize, 2, 5, 20, 60, 150][round].min(labels.len().saturating_sub(1));
            for _ in 0..nmut {
                let i = rng.gen_range(1..labels.len());
                let slots = ingredient_boxes(&s, &labels[i]);
                if slots.is_empty() { continue; }
                let (off, size) = slots[rng.gen_range(0..slots.len())];
                let t = rng.gen_range(0..=labels.len());
                let to = if t == labels.len() { kinds.push("dangling"); missing.as_bytes().to_vec() } else { kinds.push(if t >= i { "back-or-self" } else { "forward" }); labels[t].as_bytes().to_vec() };
                // replace whatever label the slot currently holds
                let mut p = off;
                while p + 9 <= off + size { if &s[p..p + 9] == b"urn:c2pa:" && p + to.len() <= off + size { s[p..p + to.len()].copy_from_slice(&to); p += to.len(); } else { p += 1; } }
            }
            out.emit(&json!({"e": "read", "kind": "random", "round": round, "mutations": nmut, "kinds": kinds.len(), "manifests": assets.len(), "read": read_store(&s, &last)}));
        }
    }
    out.emit(&json!({"e": "end"}));
}
