//! C33 -- CAWG X.509 identity assertions.  The manifest is signed through IdentityAssertionSigner with an identity
//! assertion over chosen referenced assertions; the credential holder is the SDK's X509CredentialHolder, optionally
//! wrapped so that it signs an altered payload or returns a damaged signature (the C2PA part stays intact).  Stored
//! assertions are then also altered in the output.  Read with CawgValidator (async post-validation).
use std::io::Cursor;
use std::panic::AssertUnwindSafe;

use c2pa::identity::{builder::{CredentialHolder, IdentityAssertionBuilder, IdentityAssertionSigner, IdentityBuilderError}, validator::CawgValidator, x509::X509CredentialHolder, SignerPayload};
use c2pa::{Builder, Context, Reader};
use serde_json::{json, Value};

use crate::common::*;

struct MutHolder { inner: X509CredentialHolder, mode: String }
impl CredentialHolder for MutHolder {
    fn sig_type(&self) -> &'static str { self.inner.sig_type() }
    fn reserve_size(&self) -> usize { self.inner.reserve_size() }
    fn sign(&self, sp: &SignerPayload) -> Result<Vec<u8>, IdentityBuilderError> {
        match self.mode.as_str() {
            "altered-payload" => {
                // the signature covers a payload that differs from the one stored in the assertion
                let mut sp2 = sp.clone();
                sp2.roles.push("cawg.editor".to_string());
                self.inner.sign(&sp2)
            }
            "bad-signature" => { let mut s = self.inner.sign(sp)?; let n = s.len(); s[n - 5] ^= 0x01; Ok(s) }
            _ => self.inner.sign(sp),
        }
    }
}

fn pem_chain_to_der(pem: &[u8]) -> Vec<Vec<u8>> { x509_parser::pem::Pem::iter_from_buffer(pem).filter_map(|p| p.ok()).map(|p| p.contents).collect() }

fn read_cawg(c: &std::sync::Arc<Context>, mime: &str, bytes: &[u8], rt: &tokio::runtime::Runtime) -> Value {
    let r = catch(AssertUnwindSafe(|| rt.block_on(async {
        let mut reader = Reader::from_shared_context(c).with_stream_async(mime, Cursor::new(bytes.to_vec())).await.map_err(|e| err_kind(&e))?;
        let before = state_str(&reader).to_string();
        let v = CawgValidator::new(c);
        reader.post_validate_async(&v).await.map_err(|e| format!("post:{:?}", e))?;
        let mut out = codes(&reader);
        out["state_before_cawg"] = json!(before);
        Ok::<Value, String>(out)
    })));
    match r { Ok(Ok(v)) => v, Ok(Err(e)) => json!({"err": e}), Err(p) => json!({"panic": p}) }
}

pub fn run(_args: &[String]) {
    let rt = tokio::runtime::Builder::new_current_thread().enable_all().build().unwrap();
    let mut out = Out::new();
    std::panic::set_hook(Box::new(|_| {}));
    for v in read_ndjson_stdin() {
        let mode = v["mode"].as_str().unwrap_or("ok").to_string();
        let refs: Vec<String> = v["refs"].as_array().map(|a| a.iter().map(|x| x.as_str().unwrap().to_string()).collect()).unwrap_or_default();
        let calg = v["cawg_alg"].as_str().unwrap_or("ed25519");
        // the asset format (its hard binding is c2pa.hash.data for JPEG / PNG, c2pa.hash.bmff.v3 for MP4)
        let (mime, fx) = match v["format"].as_str().unwrap_or("jpeg") { "png" => ("image/png", "libpng-test.png"), "mp4" => ("video/mp4", "video1_no_manifest.mp4"), _ => ("image/jpeg", "no_manifest.jpg") };
        let res = catch(AssertUnwindSafe(|| -> Value {
            let c2pa_raw = match c2pa_raw_crypto::signer_from_private_key(&fixture("certs/es256.pem"), c2pa::SigningAlg::Es256) { Ok(s) => s, Err(e) => return json!({"sign": format!("rawsigner:{e}")}) };
            let cawg_raw = match c2pa_raw_crypto::signer_from_private_key(&fixture(&format!("certs/{calg}.pem")), alg_of(calg)) { Ok(s) => s, Err(e) => return json!({"sign": format!("rawsigner:{e}")}) };
            let mut ias = IdentityAssertionSigner::new(c2pa_raw, pem_chain_to_der(&fixture("certs/es256.pub")));
            let holder = MutHolder { inner: X509CredentialHolder::from_raw_signer(cawg_raw, pem_chain_to_der(&fixture(&format!("certs/{calg}.pub")))), mode: mode.clone() };
            let mut iab = IdentityAssertionBuilder::for_credential_holder(holder);
            let r: Vec<&str> = refs.iter().map(|s| s.as_str()).collect();
            iab.add_referenced_assertions(&r);
            ias.add_identity_assertion(iab);
            let def = json!({"title": "c33", "format": mime, "claim_generator_info": [{"name": "vh", "version": "0.1"}],
                "assertions": [{"label": "c2pa.actions", "data": {"actions": [{"action": "c2pa.created", "digitalSourceType": "http://cv.iptc.org/newscodes/digitalsourcetype/digitalCapture"}]}},
                               {"label": "org.vh.alpha", "data": {"marker": "VHC33-ALPHA-PAYLOAD"}}, {"label": "org.vh.beta", "data": {"marker": "VHC33-BETA-PAYLOAD"}}, {"label": "org.vh.gamma", "data": {"marker": "VHC33-GAMMA-PAYLOAD"}}]});
            let sctx = ctx(&json!({"verify": {"remote_manifest_fetch": false, "verify_after_sign": false}}));
            let mut b = match Builder::from_context(sctx).with_definition(def.to_string().as_str()) { Ok(b) => b, Err(e) => return json!({"sign": format!("definition:{}", err_kind(&e))}) };
            let mut dst = Cursor::new(Vec::new());
            if let Err(e) = b.sign(&ias, mime, &mut Cursor::new(fixture(fx)), &mut dst) { return json!({"sign": format!("err:{}", err_kind(&e)), "detail": format!("{e:?}").chars().take(300).collect::<String>()}); }
            let bytes = dst.into_inner();
            let mut reads = vec![];
            for rs in v["reads"].as_array().cloned().unwrap_or_default() {
                let c = match try_settings(&rs["settings"]).and_then(|s| Context::new().with_settings(s)) { Ok(c) => c.into_shared(), Err(e) => { reads.push(json!({"name": rs["name"], "read": {"settings_err": err_kind(&e)}})); continue; } };
                // optional post-signing change of a stored assertion payload (same length)
                let mut data = bytes.clone();
                if let Some(m) = rs["overwrite"].as_str() { if let Some(p) = data.windows(m.len()).position(|w| w == m.as_bytes()) { for b in &mut data[p..p + 4] { *b = b'X'; } } }
                // a non-zero byte in a padding field of the identity assertion: CBOR text key "pad1"/"pad2" followed by a byte string
                let mut pad_info = Value::Null;
                if let Some(pd) = rs["pad"].as_object() {
                    let which = pd["which"].as_str().unwrap_or("pad1");
                    let mut key = vec![0x64u8]; key.extend_from_slice(which.as_bytes());
                    if let Some(p) = data.windows(key.len()).position(|w| w == key.as_slice()) {
                        let h = p + key.len();
                        let (len, start) = match data[h] { b if (0x40..=0x57).contains(&b) => ((b - 0x40) as usize, h + 1), 0x58 => (data[h + 1] as usize, h + 2), 0x59 => (((data[h + 1] as usize) << 8) | data[h + 2] as usize, h + 3), _ => (0, h) };
                        if len > 0 {
                            let off = match pd["pos"].as_str().unwrap_or("first") { "first" => 0, "middle" => len / 2, _ => len - 1 };
                            data[start + off] = 1;
                            pad_info = json!({"which": which, "len": len, "offset": off});
                        }
                    }
                }
                reads.push(json!({"name": rs["name"], "pad": pad_info, "read": read_cawg(&c, mime, &data, &rt)}));
            }
            json!({"sign": "ok", "reads": reads})
        }));
        let mut o = match res { Ok(v) => v, Err(p) => json!({"panic": p}) };
        o["id"] = v["id"].clone();
        out.emit(&o);
    }
}
