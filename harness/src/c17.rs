//! C17 -- BMFF mdat chunking: the BMFF placeholder workflow with the mdat payload fed in chunks via
//! Builder::hash_bmff_mdat_bytes; records the chunk sequence, the leaf sizes stored in the signed BmffHash and the
//! validation state of the patched asset.
use std::io::Cursor;

use c2pa::{Builder, Context};
use rand::{rngs::StdRng, Rng, SeedableRng};
use serde_json::{json, Value};

use crate::common::*;

/// top-level BMFF boxes: (type, offset, header_len, total_size)
pub fn top_boxes(d: &[u8]) -> Vec<(String, usize, usize, usize)> {
    let mut v = vec![];
    let mut p = 0usize;
    while p + 8 <= d.len() {
        let s32 = u32::from_be_bytes(d[p..p + 4].try_into().unwrap()) as usize;
        let t = String::from_utf8_lossy(&d[p + 4..p + 8]).to_string();
        let (hl, size) = if s32 == 1 && p + 16 <= d.len() { (16, u64::from_be_bytes(d[p + 8..p + 16].try_into().unwrap()) as usize) }
            else if s32 == 0 { (8, d.len() - p) } else { (8, s32) };
        if size < hl || p + size > d.len() { break; }
        v.push((t, p, hl, size));
        p += size;
    }
    v
}

/// rewrite every mdat box with a large-size (16-byte) or standard (8-byte) header
fn with_header(d: &[u8], large: bool) -> Vec<u8> { with_header_len(d, large, None) }
/// the same, with the mdat payload cut down to `keep` bytes
fn with_header_len(d: &[u8], large: bool, keep: Option<usize>) -> Vec<u8> {
    let mut out = vec![];
    for (t, off, hl, size) in top_boxes(d) {
        if t == "mdat" {
            let payload = &d[off + hl..off + size];
            let payload = match keep { Some(k) if k <= payload.len() => &payload[..k], _ => payload };
            if large {
                out.extend_from_slice(&1u32.to_be_bytes());
                out.extend_from_slice(b"mdat");
                out.extend_from_slice(&((payload.len() + 16) as u64).to_be_bytes());
            } else {
                out.extend_from_slice(&((payload.len() + 8) as u32).to_be_bytes());
                out.extend_from_slice(b"mdat");
            }
            out.extend_from_slice(payload);
        } else {
            out.extend_from_slice(&d[off..off + size]);
        }
    }
    out
}

fn free_box(total: usize) -> Vec<u8> {
    let mut b = Vec::with_capacity(total);
    b.extend_from_slice(&(total as u32).to_be_bytes());
    b.extend_from_slice(b"free");
    b.resize(total, 0);
    b
}

/// one workflow run; cuts = chunk sizes for the first mdat payload (must sum to the payload length)
fn run_one(src: &[u8], large: bool, leaf_kb: usize, chunks: &[usize]) -> Result<Value, c2pa::Error> {
    let fmt = "video/mp4";
    let c = Context::new().with_settings(try_settings(&Value::Null)?)?.with_signer(WrapSigner { inner: signer("ed25519"), reserve: None, tsa: None });
    let mut b = Builder::from_context(c).with_definition(simple_manifest_json("c17", fmt).to_string().as_str())?;
    if leaf_kb > 0 {
        b.set_bmff_hash_fixed_leaf_size(leaf_kb);
    }
    let ph = b.placeholder(fmt)?;
    let boxes = top_boxes(src);
    let ftyp = boxes.iter().find(|x| x.0 == "ftyp").expect("ftyp");
    let payload_len: usize = boxes.iter().filter(|x| x.0 == "mdat").map(|x| x.3 - x.2).next().unwrap();
    let nleaves = if leaf_kb > 0 { payload_len / (leaf_kb * 1024) + 2 } else { chunks.len() + 1 };
    let free_total = ph.len() + nleaves * 48 + 4096;
    let ins = ftyp.1 + ftyp.3;
    let mut asset = Vec::with_capacity(src.len() + free_total);
    asset.extend_from_slice(&src[..ins]);
    asset.extend_from_slice(&free_box(free_total));
    asset.extend_from_slice(&src[ins..]);
    // feed the payload of every mdat (the first one with the requested chunking, others in one piece)
    let mut first = true;
    let mut mdat_id = 0usize;
    for (t, off, hl, size) in top_boxes(&asset) {
        if t != "mdat" { continue; }
        let payload = &asset[off + hl..off + size];
        if first {
            let mut p = 0usize;
            for &n in chunks {
                b.hash_bmff_mdat_bytes(mdat_id, &payload[p..p + n], large)?;
                p += n;
            }
            assert_eq!(p, payload.len());
            first = false;
        } else {
            b.hash_bmff_mdat_bytes(mdat_id, payload, hl == 16)?;
        }
        mdat_id += 1;
    }
    b.update_hash_from_stream(fmt, &mut Cursor::new(asset.clone()))?;
    let signed = b.sign_embeddable(fmt)?;
    if signed.len() + 8 > free_total {
        return Ok(json!({"sign": "too-large-for-free-box", "signed_len": signed.len(), "free": free_total}));
    }
    let mut patched = asset.clone();
    patched[ins..ins + signed.len()].copy_from_slice(&signed);
    let rest = free_total - signed.len();
    patched[ins + signed.len()..ins + free_total].copy_from_slice(&free_box(rest));
    // leaf sizes recorded in the signed BmffHash
    let mut sizes: Vec<u64> = vec![];
    let mut fixed_block: Option<u64> = None;
    let mut count = 0usize;
    if let Ok(store_bytes) = c2pa::jumbf_io::load_jumbf_from_memory(fmt, &patched) {
        if let Ok((store, _)) = c2pa::verif_hooks::store_from_jumbf(&store_bytes, &ctx(&Value::Null)) {
            if let Some(claim) = store.provenance_claim() {
                for (_, raw, _, data, _) in c2pa::verif_hooks::claim_assertions(claim) {
                    if raw.starts_with("c2pa.hash.bmff") {
                        if let Ok(bh) = c2pa_cbor::from_slice::<c2pa::assertions::BmffHash>(&data) {
                            if let Some(mm) = bh.merkle().and_then(|m| m.first()) {
                                count = mm.count;
                                fixed_block = mm.fixed_block_size;
                                if let Some(v) = &mm.variable_block_sizes { sizes = v.clone(); }
                            }
                        }
                    }
                }
            }
        }
    }
    let read = match read_bytes(ctx(&Value::Null), fmt, &patched) {
        Ok(r) => json!({"state": state_str(&r), "failures": failure_codes(&r)}),
        Err(e) => json!({"state": format!("ReadErr:{}", err_kind(&e))}),
    };
    Ok(json!({"sign": "Ok", "payload_len": payload_len, "count": count, "fixed_block": fixed_block, "sizes": sizes, "read": read}))
}

/// vh c17-record --seed S [--thorough]: chunkings = all (c1, c2) first cuts in a grid over 0..32 plus random multi-way splits
pub fn probe(_args: &[String]) {
    let src = with_header(&fixture("video1_no_manifest.mp4"), false);
    let payload_len: usize = top_boxes(&src).iter().filter(|x| x.0 == "mdat").map(|x| x.3 - x.2).next().unwrap();
    for (name, ch) in [("whole", vec![payload_len]), ("two", vec![1000, payload_len - 1000])] {
        let r = run_one(&src, false, 0, &ch);
        println!("{name}: {:?}", r.map(|v| v.to_string()).map_err(|e| e.to_string()));
    }
    println!("boxes: {:?}", top_boxes(&src));
}

pub fn record(args: &[String]) {
    let seed = arg_u64(args, "--seed", 1);
    let thorough = args.iter().any(|a| a == "--thorough");
    let mut rng = StdRng::seed_from_u64(seed ^ 0xC17);
    let src0 = fixture("video1_no_manifest.mp4");
    let mut out = Out::new();
    // the whole payload of the fixture, and payloads cut so that the hashed part is an exact multiple of the fixed leaf size
    // (or one byte more / less, or exactly one leaf)
    let covered: Vec<Option<usize>> = if thorough { vec![None, Some(8192), Some(8193), Some(8191), Some(1024), Some(65536), Some(2048)] } else { vec![None, Some(8192), Some(8193), Some(1024)] };
    for (large, cov) in [false, true].into_iter().flat_map(|l| covered.iter().map(move |c| (l, *c))) {
        let skip0 = if large { 0 } else { 8 };
        let src = with_header_len(&src0, large, cov.map(|c| c + skip0));
        let payload_len: usize = top_boxes(&src).iter().filter(|x| x.0 == "mdat").map(|x| x.3 - x.2).next().unwrap();
        let leafs: Vec<usize> = if thorough { vec![0, 1, 64] } else { vec![0, 1] };
        for leaf_kb in leafs {
            if cov.is_some() && leaf_kb == 64 && cov != Some(65536) { continue; }
            let mut chunkings: Vec<Vec<usize>> = vec![vec![payload_len]];
            let firsts: Vec<usize> = if cov.is_some() { vec![0, 8, 100, 1032] } else if thorough { (0..=32).collect() } else { vec![0, 1, 7, 8, 9, 15, 16, 17, 32] };
            for &c1 in &firsts {
                let seconds: Vec<usize> = if cov.is_some() { vec![0, 1024] } else if thorough { vec![0, 1, 7, 8, 9, 16, 1023, 1024, 1025] } else { vec![0, 8, 1024] };
                if c1 + seconds.iter().max().unwrap() > payload_len { continue; }
                for &c2 in &seconds {
                    let rest = payload_len - c1 - c2;
                    let k = rng.gen_range(1..4);
                    let mut v = vec![c1, c2];
                    let mut left = rest;
                    for i in 0..k {
                        let n = if i + 1 == k { left } else { rng.gen_range(0..=left) };
                        v.push(n);
                        left -= n;
                    }
                    chunkings.push(v);
                }
            }
            // the skipped header bytes arriving over three or more tiny chunks
            for lead in [vec![3usize, 5], vec![3, 3, 2], vec![1; 8], vec![0, 3, 5], vec![2, 2, 2, 2], vec![4, 3, 2], vec![7, 0, 1]] {
                let used: usize = lead.iter().sum();
                let mut v = lead.clone();
                v.push(payload_len - used);
                chunkings.push(v);
            }
            for _ in 0..(if thorough { 60 } else { 6 }) {
                let k = rng.gen_range(2..9);
                let mut v = vec![];
                let mut left = payload_len;
                for i in 0..k {
                    let n = if i + 1 == k { left } else if rng.gen_bool(0.3) { rng.gen_range(0..40.min(left + 1)) } else { rng.gen_range(0..=left) };
                    v.push(n);
                    left -= n;
                }
                chunkings.push(v);
            }
            for ch in chunkings {
                let r = catch(std::panic::AssertUnwindSafe(|| run_one(&src, large, leaf_kb, &ch)));
                let obs = match r {
                    Ok(Ok(v)) => v,
                    Ok(Err(e)) => json!({"sign": format!("Err:{}", err_kind(&e)), "msg": format!("{e}").chars().take(200).collect::<String>()}),
                    Err(p) => json!({"sign": "Panic", "msg": p}),
                };
                out.emit(&json!({"large": large, "leaf_kb": leaf_kb, "skip": if large { 0 } else { 8 }, "total": payload_len, "chunks": ch, "obs": obs}));
            }
        }
    }
}
