//! C25 -- settings merge semantics: seeded random overlay documents over the real settings schema, applied
//! through with_json / with_toml / update_from_str / with_value / set_value; emits before/after trees.
use c2pa::Settings;
use rand::{rngs::StdRng, seq::SliceRandom, Rng, SeedableRng};
use serde_json::{json, Map, Value};

use crate::common::*;

fn leaf_paths(v: &Value, pre: &mut Vec<String>, out: &mut Vec<(Vec<String>, Value)>) {
    match v {
        Value::Object(m) if !m.is_empty() => {
            for (k, x) in m {
                pre.push(k.clone());
                leaf_paths(x, pre, out);
                pre.pop();
            }
        }
        _ => out.push((pre.clone(), v.clone())),
    }
}

fn set_path(doc: &mut Value, path: &[String], val: Value) {
    let mut cur = doc;
    for (i, k) in path.iter().enumerate() {
        if !cur.is_object() {
            *cur = Value::Object(Map::new());
        }
        let m = cur.as_object_mut().unwrap();
        if i + 1 == path.len() {
            m.insert(k.clone(), val);
            return;
        }
        cur = m.entry(k.clone()).or_insert_with(|| Value::Object(Map::new()));
    }
}

fn word(rng: &mut StdRng) -> String {
    (0..rng.gen_range(1..9)).map(|_| (b'a' + rng.gen_range(0..26)) as char).collect()
}

fn same_type(v: &Value, rng: &mut StdRng) -> Value {
    match v {
        Value::Bool(b) => json!(if rng.gen_bool(0.7) { !*b } else { *b }),
        Value::Number(n) if n.is_f64() => json!(rng.gen_range(0..50) as f64 + 0.5),
        Value::Number(_) => json!(rng.gen_range(0..200u64)),
        Value::String(s) => if rng.gen_bool(0.3) { json!(s) } else { json!(word(rng)) },
        Value::Array(_) => json!((0..rng.gen_range(0..3)).map(|_| word(rng)).collect::<Vec<_>>()),
        Value::Null => match rng.gen_range(0..4) { 0 => json!(word(rng)), 1 => json!(rng.gen_range(0..50u64)), 2 => json!([word(rng)]), _ => Value::Null },
        Value::Object(_) => json!({}),
    }
}
fn wrong_type(v: &Value, rng: &mut StdRng) -> Value {
    match v {
        Value::Bool(_) => json!(word(rng)),
        Value::Number(_) => json!(word(rng)),
        Value::String(_) => json!(rng.gen_range(0..9u64)),
        Value::Array(_) => json!(true),
        _ => json!({"x": 1}),
    }
}

fn tree(s: &Settings) -> Value {
    serde_json::to_value(s).expect("settings to json")
}

fn gen_doc(cur: &Value, rng: &mut StdRng) -> Value {
    let mut leaves = vec![];
    leaf_paths(cur, &mut vec![], &mut leaves);
    // never touch signer sections (they need keys) or version (validated)
    leaves.retain(|(p, _)| !p[0].contains("signer"));
    let mut doc = json!({});
    let n = rng.gen_range(1..5);
    for _ in 0..n {
        let (p, v) = leaves.choose(rng).unwrap().clone();
        match rng.gen_range(0..20) {
            0..=12 => set_path(&mut doc, &p, same_type(&v, rng)),
            13 | 14 => set_path(&mut doc, &p, wrong_type(&v, rng)),
            15 | 16 => set_path(&mut doc, &p, Value::Null),
            17 => { let mut q = p.clone(); q.pop(); q.push(format!("zz_{}", word(rng))); set_path(&mut doc, &q, json!(rng.gen_range(0..9u64))) }
            18 => { if p.len() > 1 { set_path(&mut doc, &p[..p.len() - 1].to_vec(), json!({})) } }
            _ => { if p.len() > 1 && rng.gen_bool(0.3) { set_path(&mut doc, &p[..1].to_vec(), Value::Null) } else { set_path(&mut doc, &p, same_type(&v, rng)) } }
        }
    }
    if rng.gen_bool(0.03) {
        set_path(&mut doc, &["version".to_string()], json!(rng.gen_range(0..4u64)));
    }
    doc
}

fn has_null(v: &Value) -> bool {
    match v {
        Value::Null => true,
        Value::Object(m) => m.values().any(has_null),
        Value::Array(a) => a.iter().any(has_null),
        _ => false,
    }
}

pub fn record(args: &[String]) {
    let seed = arg_u64(args, "--seed", 1);
    let n = arg_u64(args, "--n", 500);
    let mut rng = StdRng::seed_from_u64(seed ^ 0xC25);
    let mut out = Out::new();
    // the harness' own base overlay is an observation too (booleans only: must succeed under merge semantics)
    let base_ok = try_settings(&Value::Null).is_ok();
    {
        let s0 = Settings::new();
        let d = json!({"builder": {"thumbnail": {"enabled": false}}});
        let res = s0.with_json(&d.to_string());
        let mut rec = json!({"i": 999_999, "op": "with_json", "before": tree(&s0), "doc": d, "ok": res.is_ok(), "must_ok": true});
        if let Ok(s2) = &res { rec["after"] = tree(s2); }
        out.emit(&rec);
    }
    let mk_base = || if base_ok { settings(&Value::Null) } else { Settings::new() };
    let mut cur = mk_base();
    // deterministic sweep: for every object node of the schema with >= 2 scalar leaves, make one leaf non-default and
    // then overlay a document mentioning only a sibling: the first leaf must survive (exercises merging at every depth)
    {
        let base = mk_base();
        let bt = tree(&base);
        let mut leaves = vec![];
        leaf_paths(&bt, &mut vec![], &mut leaves);
        leaves.retain(|(p, v)| !p[0].contains("signer") && p[0] != "version" && (v.is_boolean() || v.is_number()));
        let mut idx = 1_000_000u64;
        for a in 0..leaves.len() {
            for b in 0..leaves.len() {
                let (pa, va) = &leaves[a];
                let (pb, vb) = &leaves[b];
                if a == b || pa.len() != pb.len() || pa[..pa.len() - 1] != pb[..pb.len() - 1] {
                    continue;
                }
                let flip = |v: &Value| match v { Value::Bool(x) => json!(!x), Value::Number(n) if n.is_f64() => json!(n.as_f64().unwrap() + 1.5), Value::Number(n) => json!(n.as_u64().unwrap_or(1) + 1), o => o.clone() };
                let mut d1 = json!({});
                set_path(&mut d1, pa, flip(va));
                let Ok(s1) = base.with_json(&d1.to_string()) else { continue };
                let mut d2 = json!({});
                set_path(&mut d2, pb, flip(vb));
                let before = tree(&s1);
                let res = s1.with_json(&d2.to_string());
                let mut rec = json!({"i": idx, "op": "with_json", "before": before, "doc": d2, "ok": res.is_ok(), "must_ok": va.is_boolean() && vb.is_boolean()});
                if let Ok(s2) = &res { rec["after"] = tree(s2); }
                rec["receiver_after"] = tree(&s1);
                out.emit(&rec);
                idx += 1;
            }
        }
    }
    for i in 0..n {
        if rng.gen_bool(0.1) {
            cur = if rng.gen_bool(0.5) { Settings::new() } else { mk_base() };
        }
        let before = tree(&cur);
        let op = ["with_json", "update_json", "with_value", "set_value"][rng.gen_range(0..4)];
        let r = catch(std::panic::AssertUnwindSafe(|| -> Value {
            match op {
                "with_json" | "update_json" => {
                    let doc = gen_doc(&before, &mut rng);
                    let mut rec = json!({"i": i, "op": op, "before": before, "doc": doc});
                    let res = cur.with_json(&doc.to_string());
                    rec["ok"] = json!(res.is_ok());
                    if let Ok(s2) = &res {
                        rec["after"] = tree(s2);
                    } else if let Err(e) = &res {
                        rec["err"] = json!(err_kind(e));
                    }
                    // the receiver of with_json must not change
                    rec["receiver_after"] = tree(&cur);
                    // equivalent TOML document
                    if !has_null(&doc) {
                        if let Ok(t) = toml::to_string(&doc) {
                            let rt = cur.with_toml(&t);
                            rec["toml"] = json!(t);
                            rec["toml_ok"] = json!(rt.is_ok());
                            if let Ok(s3) = &rt {
                                rec["after_toml"] = tree(s3);
                            }
                        }
                    }
                    if op == "update_json" {
                        let mut inplace = cur.clone();
                        let r2 = inplace.update_from_str(&doc.to_string(), "json");
                        rec["inplace_ok"] = json!(r2.is_ok());
                        rec["inplace_after"] = tree(&inplace);
                        if r2.is_ok() && rng.gen_bool(0.6) {
                            cur = inplace;
                        }
                    }
                    rec
                }
                _ => {
                    let mut leaves = vec![];
                    leaf_paths(&before, &mut vec![], &mut leaves);
                    leaves.retain(|(p, _)| !p[0].contains("signer") && p[0] != "version");
                    let (mut p, v) = leaves.choose(&mut rng).unwrap().clone();
                    let val = match rng.gen_range(0..10) { 0 => wrong_type(&v, &mut rng), 1 => { p.push(word(&mut rng)); json!(1) } _ => same_type(&v, &mut rng) };
                    let path = p.join(".");
                    let mut rec = json!({"i": i, "op": op, "before": before, "path": p, "value": val});
                    if op == "with_value" {
                        let res = cur.with_value(&path, val.clone());
                        rec["ok"] = json!(res.is_ok());
                        if let Ok(s2) = &res {
                            rec["after"] = tree(s2);
                            rec["got"] = s2.get_value::<Value>(&path).unwrap_or(json!("__get_failed__"));
                        }
                        rec["receiver_after"] = tree(&cur);
                    } else {
                        let mut inplace = cur.clone();
                        let r2 = inplace.set_value(&path, val.clone());
                        rec["ok"] = json!(r2.is_ok());
                        rec["inplace_ok"] = json!(r2.is_ok());
                        rec["inplace_after"] = tree(&inplace);
                        if r2.is_ok() {
                            rec["after"] = tree(&inplace);
                            rec["got"] = inplace.get_value::<Value>(&path).unwrap_or(json!("__get_failed__"));
                            if rng.gen_bool(0.5) { cur = inplace; }
                        }
                    }
                    rec
                }
            }
        }));
        match r {
            Ok(rec) => out.emit(&rec),
            Err(p) => out.emit(&json!({"i": i, "op": op, "panic": p, "before": before})),
        }
    }
}
