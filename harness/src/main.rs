//! vh -- conformance harness binding the TLA+ specification in /verif/spec to contentauth/c2pa-rs.
mod common;
mod c01;
mod c02;
mod c03;
mod c04;
mod c07;
mod c10;
mod c11;
mod c13;
mod c14;
mod c15;
mod c16;
mod c17;
mod c23;
mod c25;
mod c26;
mod c28;
mod c29;
mod c30;
mod c31;
mod c33;
mod c34;
mod c18;
mod c19;
mod c20;
mod c24;
mod c35;
mod pki;
mod wf;

fn main() {
    let args: Vec<String> = std::env::args().skip(1).collect();
    let cmd = args.first().map(|s| s.as_str()).unwrap_or("");
    let rest = &args[args.len().min(1)..];
    match cmd {
        "version" => println!("vh {}", c2pa::VERSION),
        "read-file" => {
            // vh read-file <path> [sidecar.c2pa]: validation state of a file (optionally with an external manifest)
            let path = &rest[0];
            let bytes = std::fs::read(path).unwrap_or_default();
            let fmt = c2pa::format_from_path(path).unwrap_or_default();
            let c = common::ctx(&serde_json::json!({"verify": {"remote_manifest_fetch": false}}));
            let r = if rest.len() > 1 {
                let m = std::fs::read(&rest[1]).unwrap_or_default();
                c2pa::Reader::from_context(c).with_manifest_data_and_stream(&m, &fmt, std::io::Cursor::new(bytes))
            } else {
                c2pa::Reader::from_context(c).with_stream(&fmt, std::io::Cursor::new(bytes))
            };
            match r {
                Ok(r) => println!("{}", serde_json::json!({"state": common::state_str(&r), "failures": common::failure_codes(&r), "title": r.active_manifest().and_then(|m| m.title().map(|s| s.to_string()))})),
                Err(e) => println!("{}", serde_json::json!({"state": format!("ReadErr:{}", common::err_kind(&e))})),
            }
        }
        "c01-record" => c01::record(rest),
        "c02-record" => c02::record(rest),
        "c03-replay" => c03::replay(rest),
        "c04-replay" => c04::replay(rest),
        "c04-observe" => c04::observe(rest),
        "c04-legacy" => c04::legacy(rest),
        "c07-run" => c07::run(rest),
        "c12-extra" => c07::extra(rest),
        "c10-child" => c10::child(rest),
        "c11-replay" => c11::replay(rest),
        "c13-replay" => c13::replay(rest),
        "c13-record" => c13::record(rest),
        "c14-pad" => c14::pad(rest),
        "c14-cose" => c14::cose(rest),
        "c14-datahash" => c14::datahash(rest),
        "c14-e2e" => c14::e2e(rest),
        "c15-replay" => c15::replay(rest),
        "c16-record" => c16::record(rest),
        "c17-record" => c17::record(rest),
        "c17-probe" => c17::probe(rest),
        "c23-record" => c23::record(rest),
        "c25-record" => c25::record(rest),
        "c26-replay" => c26::replay(rest),
        "c26-selfcheck" => c26::selfcheck(rest),
        "c28-run" => c28::run(rest),
        "c29-replay" => c29::replay(rest),
        "c30-replay" => c30::replay(rest),
        "c31-child" => c31::child(rest),
        "c31-drive" => c31::drive(rest),
        "c33-run" => c33::run(rest),
        "c34-replay" => c34::replay(rest),
        "c18-run" => c18::run(rest),
        "c19-replay" => c19::replay(rest),
        "c19-big" => c19::big(rest),
        "c20-replay" => c20::replay(rest),
        "c21-replay" => c20::replay_update(rest),
        "c24-run" => c24::run(rest),
        "c35-run" => c35::run(rest),
        "pki-run" => pki::run(rest),
        "wf-run" => wf::run(rest),
        "wf-fresh" => wf::fresh(rest),
        _ => {
            eprintln!("unknown command {cmd}");
            std::process::exit(2);
        }
    }
}
