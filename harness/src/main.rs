fn main() { println!("vh skeleton {}", c2pa::VERSION); let _ = c2pa_c::c2pa_version; }
