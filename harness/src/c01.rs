//! C01 -- tamper evidence of signed asset content.  Assets are signed in this run (data hash, box hash, BMFF hash);
//! the declared-excluded byte ranges are taken from the SIGNED hard-binding assertion (data-hash exclusions; the C2PA
//! box for box hashes; the BMFF xpath exclusions resolved by the harness' own box-tree walker); then single-byte flips
//! and structural edits are applied and each edited asset is read back.
use rand::{rngs::StdRng, Rng, SeedableRng};
use serde_json::{json, Value};

use crate::common::*;

/// byte ranges [start, end) the signed hard-binding assertion declares excluded
fn declared_excluded(fmt: &str, signed: &[u8], kind: &str) -> Result<Vec<(usize, usize)>, String> {
    let store_bytes = c2pa::jumbf_io::load_jumbf_from_memory(fmt, signed).map_err(|e| e.to_string())?;
    let (store, _) = c2pa::verif_hooks::store_from_jumbf(&store_bytes, &ctx(&Value::Null)).map_err(|e| e.to_string())?;
    let mut out = vec![];
    let claims: Vec<&c2pa::verif_hooks::Claim> = if kind == "update" { store.claims() } else { vec![store.provenance_claim().ok_or("no claim")?] };
    for claim in claims {
    for (_, raw, _, data, _) in c2pa::verif_hooks::claim_assertions(claim) {
        if kind == "update" && !raw.starts_with("c2pa.hash.bmff") { continue; } // absolute ranges of a parent are stale after re-basing
        if raw.starts_with("c2pa.hash.data") {
            let dh: c2pa::assertions::DataHash = c2pa_cbor::from_slice(&data).map_err(|e| e.to_string())?;
            for r in dh.exclusions.unwrap_or_default() {
                out.push((r.start() as usize, (r.start() + r.length()) as usize));
            }
        } else if raw.starts_with("c2pa.hash.boxes") {
            // the only declared exclusion of a box hash is the C2PA box: locate it with the handler's own box map
            let mut c = std::io::Cursor::new(signed.to_vec());
            if let Some(Ok(bm)) = c2pa::verif_hooks::box_map(fmt, &mut c) {
                for b in bm {
                    if b.names.iter().any(|n| n == "C2PA") {
                        out.push((b.range_start as usize, (b.range_start + b.range_len) as usize));
                    }
                }
            }
        } else if raw.starts_with("c2pa.hash.bmff") {
            let bh: c2pa::assertions::BmffHash = c2pa_cbor::from_slice(&data).map_err(|e| e.to_string())?;
            let v = serde_json::to_value(&bh).map_err(|e| e.to_string())?;
            let boxes = bmff_tree(signed, 0, signed.len(), "");
            for ex in v["exclusions"].as_array().cloned().unwrap_or_default() {
                let xpath = ex["xpath"].as_str().unwrap_or("");
                for (path, off, hl, size) in &boxes {
                    if path != xpath { continue; }
                    // data match
                    let mut ok = true;
                    if let Some(dm) = ex["data"].as_array() {
                        for d in dm {
                            let o = d["offset"].as_u64().unwrap_or(0) as usize;
                            let val: Vec<u8> = match &d["value"] {
                                Value::String(s) => base64::Engine::decode(&base64::engine::general_purpose::STANDARD, s).unwrap_or_default(),
                                Value::Array(a) => a.iter().map(|x| x.as_u64().unwrap_or(0) as u8).collect(),
                                _ => vec![],
                            };
                            if off + o + val.len() > signed.len() || signed[off + o..off + o + val.len()] != val[..] { ok = false; }
                        }
                    }
                    if !ok { continue; }
                    let _ = hl;
                    if let Some(ss) = ex["subset"].as_array() {
                        for s in ss {
                            let so = s["offset"].as_u64().unwrap_or(0) as usize;
                            let sl = s["length"].as_u64().unwrap_or(0) as usize;
                            if so > *size { continue; }
                            let len = if sl == 0 { size - so } else { sl.min(size - so) };
                            out.push((off + so, off + so + len));
                        }
                    } else {
                        out.push((*off, off + size));
                    }
                }
            }
        }
    }
    }
    Ok(out)
}

/// (xpath, offset, header_len, size) of every box, descending into the usual container boxes
pub fn bmff_tree(d: &[u8], start: usize, end: usize, prefix: &str) -> Vec<(String, usize, usize, usize)> {
    let containers = ["moov", "trak", "mdia", "minf", "stbl", "mvex", "moof", "traf", "mfra", "edts", "dinf", "udta", "meta"];
    let mut v = vec![];
    let mut p = start;
    while p + 8 <= end {
        let s32 = u32::from_be_bytes(d[p..p + 4].try_into().unwrap()) as usize;
        let t = String::from_utf8_lossy(&d[p + 4..p + 8]).to_string();
        let (hl, size) = if s32 == 1 && p + 16 <= end { (16, u64::from_be_bytes(d[p + 8..p + 16].try_into().unwrap()) as usize) } else if s32 == 0 { (8, end - p) } else { (8, s32) };
        if size < hl || p + size > end { break; }
        let path = format!("{prefix}/{t}");
        v.push((path.clone(), p, hl, size));
        if containers.contains(&t.as_str()) {
            let skip = if t == "meta" { 4 } else { 0 }; // meta is a full box
            v.extend(bmff_tree(d, p + hl + skip, p + size, &path));
        }
        p += size;
    }
    v
}

fn in_any(ranges: &[(usize, usize)], a: usize, b: usize) -> bool {
    // the whole edited interval [a, b) lies inside one declared-excluded range
    ranges.iter().any(|(s, e)| *s <= a && b <= *e)
}

/// the last top-level box of a JPEG XL container rewritten with the legal 64-bit size form (size field 1 + u64), which the
/// SDK never writes itself
fn jxl_largesize(src: &[u8]) -> Option<Vec<u8>> {
    if src.len() < 12 || &src[4..8] != b"JXL " { return None; }
    let mut boxes: Vec<(usize, usize)> = vec![];
    let mut p = 0usize;
    while p + 8 <= src.len() {
        let s = u32::from_be_bytes([src[p], src[p + 1], src[p + 2], src[p + 3]]) as usize;
        let s = if s == 0 { src.len() - p } else { s };
        if s < 8 || s == 1 || p + s > src.len() { break; }
        boxes.push((p, s)); p += s;
    }
    let &(bp, bs) = boxes.last()?;
    let mut o = src[..bp].to_vec();
    o.extend_from_slice(&1u32.to_be_bytes()); o.extend_from_slice(&src[bp + 4..bp + 8]); o.extend_from_slice(&((bs + 8) as u64).to_be_bytes());
    o.extend_from_slice(&src[bp + 8..bp + bs]); o.extend_from_slice(&src[bp + bs..]);
    Some(o)
}

struct Case { fmt: &'static str, name: &'static str, fixture: &'static str }
const CASES: [Case; 16] = [
    Case { fmt: "image/jxl", name: "jxl_large", fixture: "sample1.jxl" }, // the codestream box rewritten with a 64-bit (largesize) header
    Case { fmt: "image/jpeg", name: "jpeg_rst2", fixture: "IMG_0003.jpg" }, // restart markers, different encoder
    Case { fmt: "image/jpeg", name: "jpeg_rst", fixture: "earth_apollo17.jpg" }, // restart intervals (DRI / RSTn markers)
    Case { fmt: "image/jpeg", name: "jpeg", fixture: "no_manifest.jpg" }, Case { fmt: "image/png", name: "png", fixture: "libpng-test.png" },
    Case { fmt: "image/gif", name: "gif", fixture: "sample1.gif" }, Case { fmt: "image/webp", name: "webp", fixture: "sample1.webp" },
    Case { fmt: "image/tiff", name: "tiff", fixture: "TUSCANY.TIF" }, Case { fmt: "image/svg+xml", name: "svg", fixture: "sample1.svg" },
    Case { fmt: "video/mp4", name: "mp4", fixture: "video1_no_manifest.mp4" }, Case { fmt: "audio/wav", name: "wav", fixture: "sample1.wav" },
    Case { fmt: "image/jxl", name: "jxl", fixture: "sample1.jxl" }, Case { fmt: "audio/mpeg", name: "mp3", fixture: "sample1.mp3" },
    Case { fmt: "audio/flac", name: "flac", fixture: "sample1.flac" }, Case { fmt: "image/avif", name: "avif", fixture: "sample1.avif" },
    Case { fmt: "video/avi", name: "avi", fixture: "test.avi" },
];

/// vh c01-record --seed S --per N [--formats a,b] [--every]: emits one record per edit
pub fn record(args: &[String]) {
    let seed = arg_u64(args, "--seed", 1);
    let per = arg_u64(args, "--per", 300) as usize;
    let every = args.iter().any(|a| a == "--every");
    let only: Option<Vec<String>> = arg(args, "--formats").map(|s| s.split(',').map(|x| x.to_string()).collect());
    let mut rng = StdRng::seed_from_u64(seed ^ 0xC01);
    let mut out = Out::new();
    for case in CASES.iter() {
        if let Some(o) = &only { if !o.iter().any(|x| x == case.name) { continue; } }
        let mut src = fixture(case.fixture);
        if src.is_empty() { continue; }
        if case.name == "jxl_large" { src = match jxl_largesize(&src) { Some(s) => s, None => continue }; }
        for kind in ["default", "box", "update", "sha512", "v1"] {
            let overlay = if kind == "box" { json!({"core": {"prefer_compress_manifests": true}}) } else { Value::Null };
            let signed = if kind == "update" {
                // an update manifest on top of a signed asset (jpeg / png / mp4 only)
                if !["jpeg", "png", "mp4"].contains(&case.name) { continue; }
                let first = match sign_bytes(ctx(&Value::Null), &simple_manifest_json("c01 base", case.fmt), case.fmt, &src, "ed25519") { Ok(s) => s, Err(_) => continue };
                let r = catch(std::panic::AssertUnwindSafe(|| -> c2pa::Result<Vec<u8>> {
                    let mut b = c2pa::Builder::from_context(ctx(&Value::Null)).with_definition(json!({"title": "c01 update", "claim_generator_info": [{"name": "vh", "version": "0.1"}]}).to_string().as_str())?;
                    b.set_intent(c2pa::BuilderIntent::Update);
                    let s = signer("ed25519");
                    let mut o = std::io::Cursor::new(Vec::new());
                    b.sign(s.as_ref(), case.fmt, &mut std::io::Cursor::new(first.clone()), &mut o)?;
                    Ok(o.into_inner())
                }));
                match r { Ok(Ok(s)) => s, Ok(Err(e)) => { out.emit(&json!({"format": case.name, "kind": kind, "setup_error": format!("{e}")})); continue } Err(p) => { out.emit(&json!({"format": case.name, "kind": kind, "setup_error": p})); continue } }
            } else {
                // a claim that hashes with sha512 / a version-1 claim
                let mut def = simple_manifest_json("c01", case.fmt);
                if kind == "sha512" { def["hash_alg"] = json!("sha512"); }
                if kind == "v1" { def["claim_version"] = json!(1); }
                match sign_bytes(ctx(&overlay), &def, case.fmt, &src, "ed25519") {
                    Ok(s) => s,
                    Err(e) => { out.emit(&json!({"format": case.name, "kind": kind, "setup_error": format!("{e}")})); continue }
                }
            };
            let base = match read_bytes(ctx(&overlay), case.fmt, &signed) {
                Ok(r) => r,
                Err(e) => { out.emit(&json!({"format": case.name, "kind": kind, "setup_error": format!("baseline read: {e}")})); continue }
            };
            let base_report = report(&base);
            let base_state = state_str(&base);
            // which binding did we actually get?
            let store_bytes = c2pa::jumbf_io::load_jumbf_from_memory(case.fmt, &signed).unwrap_or_default();
            let binding = c2pa::verif_hooks::store_from_jumbf(&store_bytes, &ctx(&Value::Null)).ok().and_then(|(s, _)| {
                // for update manifests the binding lives in the parent manifest: report the first hash assertion found in any claim
                let mut found: Option<String> = None;
                for c in s.claims() {
                    for (_, raw, _, _, _) in c2pa::verif_hooks::claim_assertions(c) {
                        if raw.starts_with("c2pa.hash.") { found = Some(raw.clone()); }
                    }
                }
                found
            }).unwrap_or_default();
            if kind == "box" && !binding.starts_with("c2pa.hash.boxes") { continue; } // format has no box-hash support
            let excl = if kind == "update" {
                // the update manifest has no hard binding of its own; the manifest container as located by the handler is
                // what the parent's binding excludes after re-basing (plus, for BMFF, the parent's xpath exclusions)
                let mut c = std::io::Cursor::new(signed.clone());
                let mut v = c2pa::verif_hooks::object_locations_from_stream(case.fmt, &mut c).ok().map(|v| v.into_iter()
                    .filter(|p| p.htype == c2pa::verif_hooks::HashBlockObjectType::Cai).map(|p| (p.offset, p.offset + p.length)).collect::<Vec<_>>()).unwrap_or_default();
                v.extend(declared_excluded(case.fmt, &signed, kind).unwrap_or_default());
                v
            } else {
                match declared_excluded(case.fmt, &signed, kind) { Ok(e) => e, Err(e) => { out.emit(&json!({"format": case.name, "kind": kind, "setup_error": format!("exclusions: {e}")})); continue } }
            };
            let emit_case = |op: &str, off: usize, len: usize, edited: Vec<u8>, excluded: bool, out: &mut Out| {
                let (state, equal, detail) = match catch(std::panic::AssertUnwindSafe(|| read_bytes(ctx(&overlay), case.fmt, &edited))) {
                    Ok(Ok(r)) => { let rep = report(&r); (state_str(&r).to_string(), rep == base_report, failure_codes(&r).join(",")) }
                    Ok(Err(e)) => ("ReadErr".to_string(), false, err_kind(&e)),
                    Err(p) => ("Panic".to_string(), false, p),
                };
                out.emit(&json!({"format": case.name, "kind": kind, "binding": binding, "op": op, "off": off, "len": len, "file_len": signed.len(),
                                 "excluded": excluded, "state": state, "report_equal": equal, "detail": detail, "base_state": base_state}));
            };
            // flips
            let n = signed.len();
            let mut offsets: Vec<usize> = if every { (0..n).collect() } else {
                let mut v: Vec<usize> = vec![0, 1, 2, 3, n / 2, n - 1, n - 2];
                for (s, e) in &excl { for d in [0usize, 1, 2] { if *s >= d + 1 { v.push(s - d - 1); } v.push(s + d); if *e >= d + 1 { v.push(e - d - 1); } if e + d < n { v.push(e + d); } } v.push((s + e) / 2); }
                while v.len() < per { v.push(rng.gen_range(0..n)); }
                v
            };
            offsets.retain(|o| *o < n);
            offsets.sort(); offsets.dedup();
            let pats: &[u8] = if every { &[0x01, 0x80, 0xff] } else { &[0x01] };
            for &o in &offsets {
                for (pi, p) in pats.iter().enumerate() {
                    if !every && pi > 0 { break; }
                    let mut e = signed.clone();
                    e[o] ^= if every { *p } else { [0x01u8, 0x80, 0xff][rng.gen_range(0..3)] };
                    emit_case("flip", o, 1, e, in_any(&excl, o, o + 1), &mut out);
                }
            }
            // structural edits: insert / delete / append / truncate at boundaries of the excluded ranges, start, middle, end
            let mut bounds: Vec<usize> = vec![0, n / 2, n];
            for (s, e) in &excl { bounds.push(*s); bounds.push(*e); }
            bounds.sort(); bounds.dedup();
            for &b in &bounds {
                for ins in [1usize, 33] {
                    let mut e = signed[..b].to_vec();
                    e.extend((0..ins).map(|i| (i * 37 + 11) as u8));
                    e.extend_from_slice(&signed[b..]);
                    // an insertion is "inside excluded bytes" only when strictly inside an excluded range
                    let inside = excl.iter().any(|(s, x)| *s < b && b < *x);
                    emit_case(if b == n { "append" } else { "insert" }, b, ins, e, inside, &mut out);
                    if b + ins <= n {
                        let mut d = signed[..b].to_vec();
                        d.extend_from_slice(&signed[b + ins..]);
                        emit_case("delete", b, ins, d, in_any(&excl, b, b + ins), &mut out);
                    }
                }
            }
            for cut in [1usize, 17, n / 3] {
                if cut < n { emit_case("truncate", n - cut, cut, signed[..n - cut].to_vec(), in_any(&excl, n - cut, n), &mut out); }
            }
        }
    }
}
