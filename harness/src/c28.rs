//! C28 -- no network unless enabled: every (configuration, asset kind, operation) enumerated by TLC (MC_NetGate) is run
//! against real assets with the process-global transport override (hook H2) recording every request that reaches the
//! SDK's built-in HTTP client, including requests issued through contexts the SDK creates internally.
use std::io::Cursor;
use std::sync::{Arc, Mutex};

use c2pa::{Builder, Reader};
use serde_json::{json, Value};

use crate::common::*;

const MANIFEST_URL: &str = "https://manifests.example/store/abc.c2pa?x=1";
const TSA_URL: &str = "http://tsa.example/ts";

fn kind_of(uri: &str, method: &str, ctype: &str) -> &'static str {
    if uri.contains("manifests.example") { "Manifest" }
    else if uri.contains("tsa.example") || ctype.contains("timestamp") { "Tsa" }
    else if uri.to_lowercase().contains("ocsp") || ctype.contains("ocsp") || method == "POST" { "Ocsp" }
    else { "Other" }
}

pub fn install_recorder() -> Arc<Mutex<Vec<Value>>> {
    let log: Arc<Mutex<Vec<Value>>> = Arc::new(Mutex::new(vec![]));
    let l2 = log.clone();
    c2pa::verif_hooks::set_transport(Some(Arc::new(move |req: http::Request<Vec<u8>>| {
        let uri = req.uri().to_string();
        let ctype = req.headers().get("content-type").and_then(|v| v.to_str().ok()).unwrap_or("").to_string();
        let kind = kind_of(&uri, req.method().as_str(), &ctype);
        l2.lock().unwrap().push(json!({"uri": uri, "method": req.method().as_str(), "kind": kind}));
        let status = if kind == "Manifest" { 404 } else { 200 };
        Ok(http::Response::builder().status(status).body(b"not a real answer".to_vec()).unwrap())
    })));
    log
}

fn make_assets(fmt: &str, src: &[u8]) -> Result<Vec<(String, Vec<u8>)>, String> {
    let mut out = vec![("unsigned".to_string(), src.to_vec())];
    let def = simple_manifest_json("c28", fmt);
    let mk = |remote: bool, no_embed: bool| -> Result<Vec<u8>, String> {
        let mut b = Builder::from_context(ctx(&Value::Null)).with_definition(def.to_string().as_str()).map_err(|e| e.to_string())?;
        if remote { b.set_remote_url(MANIFEST_URL); }
        if no_embed { b.set_no_embed(true); }
        let s = signer("es256");
        let mut o = Cursor::new(Vec::new());
        b.sign(s.as_ref(), fmt, &mut Cursor::new(src.to_vec()), &mut o).map_err(|e| e.to_string())?;
        Ok(o.into_inner())
    };
    out.push(("embedded".into(), mk(false, false)?));
    out.push(("remote_only".into(), mk(true, true)?));
    out.push(("remote_embedded".into(), mk(true, false)?));
    if fmt == "image/jpeg" {
        out.push(("ocsp_signed".into(), fixture("ocsp.jpg")));
    }
    Ok(out)
}

/// vh c28-run [--allowlist] --formats jpg,png  < vectors {cfg, asset, op}
pub fn run(args: &[String]) {
    let allowlist = args.iter().any(|a| a == "--allowlist");
    let formats: Vec<String> = arg(args, "--formats").unwrap_or("jpg".into()).split(',').map(|s| s.to_string()).collect();
    let vectors = read_ndjson_stdin();
    let mut out = Out::new();
    for f in &formats {
        let (fmt, fixture_name) = match f.as_str() {
            "jpg" => ("image/jpeg", "no_manifest.jpg"), "png" => ("image/png", "libpng-test.png"), "webp" => ("image/webp", "sample1.webp"),
            "gif" => ("image/gif", "sample1.gif"), "svg" => ("image/svg+xml", "sample1.svg"), "tiff" => ("image/tiff", "TUSCANY.TIF"),
            "mp4" => ("video/mp4", "video1_no_manifest.mp4"), "wav" => ("audio/wav", "sample1.wav"), _ => continue,
        };
        let src = fixture(fixture_name);
        let assets = match make_assets(fmt, &src) {
            Ok(a) => a,
            Err(e) => { out.emit(&json!({"setup_error": e, "format": f})); continue; }
        };
        let log = install_recorder();
        for v in &vectors {
            let cfg = &v["cfg"];
            let asset_kind = v["asset"].as_str().unwrap();
            let op = v["op"].as_str().unwrap();
            let Some(bytes) = assets.iter().find(|(k, _)| k == asset_kind).map(|a| &a.1) else { continue };
            let mut overlay = json!({"verify": {"remote_manifest_fetch": cfg["rmf"], "ocsp_fetch": cfg["ocsp"]}});
            if cfg["csf"] != "none" {
                overlay["builder"] = json!({"certificate_status_fetch": cfg["csf"]});
            }
            if cfg["cso"].as_bool().unwrap_or(false) {
                overlay["builder"]["certificate_status_should_override"] = json!(true);
            }
            if allowlist {
                overlay["core"] = json!({"allowed_network_hosts": ["only.example.org"]});
            }
            log.lock().unwrap().clear();
            let r = catch(std::panic::AssertUnwindSafe(|| -> Result<String, c2pa::Error> {
                let c = match try_settings(&overlay) { Ok(s) => c2pa::Context::new().with_settings(s)?, Err(e) => return Err(e) };
                match op {
                    "read" => { let r = Reader::from_context(c).with_stream(fmt, Cursor::new(bytes.clone()))?; Ok(format!("ok:{}", state_str(&r))) }
                    "ingredient" => {
                        let mut b = Builder::from_context(c).with_definition(simple_manifest_json("ing", fmt).to_string().as_str())?;
                        b.add_ingredient_from_stream(json!({"title": "i", "relationship": "componentOf"}).to_string(), fmt, &mut Cursor::new(bytes.clone()))?;
                        Ok("ok".into())
                    }
                    _ => {
                        let s = WrapSigner { inner: signer("es256"), reserve: None, tsa: if cfg["tsa"].as_bool().unwrap() { Some(TSA_URL.into()) } else { None } };
                        let mut b = Builder::from_context(c).with_definition(simple_manifest_json("sign", fmt).to_string().as_str())?;
                        let mut o = Cursor::new(Vec::new());
                        b.sign(&s, fmt, &mut Cursor::new(bytes.clone()), &mut o)?;
                        Ok("ok".into())
                    }
                }
            }));
            let reqs = log.lock().unwrap().clone();
            let (result, detail) = match r {
                Ok(Ok(s)) => (s, String::new()),
                Ok(Err(c2pa::Error::RemoteManifestUrl(u))) => ("RemoteManifestUrl".to_string(), u),
                Ok(Err(e)) => (format!("Err:{}", err_kind(&e)), format!("{e}").chars().take(200).collect()),
                Err(p) => ("Panic".to_string(), p),
            };
            out.emit(&json!({"format": f, "cfg": cfg, "asset": asset_kind, "op": op, "allowlist": allowlist, "requests": reqs, "result": result, "detail": detail,
                             "url_ok": detail == MANIFEST_URL}));
        }
        c2pa::verif_hooks::set_transport(None);
    }
}
