//! Workflow replay (C38 C39 C22 C40): a history exported by TLC from spec Workflow is executed in this one process --
//! signing with ingredients (through archive round trips, sync or async entry point), tampering, reading, loading
//! legacy thread-local settings -- and every asset's reported description is recorded next to the extra facts the
//! properties need (ingredient manifests carried byte-identically, recorded ingredient validation vs stand-alone
//! read, re-reads, a fresh-process read).
#![allow(deprecated)]
use std::collections::{BTreeMap, HashMap};
use std::io::Cursor;
use std::panic::AssertUnwindSafe;

use c2pa::{Builder, Reader};
use serde_json::{json, Value};
use sha2::{Digest, Sha256};

use crate::common::*;

const FORMATS: [(&str, &str, &str); 10] = [
    ("jpeg", "image/jpeg", "no_manifest.jpg"), ("png", "image/png", "libpng-test.png"), ("webp", "image/webp", "sample1.webp"), ("gif", "image/gif", "sample1.gif"),
    ("wav", "audio/wav", "sample1.wav"), ("mp4", "video/mp4", "video1_no_manifest.mp4"), ("tiff", "image/tiff", "TUSCANY.TIF"), ("svg", "image/svg+xml", "sample1.svg"),
    ("mp3", "audio/mpeg", "sample1.mp3"), ("jxl", "image/jxl", "sample1.jxl"),
];
const TAMPER_SAFE: usize = 6; // the first six formats have a media byte that can be flipped without breaking the parse

struct AsyncWrap(c2pa::BoxedSigner);
#[async_trait::async_trait]
impl c2pa::AsyncSigner for AsyncWrap {
    async fn sign(&self, data: Vec<u8>) -> c2pa::Result<Vec<u8>> { self.0.sign(&data) }
    fn alg(&self) -> c2pa::SigningAlg { self.0.alg() }
    fn certs(&self) -> c2pa::Result<Vec<Vec<u8>>> { self.0.certs() }
    fn reserve_size(&self) -> usize { self.0.reserve_size() }
}

struct Asset { mime: &'static str, fmt: &'static str, bytes: Vec<u8>, title: String, clean_of: Option<usize>, v1: bool }

fn settings_json() -> Value { json!({"verify": {"remote_manifest_fetch": false}}) }

/// children of the manifest store superbox: label -> sha256 of the child box bytes
fn manifest_boxes(store: &[u8]) -> BTreeMap<String, String> {
    let mut out = BTreeMap::new();
    let rd = |d: &[u8], p: usize| -> Option<(usize, [u8; 4], usize)> { // (size, type, header)
        if p + 8 > d.len() { return None; }
        let s = u32::from_be_bytes([d[p], d[p + 1], d[p + 2], d[p + 3]]) as usize;
        let t = [d[p + 4], d[p + 5], d[p + 6], d[p + 7]];
        if s == 1 { if p + 16 > d.len() { return None; } let l = u64::from_be_bytes(d[p + 8..p + 16].try_into().ok()?) as usize; Some((l, t, 16)) } else if s == 0 { Some((d.len() - p, t, 8)) } else { Some((s, t, 8)) }
    };
    let Some((size, t, h)) = rd(store, 0) else { return out };
    if &t != b"jumb" || size > store.len() { return out; }
    let mut p = h;
    let end = size;
    // skip the store's own description box
    if let Some((s, t, _)) = rd(store, p) { if &t == b"jumd" { p += s; } }
    while p < end {
        let Some((s, t, hh)) = rd(store, p) else { break };
        if s < 8 || p + s > end { break; }
        if &t == b"jumb" {
            // label of the child: its jumd box = 16-byte type, toggles, then a NUL-terminated label when toggle bit 1 is set
            let mut label = String::from("?");
            if let Some((_, t2, h2)) = rd(store, p + hh) { if &t2 == b"jumd" {
                let q = p + hh + h2;
                if q + 17 <= store.len() && store[q + 16] & 0x02 != 0 { let rest = &store[q + 17..]; if let Some(z) = rest.iter().position(|b| *b == 0) { label = String::from_utf8_lossy(&rest[..z]).to_string(); } }
            } }
            out.insert(label, hex::encode(Sha256::digest(&store[p..p + s])));
        }
        p += s;
    }
    out
}

fn rename_and_normalise(v: &mut Value) -> String {
    // manifest labels are fresh per signing: rename by title (titles are unique per asset in a history)
    let mut map: Vec<(String, String)> = vec![];
    if let Some(ms) = v["report"]["manifests"].as_object() { for (k, m) in ms { map.push((k.clone(), format!("<m:{}>", m["title"].as_str().unwrap_or("?")))); } }
    fn walk(v: &mut Value, map: &[(String, String)]) {
        let sub = |s: &str| -> String {
            let mut s = s.to_string();
            for (k, t) in map { if s.contains(k.as_str()) { s = s.replace(k.as_str(), t); } }
            // remaining UUID-shaped substrings (instance ids, ingredient label suffixes)
            let b = s.as_bytes().to_vec(); let mut o = String::new(); let mut i = 0;
            let is_uuid = |w: &[u8]| w.len() == 36 && w.iter().enumerate().all(|(j, c)| if [8, 13, 18, 23].contains(&j) { *c == b'-' } else { c.is_ascii_hexdigit() });
            while i < b.len() { if i + 36 <= b.len() && s.is_char_boundary(i) && s.is_char_boundary(i + 36) && is_uuid(&b[i..i + 36]) { o.push_str("<uuid>"); i += 36; } else { let ch = s[i..].chars().next().unwrap(); o.push(ch); i += ch.len_utf8(); } }
            o
        };
        match v {
            Value::Object(m) => {
                for k in ["time", "hash", "pad", "pad2", "instance_id", "instanceId", "instanceID", "validationTime", "validation_time", "when", "format", "identifier"] { m.remove(k); }
                let keys: Vec<String> = m.keys().cloned().collect();
                let mut items: Vec<(String, Value)> = vec![];
                for k in keys { let mut x = m.remove(&k).unwrap(); walk(&mut x, map); items.push((sub(&k), x)); }
                items.sort_by(|a, b| a.0.cmp(&b.0));
                for (k, x) in items { m.insert(k, x); }
            }
            Value::Array(a) => a.iter_mut().for_each(|x| walk(x, map)),
            Value::String(s) => *s = sub(s),
            _ => {}
        }
    }
    walk(v, &map);
    v.to_string()
}

/// what a read of `bytes` reports: the projection the spec predicts, plus a normalised full report
fn describe(r: &Reader) -> Value {
    let mut desc = json!({"state": state_str(r)});
    let rep: Value = serde_json::from_str(&r.json()).unwrap_or(Value::Null);
    desc["nman"] = json!(rep["manifests"].as_object().map(|m| m.len()).unwrap_or(0));
    if let Some(m) = r.active_manifest() {
        desc["title"] = json!(m.title());
        desc["thumb"] = json!(m.thumbnail_ref().is_some());
        let mut ings = vec![];
        for ing in m.ingredients() {
            let fails: Vec<String> = ing.validation_results().map(|vr| {
                let mut f: Vec<String> = vr.active_manifest().map(|am| am.failure().iter().map(|s| s.code().to_string()).collect()).unwrap_or_default();
                if let Some(ds) = vr.ingredient_deltas() { for d in ds { f.extend(d.validation_deltas().failure().iter().map(|s| s.code().to_string())); } }
                f
            }).unwrap_or_else(|| ing.validation_status().map(|vs| vs.iter()
                // (a status read back from a legacy ingredient assertion has lost its kind -- passed() says true for every one --
                // so the code decides)
                .filter(|s| !s.passed() || format!("{:?}", c2pa::validation_results::validation_codes::log_kind(s.code())) == "Failure")
                .map(|s| s.code().to_string()).collect()).unwrap_or_default());
            ings.push(json!({"title": ing.title(), "rel": format!("{:?}", ing.relationship()), "has_manifest": ing.active_manifest().is_some(), "ok": fails.is_empty(), "failures": fails,
                "active_title": ing.active_manifest().and_then(|l| r.get_manifest(l)).and_then(|m| m.title().map(|s| s.to_string()))}));
        }
        desc["ings"] = json!(ings);
    }
    desc["failures"] = json!(failure_codes(r));
    let mut full = json!({"report": rep, "codes": codes(r)});
    if let Some(o) = full["report"].as_object_mut() { o.remove("validation_time"); }
    let norm = rename_and_normalise(&mut full);
    desc["norm"] = json!(hex::encode(&Sha256::digest(norm.as_bytes())[..12]));
    desc["norm_text"] = json!(norm);
    // content projection: the same without the lists of successful / informational validation steps (how a thumbnail
    // is stored -- own assertion or reference into the ingredient's manifest -- shows up only there)
    fn strip(v: &mut Value) {
        match v {
            Value::Object(m) => { m.remove("success"); m.remove("informational"); for (_, x) in m.iter_mut() { strip(x); } }
            Value::Array(a) => { a.retain(|x| !(x.is_array() && x.get(0).map(|k| k == "success" || k == "informational").unwrap_or(false))); a.iter_mut().for_each(strip); }
            _ => {}
        }
    }
    let mut content: Value = serde_json::from_str(desc["norm_text"].as_str().unwrap()).unwrap_or(Value::Null);
    strip(&mut content);
    let ct = content.to_string();
    desc["content"] = json!(hex::encode(&Sha256::digest(ct.as_bytes())[..12]));
    desc["content_text"] = json!(ct);
    desc
}

fn read_asset(a: &Asset, fl: &str, rt: &tokio::runtime::Runtime) -> Value { read_asset_p(a, fl, rt, 0) }

/// the context of a read under a trust profile: 0 = the fixture anchors, 1 = no anchors at all, 2 = no anchors but the fixture
/// roots as USER anchors (same trust_anchors as profile 1, more trust)
fn profile_ctx(profile: u64) -> c2pa::Context {
    match profile {
        0 => ctx(&settings_json()),
        _ => {
            let mut s = c2pa::Settings::new().with_json(&json!({"builder": {"thumbnail": {"enabled": false}}, "verify": {"remote_manifest_fetch": false}}).to_string()).expect("settings");
            if profile == 2 { s.trust.user_anchors = settings(&Value::Null).trust.trust_anchors.clone(); }
            c2pa::Context::new().with_settings(s).expect("context")
        }
    }
}

fn read_asset_p(a: &Asset, fl: &str, rt: &tokio::runtime::Runtime, profile: u64) -> Value {
    let r = catch(AssertUnwindSafe(|| {
        let c = profile_ctx(profile);
        let rd = Reader::from_context(c);
        let res = if fl == "async" { rt.block_on(rd.with_stream_async(a.mime, Cursor::new(a.bytes.clone()))) } else { rd.with_stream(a.mime, Cursor::new(a.bytes.clone())) };
        match res { Ok(r) => describe(&r), Err(e) => json!({"err": err_kind(&e)}) }
    }));
    r.unwrap_or_else(|p| json!({"panic": p}))
}

fn tamper(a: &Asset) -> Vec<u8> {
    let mut b = a.bytes.clone();
    let n = b.len();
    // a media byte that no parser interprets, away from the manifest: RIFF puts the C2PA chunk last, the others near the front
    let pos = match a.fmt {
        "jpeg" => n - 40, "png" => n - 60, "gif" => n - 30, "mp4" => n - 64,
        _ => { let mut c = Cursor::new(a.bytes.clone());
               let cai = c2pa::verif_hooks::object_locations_from_stream(a.mime, &mut c).ok().and_then(|l| l.into_iter().find(|p| format!("{:?}", p.htype) == "Cai").map(|p| p.offset));
               match cai { Some(off) if off > 200 => off / 2, _ => n - 16 } }
    };
    b[pos] ^= 0x5a;
    b
}

pub fn run(args: &[String]) {
    let full = args.iter().any(|a| a == "--full");
    let fresh = !args.iter().any(|a| a == "--no-fresh");
    let rt = tokio::runtime::Builder::new_current_thread().build().unwrap();
    let mut out = Out::new();
    std::panic::set_hook(Box::new(|_| {}));
    let exe = std::env::current_exe().unwrap();
    for (vi, v) in read_ndjson_stdin().into_iter().enumerate() {
        let vid = v["id"].as_u64().unwrap_or(vi as u64) as usize;
        let ops = v["ops"].as_array().unwrap().clone();
        // assets that get tampered later need a tamper-safe format
        let mut _n_assets = 0usize;
        let mut tamper_targets: Vec<usize> = vec![];
        for o in &ops { match o["op"].as_str().unwrap() { "S" => _n_assets += 1, "T" => { tamper_targets.push(o["i"].as_u64().unwrap() as usize); _n_assets += 1; } _ => {} } }
        let mut lib: Vec<Asset> = vec![];
        let mut first_read: Vec<Value> = vec![];
        let mut steps: Vec<Value> = vec![];
        let mut ing_facts: Vec<Value> = vec![];
        let mut ok_so_far = true;
        for (oi, o) in ops.iter().enumerate() {
            let op = o["op"].as_str().unwrap();
            let fl = o["fl"].as_str().unwrap_or("sync");
            match op {
                "S" => {
                    let idx = lib.len() + 1;
                    let fsel = if tamper_targets.contains(&idx) { (vid + oi) % TAMPER_SAFE } else { (vid + oi) % FORMATS.len() };
                    let (fmt, mime, fx) = FORMATS[fsel];
                    let title = format!("A{idx}");
                    let ings: Vec<usize> = o["ings"].as_array().unwrap().iter().map(|x| x.as_u64().unwrap() as usize).collect();
                    let arch = o["arch"].as_u64().unwrap_or(0);
                    let with_thumb = (vid + oi) % 2 == 1;
                    // compressed manifests and the signing algorithm vary independently of the other choices
                    let compress = ((vid.wrapping_mul(40503) >> 3) ^ oi) % 3 == 0;
                    let salg = ["ed25519", "es256", "ps256", "es384"][((vid.wrapping_mul(69069) >> 5) ^ oi) % 4];
                    // a version-1 claim (legacy ingredient assertions) where every signed ingredient is version 1 too
                    // (a directed history fixes the version with the op's "cv" field)
                    let claim_v1 = match o["cv"].as_u64() { Some(1) => true, Some(2) => false, _ => ((vid.wrapping_mul(2246822519) >> 9) ^ oi) % 3 == 0 } && ings.iter().all(|a| *a == 0 || lib[*a - 1].v1);
                    let mut sj = settings_json();
                    if compress { sj["core"] = json!({"prefer_compress_manifests": true}); }
                    let res = catch(AssertUnwindSafe(|| -> Result<(Vec<u8>, Vec<Value>), String> {
                        let rel_of = |k: usize| if k == 0 { "parentOf" } else if (vid + k) % 2 == 0 { "componentOf" } else { "inputTo" };
                        let mut actions: Vec<Value> = vec![];
                        if ings.is_empty() { actions.push(json!({"action": "c2pa.created", "digitalSourceType": "http://cv.iptc.org/newscodes/digitalsourcetype/digitalCapture"})); }
                        for k in 0..ings.len() {
                            match rel_of(k) { "parentOf" => actions.push(json!({"action": "c2pa.opened", "parameters": {"ingredientIds": [format!("ING{}", k + 1)]}})),
                                              "componentOf" => actions.push(json!({"action": "c2pa.placed", "parameters": {"ingredientIds": [format!("ING{}", k + 1)]}})), _ => {} }
                        }
                        let with_icon = (vid + oi) % 3 == 0;
                        let cgi = if with_icon { json!({"name": "vh", "version": "0.1", "icon": {"format": "image/jpeg", "identifier": "icon.jpg"}}) } else { json!({"name": "vh", "version": "0.1"}) };
                        let mut def = json!({"title": title, "format": mime, "claim_generator_info": [cgi],
                            "assertions": [{"label": "c2pa.actions", "data": {"actions": actions}}, {"label": "org.vh.test", "data": {"k": idx}}]});
                        if with_thumb { def["thumbnail"] = json!({"format": "image/jpeg", "identifier": "thumb.jpg"}); }
                        // the claim's hash algorithm varies independently of the other choices
                        let halg = ["sha256", "sha384", "sha256", "sha512"][((vid.wrapping_mul(2654435761) >> 7) ^ oi) % 4];
                        if halg != "sha256" { def["hash_alg"] = json!(halg); }
                        if claim_v1 { def["claim_version"] = json!(1); }
                        let mut b = Builder::from_context(ctx(&sj)).with_definition(def.to_string().as_str()).map_err(|e| format!("definition:{}", err_kind(&e)))?;
                        if with_thumb { b.add_resource("thumb.jpg", Cursor::new(fixture("thumbnail.jpg"))).map_err(|e| format!("resource:{}", err_kind(&e)))?; }
                        if with_icon { b.add_resource("icon.jpg", Cursor::new(fixture("thumbnail.jpg"))).map_err(|e| format!("resource:{}", err_kind(&e)))?; }
                        let mut facts = vec![];
                        for (k, a) in ings.iter().enumerate() {
                            let rel = rel_of(k);
                            let (imime, ibytes, ititle) = if *a == 0 { ("image/jpeg", fixture("no_manifest.jpg"), "plain".to_string()) } else { (lib[*a - 1].mime, lib[*a - 1].bytes.clone(), lib[*a - 1].title.clone()) };
                            let mut ijv = json!({"title": format!("ing{}:{}", k + 1, ititle), "relationship": rel, "label": format!("ING{}", k + 1)});
                            // every third signed ingredient is described by a definition kept from an earlier import of the clean
                            // original (it carries that import's validation results): the stream, not the JSON, must decide
                            if *a > 0 && (vid + k) % 3 == 0 {
                                let from = lib[*a - 1].clean_of.unwrap_or(*a);
                                let mut b0 = Builder::from_context(ctx(&sj)).with_definition(simple_manifest_json("scratch", "image/jpeg").to_string().as_str()).map_err(|e| format!("definition:{}", err_kind(&e)))?;
                                let mut s0 = Cursor::new(lib[from - 1].bytes.clone());
                                if let Ok(ing0) = b0.add_ingredient_from_stream(ijv.to_string(), lib[from - 1].mime, &mut s0) {
                                    if let Ok(mut kept) = serde_json::to_value(&*ing0) {
                                        kept["title"] = ijv["title"].clone(); kept["relationship"] = ijv["relationship"].clone(); kept["label"] = ijv["label"].clone();
                                        ijv = kept;
                                    }
                                }
                            }
                            let ij = ijv.to_string();
                            let mut s = Cursor::new(ibytes.clone());
                            // every fourth signed ingredient of a version-2 claim (always when the history says via = reader) comes in
                            // through a Reader: a scratch carrier manifest takes the asset as its
                            // ingredient from the stream, and the new builder takes over that recorded ingredient (with its manifest chain,
                            // resolved from the carrier's store) with add_ingredient_from_reader
                            let via_reader = *a > 0 && ijv.get("validation_results").is_none() && (o["via"] == "reader" || ((o["via"].is_null() || o["via"] == "any") && !claim_v1 && (vid + 3 * k + oi) % 4 == 1));
                            let r = if via_reader {
                                (|| -> c2pa::Result<()> {
                                    let mut cb = Builder::from_context(ctx(&sj)).with_definition(simple_manifest_json("carrier", "image/jpeg").to_string().as_str())?;
                                    if fl == "async" { rt.block_on(cb.add_ingredient_from_stream_async(ij.clone(), imime, &mut s))?; } else { cb.add_ingredient_from_stream(ij.clone(), imime, &mut s)?; }
                                    let mut carrier = Cursor::new(Vec::new());
                                    cb.sign(signer("ed25519").as_ref(), "image/jpeg", &mut Cursor::new(fixture("no_manifest.jpg")), &mut carrier)?;
                                    carrier.set_position(0);
                                    let rd = Reader::from_context(ctx(&sj)).with_stream("image/jpeg", carrier)?;
                                    b.add_ingredient_from_reader(&rd).map(|i| {
                                        i.set_title(ijv["title"].as_str().unwrap_or(""));
                                        i.set_relationship(match rel { "parentOf" => c2pa::Relationship::ParentOf, "componentOf" => c2pa::Relationship::ComponentOf, _ => c2pa::Relationship::InputTo });
                                        i.set_label(ijv["label"].as_str().unwrap_or(""));
                                    })
                                })()
                            } else if fl == "async" { rt.block_on(b.add_ingredient_from_stream_async(ij, imime, &mut s)).map(|_| ()) } else { b.add_ingredient_from_stream(ij, imime, &mut s).map(|_| ()) };
                            r.map_err(|e| format!("ingredient{}:{}", k + 1, err_kind(&e)))?;
                            facts.push(json!({"k": k + 1, "a": a, "rel": rel}));
                        }
                        for _ in 0..arch {
                            let mut z = Cursor::new(Vec::new());
                            b.to_archive(&mut z).map_err(|e| format!("to_archive:{:?}", e))?;
                            z.set_position(0);
                            b = Builder::from_context(ctx(&sj)).with_archive(z).map_err(|e| format!("with_archive:{:?}", e))?;
                        }
                        let mut src = Cursor::new(fixture(fx));
                        let mut dst = Cursor::new(Vec::new());
                        if fl == "async" {
                            let s = AsyncWrap(signer(salg));
                            rt.block_on(b.sign_async(&s, mime, &mut src, &mut dst)).map_err(|e| format!("sign:{:?}", e))?;
                        } else {
                            let s = signer(salg);
                            b.sign(s.as_ref(), mime, &mut src, &mut dst).map_err(|e| format!("sign:{:?}", e))?;
                        }
                        Ok((dst.into_inner(), facts))
                    }));
                    match res {
                        Ok(Ok((bytes, facts))) => {
                            let a = Asset { mime, fmt, bytes, title: title.clone(), clean_of: None, v1: claim_v1 };
                            let d = read_asset(&a, "sync", &rt);
                            // C39 facts: manifests carried byte-identically; recorded validation vs stand-alone read
                            let pstore = c2pa::jumbf_io::load_jumbf_from_memory(mime, &a.bytes).map(|s| manifest_boxes(&s)).unwrap_or_default();
                            for f in facts {
                                let ai = f["a"].as_u64().unwrap() as usize;
                                let mut fact = json!({"parent": idx, "k": f["k"], "a": ai, "rel": f["rel"]});
                                if ai > 0 {
                                    let ia = &lib[ai - 1];
                                    let istore = c2pa::jumbf_io::load_jumbf_from_memory(ia.mime, &ia.bytes).map(|s| manifest_boxes(&s)).unwrap_or_default();
                                    let missing: Vec<&String> = istore.iter().filter(|(l, h)| pstore.get(*l) != Some(*h)).map(|(l, _)| l).collect();
                                    fact["ing_manifests"] = json!(istore.len());
                                    fact["carried"] = json!(missing.is_empty() && !istore.is_empty());
                                    fact["standalone_failures"] = first_read[ai - 1]["failures"].clone();
                                    fact["standalone_state"] = first_read[ai - 1]["state"].clone();
                                }
                                ing_facts.push(fact);
                            }
                            steps.push(json!({"op": "S", "asset": idx, "fmt": fmt, "ok": true, "thumb_supplied": with_thumb, "arch": arch, "fl": fl}));
                            first_read.push(d);
                            lib.push(a);
                        }
                        Ok(Err(e)) => { steps.push(json!({"op": "S", "asset": idx, "fmt": fmt, "ok": false, "err": e, "arch": arch, "fl": fl})); ok_so_far = false; }
                        Err(p) => { steps.push(json!({"op": "S", "asset": idx, "fmt": fmt, "ok": false, "panic": p})); ok_so_far = false; }
                    }
                }
                "T" => {
                    let i = o["i"].as_u64().unwrap() as usize;
                    let a = &lib[i - 1];
                    let t = Asset { mime: a.mime, fmt: a.fmt, bytes: tamper(a), title: a.title.clone(), clean_of: Some(i), v1: a.v1 };
                    let d = read_asset(&t, "sync", &rt);
                    steps.push(json!({"op": "T", "asset": lib.len() + 1, "of": i, "fmt": a.fmt, "ok": true}));
                    first_read.push(d);
                    lib.push(t);
                }
                "R" => {
                    let i = o["i"].as_u64().unwrap() as usize;
                    let profile = o["arch"].as_u64().unwrap_or(0);
                    let d = read_asset_p(&lib[i - 1], fl, &rt, profile);
                    let same = profile != 0 || (d["norm"] == first_read[i - 1]["norm"] && d.get("err") == first_read[i - 1].get("err"));
                    steps.push(json!({"op": "R", "i": i, "fl": fl, "profile": profile, "same_as_first": same, "state": d["state"], "norm": d["norm"], "err": d.get("err"), "norm_text": if same || !full { Value::Null } else { d["norm_text"].clone() }}));
                }
                "L" => {
                    // deprecated thread-local settings: trust disabled, verification after reading off -- must not leak into Context-based calls
                    let r = c2pa::settings::Settings::from_string(r#"{"verify": {"verify_trust": false, "verify_after_reading": false}, "trust": {}}"#, "json");
                    steps.push(json!({"op": "L", "ok": r.is_ok()}));
                }
                _ => {}
            }
            if !ok_so_far { break; }
        }
        // final re-reads (C38): in this process, twice, and in a fresh process
        let mut rereads = vec![];
        for (i, a) in lib.iter().enumerate() {
            let d1 = read_asset(a, "sync", &rt);
            let d2 = read_asset(a, "async", &rt);
            rereads.push(json!({"i": i + 1, "sync_same": d1["norm"] == first_read[i]["norm"] && d1.get("err") == first_read[i].get("err"), "async_same": d2["norm"] == first_read[i]["norm"] && d2.get("err") == first_read[i].get("err")}));
        }
        // every history ends with the same probe: the first asset read under lean, rich, lean and standard trust profiles
        // (four contexts on this thread): what one context trusts must not carry over into the next
        if ok_so_far && !lib.is_empty() {
            for pf in [1u64, 2, 1, 0] {
                let d = read_asset_p(&lib[0], "sync", &rt, pf);
                steps.push(json!({"op": "R", "i": 1, "fl": "sync", "profile": pf, "same_as_first": true, "state": d["state"], "norm": d["norm"], "err": d.get("err"), "tail": true}));
            }
        }
        let mut fresh_res = Value::Null;
        if fresh && v["fresh"] != false && !lib.is_empty() {
            let dir = tempfile::tempdir().unwrap();
            for (i, a) in lib.iter().enumerate() { std::fs::write(dir.path().join(format!("{}", i + 1)), &a.bytes).unwrap(); }
            let list: Vec<String> = lib.iter().enumerate().map(|(i, a)| format!("{}={}", i + 1, a.mime)).collect();
            let o = std::process::Command::new(&exe).arg("wf-fresh").arg(dir.path()).args(&list).output();
            fresh_res = match o {
                Ok(o) => { let got: Vec<Value> = String::from_utf8_lossy(&o.stdout).lines().filter_map(|l| serde_json::from_str(l).ok()).collect();
                    json!(got.iter().enumerate().map(|(i, g)| json!({"i": i + 1, "same": first_read.get(i).map(|f| f["norm"] == g["norm"] && f.get("err") == g.get("err")).unwrap_or(false), "norm_text": if full { g["norm_text"].clone() } else { Value::Null }})).collect::<Vec<_>>()) }
                Err(e) => json!({"spawn_error": e.to_string()}),
            };
        }
        let descs: Vec<Value> = first_read.iter().map(|d| { let mut d = d.clone(); if !full { if let Some(o) = d.as_object_mut() { o.remove("norm_text"); o.remove("content_text"); } } d }).collect();
        out.emit(&json!({"id": vid, "steps": steps, "assets": descs, "ing_facts": ing_facts, "rereads": rereads, "fresh": fresh_res, "completed": ok_so_far}));
    }
}

/// vh wf-fresh <dir> 1=mime 2=mime ... : read each file in a fresh process
pub fn fresh(args: &[String]) {
    let rt = tokio::runtime::Builder::new_current_thread().build().unwrap();
    let dir = &args[0];
    let mut out = Out::new();
    let _ = HashMap::<u8, u8>::new();
    for spec in &args[1..] {
        let (i, mime) = spec.split_once('=').unwrap();
        let mime: &'static str = Box::leak(mime.to_string().into_boxed_str());
        let bytes = std::fs::read(format!("{dir}/{i}")).unwrap_or_default();
        let a = Asset { mime, fmt: "", bytes, title: String::new(), clean_of: None, v1: false };
        out.emit(&read_asset(&a, "sync", &rt));
    }
}
