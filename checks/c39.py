"""C39 -- ingredients carry their source manifests and validation faithfully (spec: Workflow; replay of TLC histories in one process)."""
from lib.vcheck import *
from checks.wfcommon import report


def run(ctx):
    report(ctx, "C39", "with_ingredients")
