"""C39 -- ingredients carry their source manifests and validation faithfully (spec: Workflow; replay of TLC histories in one process)."""
from lib.vcheck import *
from checks.wfcommon import report


def run(ctx):
    report(ctx, "C39", "with_ingredients")
    # directed: a version-1 claim that takes over, through a Reader, an ingredient recorded with a validation failure (the
    # general replay uses the Reader entry point for version-2 claims and for model-chosen clean chains only)
    import json
    probe = {"id": 3307, "ops": [{"arch": 0, "cv": 1, "fl": "sync", "i": 0, "ings": [0], "op": "S", "via": "stream"}, {"arch": 0, "fl": "sync", "i": 1, "ings": [], "op": "T"},
                                 {"arch": 0, "cv": 1, "fl": "sync", "i": 0, "ings": [2], "op": "S", "via": "reader"}]}
    p = vh(["wf-run", "--no-fresh"], stdin=json.dumps(probe), timeout=600)
    o = json.loads(p.stdout.splitlines()[0])
    if not o.get("completed") or len(o.get("assets", [])) != 3:
        raise ToolError("directed probe did not complete: %s" % [s.get("err") for s in o.get("steps", [])])
    ing = (o["assets"][2].get("ings") or [{}])[0]
    if ing.get("ok") is not False:
        ctx.violation("recorded-validation-lost:v1-claim:ingredient-from-reader", "a version-1 claim that takes over, with add_ingredient_from_reader, an ingredient recorded with %s reports that ingredient without any validation status" % o["assets"][1].get("failures"), {"ops": probe["ops"], "ingredient": ing})
    ctx.cov["traces_validated_against_impl"] += 1
