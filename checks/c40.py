"""C40 -- synchronous and asynchronous APIs behave identically (spec: Workflow; replay of TLC histories in one process)."""
from lib.vcheck import *
from checks.wfcommon import report


def run(ctx):
    report(ctx, "C40", "with_async")
