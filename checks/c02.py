"""C02 -- tamper evidence: manifest store bytes cannot change undetected (spec: ManifestStore)."""
import json
from lib.vcheck import *


def run(ctx):
    ctx.level = "model_checking"
    ctx.assumptions += ["stores of four really-signed JPEG assets (single manifest; parent + component ingredient; 2-deep parent chain; update manifest), modified as external manifest data and validated against the unmodified asset",
                        "component classes come from the harness' own JUMBF walker; the order of ingredient deltas in the validation results is treated as a set"]
    r = tlc_expect_ok(tlc("ManifestStore", "MC_ManifestStore.cfg", workers=4, timeout=600), "MC ManifestStore")
    ctx.add_tlc(r)
    if r.coverage().get("Tamper", (0, 0))[1] == 0:
        raise ToolError("vacuity: Tamper never taken")
    args = ["c02-record", "--seed", ctx.seed] + (["--per", 1200] if ctx.quick else ["--every"])
    p = vh(args, timeout=20000)
    recs = [json.loads(l) for l in p.stdout.splitlines() if l.strip()]
    good = []
    for x in recs:
        if "setup_error" in x:
            ctx.violation("setup:%s" % x["shape"], "could not produce the signed store: %s" % x["setup_error"], x)
        else:
            good.append(x)
    verdicts = judge_with_tlc(ctx, "Oracle_ManifestStore", "Oracle_ManifestStore.cfg", [{"outcome": x["outcome"], "report_equal": x["report_equal"]} for x in good], chunk=40000, timeout=1500)
    for x, v in zip(good, verdicts):
        if x["outcome"] == "Panic":
            ctx.violation("panic:%s:%s" % (x["op"], x["class"]), "reader panicked on a modified store: %s" % x["detail"], x)
        if x["base_state"] not in ("Valid", "Trusted"):
            ctx.violation("baseline-not-valid:%s" % x["shape"], "the freshly signed store does not validate", x)
        if not v["ok"]:
            ctx.violation("valid-after-edit:%s:%s" % (x["op"], x["class"]), "%s at offset %d (%s) leaves the store %s with a changed report (%s)" % (x["op"], x["off"], x["class"], x["outcome"], x["detail"]), x)
    ctx.cov["traces_validated_against_impl"] += len(good)
    ctx.cov["evaluations"] = len(recs)
    ctx.cov["distinct_nontrivial"] = len({(x["shape"], x["op"], x["class"]) for x in good})
    ctx.cov["component_classes"] = sorted({x["class"] for x in good if x["op"] == "flip"})[:60]
    ctx.cov["rule"] = ("per store: byte flips (%s) classified by JUMBF component; swap of adjacent sibling boxes, duplication and deletion of every child box of every superbox (ancestor sizes fixed up); "
                       "distinct_nontrivial = distinct (store shape, operation, component class) triples" % ("every box boundary + seeded offsets" if ctx.quick else "every byte x 3 patterns"))
    ctx.sample({k: good[0][k] for k in ("shape", "op", "off", "class", "outcome", "report_equal")})
    st = [x for x in good if x["op"] != "flip"]
    if st:
        ctx.sample({k: st[0][k] for k in ("shape", "op", "off", "class", "outcome", "report_equal")})
