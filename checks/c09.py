"""C09 -- embedding and removing a manifest preserves the media content (spec: Container)."""
from lib.vcheck import *
from checks.containercommon import pipeline, report


def run(ctx):
    ctx.level = "model_checking"
    ctx.assumptions += ["media projection by the harness' own walkers: JPEG segments + scan data, PNG chunks + trailing data, RIFF chunks, BMFF top-level boxes + mdat payload + every stco/co64 entry dereferenced; "
                        "other formats are checked through Remove(Write(a)) = Remove(a) only"]
    recs, findings, setup_errors = pipeline(ctx)
    report(ctx, "C09", findings, setup_errors)
    ctx.cov["steps_with_media_walker"] = sum(1 for x in recs for s in x.get("steps", []) if s.get("media_same") is not None)
