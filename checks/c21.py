"""C21 -- update manifests cannot alter bound content or carry forbidden parts (spec: UpdateManifest; replay of TLC vectors)."""
import json
from lib.vcheck import *


def run(ctx):
    ctx.level = "model_checking"
    ctx.assumptions += ["update manifests are produced through BuilderIntent::Update on JPEG / PNG / MP4 (format chosen from the vector id); ill-formed variants are what the public Builder can express: a second (componentOf) ingredient, a disallowed action (c2pa.cropped / c2pa.edited); crafted stores with a hard binding inside an update manifest are not driven",
                        "content change = one media byte flipped at a position outside the manifest"]
    r = tlc_expect_ok(tlc("MC_UpdateManifest", "MC_UpdateManifest.cfg", name="mc_update", workers=4, timeout=600), "MC UpdateManifest")
    ctx.add_tlc(r)
    if not ctx.quick:
        ctx.add_tlc(tlc_expect_ok(tlc("MC_UpdateManifest", "MC_UpdateManifest_deep.cfg", name="mc_update_deep", workers=4, timeout=600, coverage=False), "MC UpdateManifest MaxSteps=8"))
    cov = r.coverage()
    for a in ("Update", "Tamper"):
        if cov.get(a, (0, 0))[1] == 0:
            raise ToolError("vacuity: %s never taken" % a)
    w = tlc("MC_UpdateManifest", "MC_UpdateManifest_W.cfg", name="mc_update_w", workers=2, timeout=300, coverage=False)
    if not (w.violated and "W_TwoUpdatesValid" in w.out):
        raise ToolError("vacuity witness not reachable")
    vecs = tlc_expect_ok(tlc("MC_UpdateManifest", "MC_UpdateManifest_emit.cfg", name="update_emit", workers=2, timeout=600, coverage=False), "emit").printed("VEC")
    if len(vecs) < 50:
        raise ToolError("vector export too small: %d" % len(vecs))
    reps = 1 if ctx.quick else 6      # the vector id selects format and action names
    runs = []
    for rep in range(reps):
        for v in vecs:
            runs.append(dict(v, id=len(runs)))
    p = vh(["c21-replay"], stdin="\n".join(json.dumps(x) for x in runs), timeout=6000)
    outs = [json.loads(l) for l in p.stdout.splitlines() if l.strip()]
    if len(outs) != len(runs):
        raise ToolError("replay returned %d results for %d vectors" % (len(outs), len(runs)))
    nvalid = 0
    for v, o in zip(runs, outs):
        ops = [s["op"] for s in v["steps"]]
        shape = ",".join(("U" + ("+extra" if s["extra"] else "") + ("+" + s["action"] if s["action"] != "none" else "")) if s["op"] == "U" else "T" for s in v["steps"])
        case = {"steps": v["steps"], "fmt": o["fmt"], "observed": [{k: s.get(k) for k in ("op", "sign", "own_binding", "forced")} | {"state": (s.get("read") or {}).get("state"), "failures": (s.get("read") or {}).get("failures"), "err": (s.get("read") or {}).get("err")} for s in o["steps"]]}
        if o.get("panic"):
            ctx.violation("panic", "panic while building / reading update manifests: %s" % o["panic"], case)
            continue
        if o["steps"] and o["steps"][0].get("sign") != "ok":
            raise ToolError("base manifest could not be signed: %s" % o["steps"][0])
        real = [s for s in o["steps"] if s["op"] not in ("base", "final-tamper-probe")]
        last = real[-1] if real else o["steps"][0]
        refused = last.get("sign", "ok") != "ok"
        state = None if refused else (last.get("read") or {}).get("state")
        accepted = state in ("Valid", "Trusted")
        # an ill-formed update manifest that the Builder refused was signed again with the signing-side test off (hook H5):
        # the validator alone must then keep it from being Valid
        for s in real:
            f = s.get("forced")
            if f and f.get("sign") == "ok" and (f.get("read") or {}).get("state") in ("Valid", "Trusted"):
                ctx.violation("illformed-update-valid:validator:%s" % shape, "an ill-formed update manifest (%s), signed with the signing-side test switched off, is reported %s by the validator" % (shape, f["read"].get("state")), case | {"forced": f})
        for s in real:
            if s["op"] == "U" and s.get("sign") == "ok" and s.get("own_binding"):
                ctx.violation("update-with-hard-binding:%s" % o["fmt"], "an update manifest produced through the Update intent carries its own hard binding", case)
        if v["verdict"] == "valid":
            nvalid += 1
            if not accepted:
                ctx.violation("wellformed-update-not-valid:%s:%s" % (o["fmt"], "refused" if refused else state), "a well-formed update chain (%s) on unchanged content is not reported Valid: %s" % (shape, last.get("sign") if refused else (last.get("read") or {}).get("failures")), case)
            probe = [s for s in o["steps"] if s["op"] == "final-tamper-probe"]
            if probe and (probe[0]["read"].get("state") in ("Valid", "Trusted")):
                ctx.violation("change-after-update-undetected:%s" % o["fmt"], "content changed after the update manifest(s) (%s) and the asset is still reported %s" % (shape, probe[0]["read"].get("state")), case)
        else:
            if accepted:
                illformed = any(s["op"] == "U" and (s["extra"] or s["action"] == "disallowed") for s in v["steps"])
                if illformed:
                    ctx.violation("illformed-update-valid:%s" % shape, "an ill-formed update manifest chain (%s) is reported %s" % (shape, state), case)
                elif "T" in ops and ops.index("T") < len(ops) - 1 and "U" in ops[ops.index("T") + 1:]:
                    ctx.violation("valid-on-changed-content:update-added-after-change:%s" % o["fmt"], "content was changed and an update manifest added afterwards (%s): reported %s" % (shape, state), case)
                else:
                    ctx.violation("change-after-update-undetected:%s" % o["fmt"], "content changed after the update manifest (%s): reported %s" % (shape, state), case)
    ctx.cov["traces_validated_against_impl"] += len(runs)
    ctx.cov["evaluations"] = sum(len(o["steps"]) for o in outs)
    ctx.cov["distinct_nontrivial"] = len(vecs)
    ctx.cov["valid_chains"] = nvalid
    ctx.cov["rule"] = "every history of <= 3 steps over {Update(extra ingredient?, none/allowed/disallowed action), Tamper} exported by TLC (%d), x %d instantiations (format JPEG/PNG/MP4, action names); non-trivial = all" % (len(vecs), reps)
    ctx.sample({"steps": runs[3]["steps"], "verdict": runs[3]["verdict"], "observed": [{"op": s["op"], "sign": s.get("sign"), "state": (s.get("read") or {}).get("state")} for s in outs[3]["steps"]]})
