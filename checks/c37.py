"""C37 -- revocation evidence is bound to the signing certificate (spec: Revocation; replay with generated OCSP responses)."""
import json, os, shutil
from lib.vcheck import *
from lib import pkikit as K


def run(ctx):
    ctx.level = "model_checking"
    ctx.assumptions += ["OCSP responses are generated with `openssl ocsp -index` (%s): status good / revoked (revocation time before signing) / unknown, about the signing certificate or another leaf of the same CA, signed by a CA-delegated responder (OCSPSigning EKU), by the CA itself, or by an unrelated self-signed key" % K.OPENSSL,
                        "the response is stapled through Signer::ocsp_val; certificate-status assertions and expired responses (the CLI cannot back-date thisUpdate/nextUpdate) are not driven",
                        "reads: the generated root as trust anchor, verify_trust on, ocsp_fetch off (no network)"]
    r = tlc_expect_ok(tlc("MC_Revocation", "MC_Revocation.cfg", name="mc_revocation", workers=2, timeout=600), "MC Revocation")
    ctx.add_tlc(r)
    vecs = tlc_expect_ok(tlc("MC_Revocation", "MC_Revocation_emit.cfg", name="revocation_emit", workers=2, timeout=600, coverage=False), "emit").printed("VEC")
    if len(vecs) != 108:
        raise ToolError("expected 108 vectors, got %d" % len(vecs))
    d = ctx.path("pki")
    shutil.rmtree(d, ignore_errors=True); os.makedirs(d)
    try:
        rk, rc = K.selfsigned(d, "root", "VH Root")
        ik, ic, _ = K.issue(d, "int1", "VH Issuing CA", rk, rc, ext=K.CA_EXT, days=2000)
        lk, lc, lp8 = K.issue(d, "leaf", "VH Leaf", ik, ic)
        ok_, oc, _ = K.issue(d, "other", "VH Other Leaf", ik, ic)
        dk, dc, _ = K.issue(d, "ocspsigner", "VH OCSP", ik, ic, ext=K.OCSP_EXT)
        uk, uc = K.selfsigned(d, "unrelated", "VH Unrelated", ext=K.OCSP_EXT)
        chain = K.cat([lc, ic], os.path.join(d, "chain.pem"))     # the issuer travels in the x5chain, as it does in practice
        chain3 = K.cat([lc, ic, rc], os.path.join(d, "chain3.pem"))  # .. or the issuer and the root
        runs = [{"id": 0, "chain": chain, "key": lp8, "alg": "es256", "sign_settings": {"verify": {"verify_after_sign": False, "verify_trust": False}}, "reads": []}]
        for i, v in enumerate(vecs, start=1):
            rcert, rkey = {"delegated": (dc, dk), "ca": (ic, ik), "unrelated": (uc, uk)}[v["responder"]]
            subject, other = (lc, oc) if v["about"] == "signing" else (oc, lc)
            if v["batch"] == "single":
                resp = K.ocsp_response(d, "r%d" % i, ic, ik, rcert, rkey, subject, v["status"])
            else:
                entries = [(subject, v["status"]), (other, "good")]
                if v["batch"] == "other-good-first":
                    entries.reverse()
                resp = K.ocsp_response_multi(d, "r%d" % i, ic, ik, rcert, rkey, entries)
            runs.append({"id": i, "chain": chain if v["chain"] == "issuer" else chain3, "key": lp8, "alg": "es256", "ocsp": resp, "sign_settings": {"verify": {"verify_after_sign": False, "verify_trust": False}}, "reads": []})
    except K.KitError as e:
        raise ToolError("PKI generation failed: %s" % e)
    rs = {"name": "r", "settings": {"trust": {"trust_anchors": open(rc).read()}, "verify": {"verify_trust": True, "ocsp_fetch": False}}}
    for x in runs:
        x["reads"] = [rs]
    p = vh(["pki-run"], stdin="\n".join(json.dumps(x) for x in runs), timeout=6000)
    outs = [json.loads(l) for l in p.stdout.splitlines() if l.strip()]
    if len(outs) != len(runs) or outs[0].get("sign") != "ok":
        raise ToolError("pki-run failed: %s" % (outs[:1],))
    base = outs[0]["reads"][0]["read"]
    if base.get("state") != "Trusted":
        raise ToolError("baseline without OCSP response is not Trusted: %s" % base)
    base_fail = sorted(c[1] for c in base["active"] if c[0] == "failure")
    for v, o in zip(vecs, outs[1:]):
        case = {"vector": v, "result": o}
        if o.get("panic"):
            ctx.violation("panic", "panic with a stapled OCSP response: %s" % o["panic"], case)
            continue
        if o.get("sign") != "ok":
            ctx.violation("sign-refused:%s:%s:%s" % (v["status"], v["about"], v["responder"]), "signing with a stapled %s response failed: %s %s" % (v["status"], o.get("sign"), o.get("detail")), case)
            continue
        read = o["reads"][0]["read"]
        state = read.get("state")
        fails = sorted(c[1] for c in read.get("active", []) if c[0] == "failure")
        key = "%s:%s:%s%s%s" % (v["status"], v["about"], v["responder"], "" if v["batch"] == "single" else ":" + v["batch"], "" if v["chain"] == "issuer" else ":chain3")
        if v["verdict"] == "not-valid":
            if state in ("Valid", "Trusted"):
                ctx.violation("revoked-valid:%s" % key, "a binding OCSP response says revoked, the manifest is reported %s" % state, case)
        else:
            if state != base.get("state") or fails != base_fail:
                ctx.violation("verdict-changed:%s" % key, "a %s response (%s) changes the verdict from %s %s to %s %s" % ("binding" if v["binds"] else "non-binding", key, base.get("state"), base_fail, state, fails), case)
    ctx.cov["traces_validated_against_impl"] += len(vecs) + 1
    ctx.cov["evaluations"] = len(vecs)
    ctx.cov["distinct_nontrivial"] = sum(1 for v in vecs if v["status"] == "revoked")
    ctx.cov["rule"] = "all 108 combinations of status x subject x responder x x5chain form (issuer / issuer + root) x batching (single entry, or a second entry saying good about the other certificate before / after it), each stapled into a freshly signed asset; non-trivial = revoked responses"
    ctx.sample({"vector": vecs[0]})
