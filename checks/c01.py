"""C01 -- tamper evidence: signed asset content cannot change without detection (spec: HardBinding)."""
import json
from lib.vcheck import *


def run(ctx):
    ctx.level = "model_checking"
    ctx.assumptions += ["declared-excluded bytes: data-hash exclusions read from the signed assertion; the C2PA box (handler box map of the unedited asset) for box hashes; "
                        "BMFF xpath exclusions resolved on the signed file by the harness' own box-tree walker; for update manifests the manifest container plus the parent's xpath exclusions",
                        "hashes and signatures are trusted; 13 formats (one fixture each) x binding kinds default / box (compressed manifests) / update (jpeg, png, mp4)"]
    r = tlc_expect_ok(tlc("HardBinding", "MC_HardBinding.cfg", workers=2, timeout=300), "MC HardBinding")
    ctx.add_tlc(r)
    w = tlc("HardBinding", "MC_HardBinding_coded.cfg", name="c01coded", workers=2, timeout=300, coverage=False)
    if not w.violated:
        ctx.drift_note("HardBinding", "the mirror (box-hash verifier ignoring trailing bytes) no longer violates TamperEvidentCoded")
    recs = []
    if ctx.quick:
        p = vh(["c01-record", "--seed", ctx.seed, "--per", 220], timeout=3000)
        recs = [json.loads(l) for l in p.stdout.splitlines() if l.strip()]
    else:
        p = vh(["c01-record", "--seed", ctx.seed, "--every", "--formats", "png,svg"], timeout=20000)
        recs = [json.loads(l) for l in p.stdout.splitlines() if l.strip()]
        p = vh(["c01-record", "--seed", ctx.seed, "--per", 6000], timeout=20000)
        recs += [json.loads(l) for l in p.stdout.splitlines() if l.strip()]
    good = []
    for x in recs:
        if "setup_error" in x:
            ctx.violation("setup:%s:%s" % (x["format"], x["kind"]), "could not produce the signed asset: %s" % x["setup_error"], x)
        else:
            good.append(x)
    slim = [{"state": x["state"], "excluded": x["excluded"], "report_equal": x["report_equal"]} for x in good]
    verdicts = judge_with_tlc(ctx, "Oracle_HardBinding", "Oracle_HardBinding.cfg", slim, chunk=40000, timeout=1500)
    for x, v in zip(good, verdicts):
        if x["state"] == "Panic":
            ctx.violation("panic:%s" % x["format"], "reader panicked on an edited asset: %s" % x["detail"], x)
        if x["base_state"] not in ("Valid", "Trusted"):
            ctx.violation("baseline-not-valid:%s:%s" % (x["format"], x["kind"]), "the freshly signed asset does not validate", x)
        if not v["ok"]:
            where = "in-excluded-but-report-changed" if x["excluded"] else "outside-excluded"
            pos = "eof" if x["op"] == "append" else ("after-manifest" if x["op"] == "insert" else "")
            ctx.violation("valid-after-edit:%s:%s:%s:%s%s" % (x["binding"].split(".v")[0].replace("c2pa.hash.", ""), x["kind"], x["op"], x["format"], (":" + pos) if pos else ""),
                          "%s of %d byte(s) at %d (%s) leaves the %s asset %s" % (x["op"], x["len"], x["off"], where, x["format"], x["state"]), x)
    ctx.cov["traces_validated_against_impl"] += len(good)
    ctx.cov["evaluations"] = len(recs)
    ctx.cov["distinct_nontrivial"] = sum(1 for x in good if not x["excluded"])
    ctx.cov["rule"] = ("per (format, binding kind): byte flips at the boundaries of every declared-excluded range, file start/middle/end and seeded offsets%s; inserts and deletes of 1 and 33 bytes at every "
                       "excluded-range boundary, start, middle, end (append); truncations; non-trivial = the edit touches bytes outside the declared exclusions" % ("" if ctx.quick else " (every offset x 3 patterns for png and svg)"))
    ctx.sample({k: good[0][k] for k in ("format", "kind", "binding", "op", "off", "excluded", "state", "report_equal")})
    ex = [x for x in good if x["excluded"] and x["op"] == "flip"]
    if ex:
        ctx.sample({k: ex[0][k] for k in ("format", "kind", "binding", "op", "off", "excluded", "state", "report_equal")})
