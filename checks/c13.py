"""C13 -- range hashing equals the digest of exactly the selected bytes (spec: RangeHash, HashPipeline)."""
import json, hashlib, struct
from lib.vcheck import *

HUGE = 1 << 29   # stand-in for u64 values beyond any stream length (TLC integers are 32-bit)


def content(cseed, n):
    out = bytearray()
    ctr = 0
    while len(out) < n:
        out += hashlib.sha256(struct.pack("<QQ", cseed, ctr)).digest()
        ctr += 1
    return bytes(out[:n])


def digest_of(sel, data, alg):
    h = hashlib.new(alg)
    for seg in sel:
        if seg[0] == "b":
            h.update(data[seg[1]:seg[2]])
        else:
            h.update(struct.pack(">Q", seg[1]))
    return h.hexdigest()


def is_err(sel):
    return len(sel) == 1 and sel[0][0] == "err"


def judge(ctx, case, sel, data, alg, observed, q1, q2, unamb, where, qi=False):
    """property-layer acceptance for one observation; returns True when it was a checked (unambiguous) case"""
    cls = "q1" if q1 else ("q2" if q2 else ("qi" if qi else "plain"))
    if observed.startswith("Panic"):
        ctx.violation("panic:%s" % where, "range hashing panicked: %s" % observed, case)
        return True
    if not unamb:
        return False
    if is_err(sel):
        if not observed.startswith("Err"):
            ctx.violation("past-end-accepted:%s" % where, "a range reaching past the end of the data was not rejected", case)
    else:
        exp = digest_of(sel, data, alg)
        if observed != exp:
            mode = "excl" if case["excl"] else "incl"
            what = ("rejected with %s" % observed) if observed.startswith("Err") else "digest differs from the digest of the selected bytes"
            ctx.violation("selection:%s:%s" % (mode, "marker-" + cls if cls != "plain" else "plain"),
                          "%s (%s mode, class %s)" % (what, mode, cls), dict(case, expected=exp, observed=observed))
    return True


def run(ctx):
    ctx.level = "model_checking"
    ctx.assumptions += ["SHA-2 is treated as an injective function of the selected token sequence (python hashlib is the independent digest)",
                        "u64 values beyond the stream length are represented by 2^29 in the spec (TLC integers are 32-bit); any such range reaches past the end"]
    # 1. MC: mirror layer = property layer on all small inputs; reference well-formedness
    cfg = "MC_RangeHash.cfg" if ctx.quick else "MC_RangeHash_thorough.cfg"
    r = tlc_expect_ok(tlc("MC_RangeHash", cfg, workers=8, timeout=2400, coverage=False, heap="4g" if ctx.quick else "20g"), "MC RangeHash")      # 15.4 M initial states in the thorough configuration
    ctx.add_tlc(r)
    # 2. MC: reader/worker pipeline, every interleaving, termination
    pcfg = "MC_HashPipeline.cfg" if ctx.quick else "MC_HashPipeline_thorough.cfg"
    p = tlc_expect_ok(tlc("MC_HashPipeline", pcfg, workers=2, timeout=600), "MC HashPipeline")
    ctx.add_tlc(p)
    # 3. R: vectors = every unambiguous small input with the selection the spec predicts, each through the
    #    real implementation with every chunk size (each chunk size is a different hand-off schedule)
    e = tlc_expect_ok(tlc("MC_RangeHash", "MC_RangeHash_emit.cfg", name="c13emit", workers=4, timeout=900, coverage=False), "emit")
    vecs = e.printed("VEC")
    if len(vecs) < 1000:
        raise ToolError("vector export too small: %d" % len(vecs))
    if ctx.quick:
        # boundary subset + seeded sample
        keep = [v for v in vecs if len(v["rs"]) <= 1]
        rest = [v for v in vecs if len(v["rs"]) > 1]
        ctx.rng.shuffle(rest)
        vecs = keep + rest[:6000]
    vin = ctx.path("vectors.ndjson")
    write_ndjson(vin, vecs)
    algs = "sha256" if ctx.quick else "sha256,sha384,sha512"
    pr = vh(["c13-replay", "--algs", algs], stdin=open(vin).read())
    obs = [json.loads(l) for l in pr.stdout.splitlines() if l.strip()]
    if len(obs) != len(vecs):
        raise ToolError("replay returned %d results for %d vectors" % (len(obs), len(vecs)))
    evals = 0
    nontriv = 0
    for v, o in zip(vecs, obs):
        data = content(v["len"], v["len"])
        if v["rs"]:
            nontriv += 1
        for res in o["results"]:
            evals += 1
            judge(ctx, {"len": v["len"], "excl": v["excl"], "rs": v["rs"], "chunk": res["chunk"], "alg": res["alg"]},
                  v["sel"], data, res["alg"], res["r"], v["q1"], v["q2"], True, "hook", v["qi"])
            if not res["grammar_ok"]:
                ctx.violation("progress-grammar", "hash progress ticks not positive/increasing/within total",
                              {"vector": v, "chunk": res["chunk"]})
    ctx.cov["traces_validated_against_impl"] += len(vecs)
    ctx.sample({"vector": vecs[len(vecs) // 3], "observed": obs[len(vecs) // 3]["results"][:2]})
    # 4. O: seeded random cases through the public API, judged by RefSel evaluated in TLC
    n = 3000 if ctx.quick else 60000
    pr = vh(["c13-record", "--seed", ctx.seed, "--n", n])
    recs = [json.loads(l) for l in pr.stdout.splitlines() if l.strip()]

    def clamp(x):
        x = int(x)
        return x if x < HUGE else HUGE
    slim = [{"len": x["len"], "excl": x["excl"],
             "rs": [{"start": clamp(q["start"]), "length": clamp(q["length"]), "marker": q["marker"], "moff": clamp(q["moff"])} for q in x["rs"]]} for x in recs]
    verdicts = judge_with_tlc(ctx, "Oracle_RangeHash", "Oracle_RangeHash.cfg", slim, chunk=10000, timeout=1200)
    checked = 0
    for x, v in zip(recs, verdicts):
        data = content(x["cseed"], x["len"])
        if judge(ctx, {k: x[k] for k in ("len", "cseed", "excl", "rs", "alg")}, v["sel"], data, x["alg"], x["r"],
                 v["q1"], v["q2"], v["unamb"], "public", v["qi"]):
            checked += 1
    ctx.cov["traces_validated_against_impl"] += checked
    ctx.cov["evaluations"] = evals + len(recs)
    ctx.cov["distinct_nontrivial"] = nontriv + sum(1 for x in recs if x["rs"])
    ctx.cov["rule"] = ("R: every unambiguous input with len<=4, <=2 ranges over 0..5 (+markers) x every chunk size 1..len+1 through the hook; "
                       "O: seeded random streams 0..4096 bytes with 0..8 ranges incl. unsorted/overlapping/adjacent/empty/past-end/u64 extremes/markers "
                       "through the public hash_stream_by_alg, selection computed by TLC; non-trivial = has at least one range")
    ctx.cov["random_cases_judged"] = checked
    ctx.sample({"random_case": {k: recs[1][k] for k in ("len", "excl", "rs", "alg", "r")}, "spec": verdicts[1]})
