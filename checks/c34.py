"""C34 -- JUMBF URIs and manifest labels parse back to their parts (spec: Labels)."""
import json
from lib.vcheck import *


def run(ctx):
    ctx.level = "exploration"
    ctx.assumptions += ["strings are token sequences in the spec; vendor strings and assertion labels are drawn from the classes the SDK generates "
                        "(lower-case words with '_' '.' '-' and digits, <=32 chars; no ':' '/' '=' inside a part)"]
    r = tlc_expect_ok(tlc("MC_Labels", "MC_Labels.cfg", workers=6, timeout=900, coverage=False), "MC Labels")
    ctx.add_tlc(r)
    e = tlc_expect_ok(tlc("MC_Labels", "MC_Labels_emit.cfg", name="c34emit", workers=2, timeout=900, coverage=False), "emit")
    vecs = e.printed("VEC")
    if len(vecs) < 300:
        raise ToolError("vector export too small: %d" % len(vecs))
    k = 3 if ctx.quick else 40
    p = vh(["c34-replay", "--seed", ctx.seed, "--k", k], stdin="\n".join(json.dumps(v) for v in vecs))
    obs = [json.loads(l) for l in p.stdout.splitlines() if l.strip()]
    if len(obs) != len(vecs):
        raise ToolError("replay returned %d of %d" % (len(obs), len(vecs)))
    for v, o in zip(vecs, obs):
        for f in o["fails"]:
            ctx.violation("law:%s" % f["law"], "round-trip law %s fails" % f["law"], {"vector": v, "fail": f})
    ctx.cov["traces_validated_against_impl"] += len(vecs)
    ctx.cov["evaluations"] = len(vecs) * k
    ctx.cov["distinct_nontrivial"] = sum(1 for v in vecs if v["p"]["cgi"] or v["p"]["version"] != "none" or v["inst"] != "none")
    ctx.cov["rule"] = ("every generable combination of label part classes (v1/v2 x 6 vendor classes x version x reason) x 5 assertion-label classes x instance x thumbnail type, "
                       "%d random concrete instantiations each, 14 round-trip laws per instantiation; non-trivial = has vendor, version or instance" % k)
    ctx.cov["exhaustive"] = False
    ctx.sample({"vector": vecs[7], "fails": obs[7]["fails"]})
    ctx.sample({"vector": vecs[-3], "fails": obs[-3]["fails"]})
