"""C26 -- the network host allow-list is enforced on every request (spec: HttpPolicy)."""
from lib.vcheck import *
from checks.httpcommon import pipeline, case_of


def run(ctx):
    ctx.level = "model_checking"
    ctx.assumptions += ["host/port/scheme classes; 'port must match' is read permissively (an explicit default port may equal an omitted one) for VIOLATION purposes",
                        "only the direction 'nothing non-matching reaches the transport' is required; refusing a matching URI is DRIFT"]
    meta, verdicts = pipeline(ctx, ["allow", "redirect", "chain"] if not ctx.quick else ["allow", "redirect"])
    for (v, run), j in zip(meta, verdicts):
        if run["result"].startswith("panic"):
            ctx.violation("panic", "policy stack panicked", case_of(v, run))
        for k in j["c26"]:
            hop = "initial" if k == 1 else "hop"
            ctx.violation("unlisted-reached-transport:%s" % hop, "request %d (%s) reached the transport although no configured pattern matches it" % (k, run["recorded"][k - 1]["uri"]), case_of(v, run))
        if j["else_disallowed"] and v["restricted"]:
            ctx.violation("not-uri-disallowed", "a refused request did not report the URI-disallowed error (%s)" % run["result"], case_of(v, run))
