"""C26 -- the network host allow-list is enforced on every request (spec: HttpPolicy)."""
from lib.vcheck import *
from checks.httpcommon import pipeline, case_of
from checks.c28 import run_ops


def run(ctx):
    ctx.level = "model_checking"
    ctx.assumptions += ["host/port/scheme classes; 'port must match' is read permissively (an explicit default port may equal an omitted one) for VIOLATION purposes",
                        "only the direction 'nothing non-matching reaches the transport' is required; refusing a matching URI is DRIFT"]
    meta, verdicts = pipeline(ctx, ["allow", "redirect", "chain"] if not ctx.quick else ["allow", "redirect"])
    for (v, run), j in zip(meta, verdicts):
        if run["result"].startswith("panic"):
            ctx.violation("panic", "policy stack panicked", case_of(v, run))
        for k in j["c26"]:
            hop = "initial" if k == 1 else "hop"
            ctx.violation("unlisted-reached-transport:%s" % hop, "request %d (%s) reached the transport although no configured pattern matches it" % (k, run["recorded"][k - 1]["uri"]), case_of(v, run))
        if j["else_disallowed"] and v["restricted"]:
            ctx.violation("not-uri-disallowed", "a refused request did not report the URI-disallowed error (%s)" % run["result"], case_of(v, run))
    # SDK operations that can issue requests, run under a restrictive allow-list: nothing unlisted may reach the transport
    ops = [{"cfg": {"rmf": True, "ocsp": True, "csf": "all", "cso": True, "tsa": t}, "asset": a, "op": o}
           for t in (True, False) for a in ("remote_only", "remote_embedded", "embedded", "ocsp_signed") for o in ("read", "sign", "ingredient")]
    recs = run_ops(ctx, ops, "jpg" if ctx.quick else "jpg,png,webp", allowlist=True)
    for x in recs:
        for q in x.get("requests", []):
            ctx.violation("unlisted-reached-transport:op:%s:%s" % (x["op"], q["kind"]),
                          "with core.allowed_network_hosts = [only.example.org], %s sent %s %s to the transport" % (x["op"], q["kind"], q["uri"]), x)
    ctx.cov["traces_validated_against_impl"] += len(recs)
    ctx.cov["allowlist_operation_runs"] = len(recs)
