"""Shared pipeline for C07 / C08 / C09 / C12: MC of Container, operation sequences on real assets, trace validation."""
import json, itertools
from lib.vcheck import *

OPS = ["WA", "WB", "WC", "WD", "RM"]
QUICK_FORMATS = "jpeg,png,gif,webp,wav,avi,tiff,svg,mp3,jxl,mp4"
BOUNDARY = [70, 71, 255, 256, 1000, 4095, 63998, 63999, 64000, 64001, 64002, 65535, 65536, 127999, 128000, 128001, 200000]


def vectors(ctx):
    seqs = [list(s) for n in (1, 2, 3) for s in itertools.product(OPS, repeat=n)]
    # the bare sequence must start with a write to be interesting; keep all for the manifest layout
    vecs = []
    for layout in ("bare", "manifest", "foreign", "foreign-manifest"):
        for s in seqs:
            if layout in ("bare", "foreign") and s[0] == "RM" and len(s) > 1:
                continue
            if layout.startswith("foreign") and len(s) == 3 and s[1] == s[2]:
                continue
            vecs.append({"layout": layout, "ops": s})
    ctx.rng.shuffle(vecs)
    if ctx.quick:
        # every sequence of length <= 2 and a sample of length 3
        short = [v for v in vecs if len(v["ops"]) <= 2]
        long3 = [v for v in vecs if len(v["ops"]) == 3][:40]
        vecs = short + long3
    for i, v in enumerate(vecs):
        v["base_len"] = BOUNDARY[i % len(BOUNDARY)] if (i % 3) else ctx.rng.randrange(70, 5000)
    return vecs


_cache = {}


def pipeline(ctx):
    for p in (1, 2, 3):
        r = tlc_expect_ok(tlc("MC_Container", "MC_Container_p%d.cfg" % p, name="mc_container_%d" % p, workers=2, timeout=300), "MC Container place=%d" % p)
        ctx.add_tlc(r)
        cov = r.coverage()
        for a in ("Write", "Remove"):
            if cov.get(a, (0, 0))[1] == 0:
                raise ToolError("vacuity: %s never taken" % a)
    if not ctx.quick:
        # the same invariants over every layout of up to 5 segments with at most one manifest container (2957 layouts)
        for p in (1, 2, 3):
            r = tlc_expect_ok(tlc("MC_Container", "MC_Container_all_p%d.cfg" % p, name="mc_container_all_%d" % p, workers=8, timeout=900, coverage=False), "MC Container all layouts place=%d" % p)
            ctx.add_tlc(r)
    vecs = vectors(ctx)
    # one harness process per format (the formats are independent), run in parallel
    fmts = QUICK_FORMATS.split(",") if ctx.quick else ["jpeg", "png", "gif", "webp", "wav", "avi", "tiff", "svg", "mp3", "flac", "jxl", "mp4", "avif", "heic"]
    stdin = "\n".join(json.dumps(v) for v in vecs)
    import concurrent.futures as cf
    def one(f):
        return vh(["c07-run", "--seed", ctx.seed, "--formats", f], stdin=stdin, timeout=20000).stdout
    with cf.ThreadPoolExecutor(max_workers=8) as ex:
        outs = list(ex.map(one, fmts))
    recs = [json.loads(l) for o in outs for l in o.splitlines() if l.strip()]
    events, owner = [], []
    setup_errors = []
    for ri, x in enumerate(recs):
        if "setup_error" in x:
            setup_errors.append(x)
            continue
        markers = x["format"] not in ("svg",)            # base64 text: markers are not visible in the file
        events.append({"e": "reset", "layout": x["layout"]}); owner.append((ri, -1))
        for si, s in enumerate(x["steps"]):
            if "panic" in s:
                events.append({"e": "write", "s": "?", "size": 0, "ok": False, "read": "panic", "present": [], "markers": False, "cai_n": 0, "cai_ok": True, "outside": 0, "media": "unknown", "foreign": "na"}); owner.append((ri, si))
                continue
            yn = lambda v: "unknown" if v is None else ("yes" if v else "no")
            fg = "na" if "foreign" not in s or x.get("foreign_at_start") != 1 else ("yes" if s["foreign"] == 1 else "no")
            if s["op"] == "write":
                cai = s.get("cai") or {"n": 0, "in_file": True, "contains_store": True, "disjoint": True}
                events.append({"e": "write", "s": s["s"], "size": s["size"], "ok": s["ok"], "read": s.get("read", "err"), "present": s.get("present", []), "markers": markers,
                               "cai_n": cai["n"], "cai_ok": bool(cai["in_file"] and cai["contains_store"] and cai["disjoint"]),
                               "outside": s.get("samesize_outside", 1 if "samesize_len_changed" in s else 0), "media": yn(s.get("media_same")), "foreign": fg})
            else:
                events.append({"e": "remove", "ok": s["ok"], "read": "none" if str(s.get("read", "")).startswith("none") else "some", "present": s.get("present", []), "markers": markers,
                               "remove_equal": "unknown" if not s.get("removed_orig_ok", False) else yn(s.get("remove_equal")),
                               "usable": bool(s.get("accepts", True) and s.get("rewritable", True)), "media": yn(s.get("media_same")), "foreign": fg})
            owner.append((ri, si))
            for fwr in s.get("fwrite", []):
                events.append({"e": "fwrite", "delta": fwr["delta"], "ok": fwr["ok"], "read": "equal" if fwr["read"] == "equal" else fwr["read"].split(":")[0]}); owner.append((ri, si))
    accepted, matched, res = validate_trace(ctx, "Trace_Container", "Trace_Container.cfg", events, timeout=2400, heap="8g")
    if matched != len(events):
        sys.stderr.write(res.out[-3000:])
        raise ToolError("trace not consumed: %d of %d" % (matched, len(events)))
    bad = res.printed("VERDICT")[-1]["bad"]
    findings = []      # (property, class, record, step)
    for idx, classes in bad:
        ri, si = owner[idx - 1]
        for c in classes:
            prop, cls = c.split(":", 1)
            findings.append((prop, cls, recs[ri], si))
    ctx.cov["traces_validated_against_impl"] += len(recs) - len(setup_errors)
    ctx.cov["evaluations"] = sum(len(x.get("steps", [])) for x in recs)
    ctx.cov["distinct_nontrivial"] = len({(x["format"], x["layout"], tuple(x["ops"])) for x in recs if "steps" in x and len(x["ops"]) > 1})
    ctx.cov["rule"] = ("operation sequences of length <= 3 over {write A, write B (same size), write C (bigger), write D (smaller), remove} x layouts {bare, existing manifest, each also with a structure of another application (APP11 JUMBF, private PNG chunk, GIF application extension, RIFF chunk, BMFF uuid box, JXL box, SVG comment) next to the manifest} x formats "
                       "(quick: all sequences of length <= 2 + sample; 10 formats); store lengths cycle through segment/chunk boundaries (64000-byte JPEG parts, odd RIFF sizes, ...) and seeded values; "
                       "non-trivial = more than one operation")
    good = [x for x in recs if "steps" in x]
    if good:
        ctx.sample({"format": good[0]["format"], "layout": good[0]["layout"], "ops": good[0]["ops"], "base_len": good[0]["base_len"], "steps": [{k: s.get(k) for k in ("op", "s", "ok", "read", "present", "cai", "media_same")} for s in good[0]["steps"]]})
    return recs, findings, setup_errors


def report(ctx, prop, findings, setup_errors, known_stale=()):
    for x in setup_errors:
        ctx.violation("setup:%s" % x["format"], "could not prepare the %s asset: %s" % (x["format"], x["setup_error"]), x)
    for p, cls, rec, si in findings:
        if p != prop:
            continue
        step = rec["steps"][si] if si >= 0 else {}
        ctx.violation("%s:%s" % (cls, rec["format"]), "%s on %s (%s layout, ops %s, store length base %d) at step %d" % (cls, rec["format"], rec["layout"], rec["ops"], rec["base_len"], si + 1),
                      {"format": rec["format"], "layout": rec["layout"], "ops": rec["ops"], "base_len": rec["base_len"], "step": {k: v for k, v in step.items() if k not in ("boxmap", "locations")}})
