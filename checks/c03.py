"""C03 -- signing round trip: signed output validates and reports what was signed (spec: SignFlow)."""
import json, itertools
from lib.vcheck import *

FORMATS = ["jpeg", "png", "gif", "webp", "tiff", "svg", "mp4", "wav", "jxl", "mp3", "flac", "avif", "avi"]
ALGS = ["es256", "es384", "es512", "ps256", "ps384", "ps512", "ed25519"]


def run(ctx):
    ctx.level = "model_checking"
    ctx.assumptions += ["the pipeline model takes the contracts of C08 / C13 / C14 as parameters; TLC shows the round trip holds with all of them and fails without any one",
                        "configuration vectors (format x alg x hash alg x compressed x claim version x mode x definition shape) are enumerated by the driver and sampled with VERIF_SEED in the quick tier",
                        "a version-2 claim carries no format field, so the reported format is compared only for version-1 claims"]
    r = tlc_expect_ok(tlc("SignFlow", "MC_SignFlow.cfg", workers=2, timeout=300), "MC SignFlow")
    ctx.add_tlc(r)
    for g in ("G_PadExact", "G_Locality", "G_RangeHash"):
        w = tlc("SignFlow", "MC_SignFlow_no_%s.cfg" % g, name="c03no" + g, workers=2, timeout=300, coverage=False)
        if not w.violated:
            raise ToolError("vacuity: dropping contract %s does not break the round trip in the model" % g)
    space = [dict(format=f, alg=a, hash_alg=h, compressed=c, claim_version=cv, mode=m, assertions=n, payload=p, ingredient=i, kind=kind, repeat=repeat, icon=icon, extra=extra)
             for f in FORMATS for a in ALGS for h in ("sha256", "sha384", "sha512") for c in (False, True) for cv in (1, 2)
             for m in ("embed", "sidecar", "remote", "embed+remote") for n in (0, 1, 3) for p in ("tiny", "b23", "b255", "b65535") for i in ("none", "unsigned", "signed")
             for kind, repeat in (("cbor", 0), ("json", 0), ("cbor", 2), ("json", 1), ("json", 2)) for icon in (False, True)
             for extra in ("none", "none", "thumb", "user_thumb", "ing_thumb", "ing_data", "ing_other_alg")]
    ctx.rng.shuffle(space)
    n = 260 if ctx.quick else 3000
    # make sure every value of every dimension occurs: greedy pick
    vecs, seen = [], set()
    for v in space:
        new = {(k, str(val)) for k, val in v.items()} - seen
        if new or len(vecs) < n:
            vecs.append(v); seen |= {(k, str(val)) for k, val in v.items()}
        if len(vecs) >= n:
            break
    p = vh(["c03-replay", "--seed", ctx.seed], stdin="\n".join(json.dumps(v) for v in vecs), timeout=20000)
    recs = [json.loads(l) for l in p.stdout.splitlines() if l.strip()]
    events, owner = [], []
    for ri, x in enumerate(recs):
        v, o = x["vector"], x["obs"]
        case = {"vector": v, "obs": o}
        if o["sign"] == "Panic":
            ctx.violation("panic:%s" % v["format"], "signing panicked: %s" % o.get("msg"), case)
        elif o["sign"] != "Ok":
            ctx.violation("sign-failed:%s:%s" % (o["sign"], v["format"]), "signing a well-formed definition failed: %s" % o.get("msg"), case)
        else:
            if o["state"] not in ("Valid", "Trusted"):
                ctx.violation("not-valid:%s:%s" % (v["format"], v["mode"]), "signed output reads back %s %s" % (o["state"], o["failures"]), case)
            for pr in o["problems"]:
                ctx.violation("report:%s" % pr.split(" ")[0], "reported manifest differs from what was supplied: %s" % pr, case)
        # trace of serialisations: size stability is required where the manifest is patched in place
        if not v["compressed"] and v["mode"] in ("embed", "embed+remote"):
            events.append({"e": "begin"}); owner.append(ri)
            for j in x["jumbf"]:
                events.append({"e": "jumbf", "len": j["len"], "signed": j["signed"]}); owner.append(ri)
            events.append({"e": "end", "ok": o["sign"] == "Ok"}); owner.append(ri)
    accepted, matched, res = validate_trace(ctx, "Trace_SignFlow", "Trace_SignFlow.cfg", events, timeout=1200)
    if matched != len(events):
        sys.stderr.write(res.out[-3000:])
        raise ToolError("trace not consumed: %d of %d" % (matched, len(events)))
    drift = 0
    for idx, what in res.printed("VERDICT")[-1]["bad"]:
        x = recs[owner[idx - 1]]
        if what == "sizes-differ":
            ctx.violation("sizes-differ:%s" % x["vector"]["format"], "the serialisations of one signing differ in size: %s" % [j["len"] for j in x["jumbf"]], {"vector": x["vector"], "jumbf": x["jumbf"]})
        else:
            drift += 1
    if drift:
        ctx.drift_note("SignFlow", "%d signings did not show the expected serialisation steps" % drift)
    ctx.cov["traces_validated_against_impl"] += len(recs)
    ctx.cov["evaluations"] = len(recs)
    ctx.cov["distinct_nontrivial"] = len({json.dumps(x["vector"], sort_keys=True) for x in recs if x["vector"]["assertions"] > 0 or x["vector"]["ingredient"] != "none"})
    ctx.cov["rule"] = "seeded sample (%d of %d) of the configuration product covering every value of every dimension; random labels/payloads with sizes straddling CBOR header boundaries; non-trivial = has custom assertions or an ingredient" % (len(recs), len(space))
    ctx.sample(recs[0]); ctx.sample({"vector": recs[-1]["vector"], "obs": recs[-1]["obs"]})
