"""C16 -- Merkle proofs accept exactly the committed leaves (spec: Merkle)."""
import json
from lib.vcheck import *


def depth(n):
    d = 1
    while n > 1:
        n = (n + 1) // 2
        d += 1
    return d


def run(ctx):
    ctx.level = "model_checking"
    ctx.assumptions += ["hashing is an injective constructor in the spec; real SHA-2 collisions are not considered",
                        "the stored row is layers[min(max_proofs, layers-1)] as the SDK's BMFF writer stores it"]
    # 1. MC: completeness, soundness (leaf, index), proof tampering, layout agreement
    cfg = "MC_Merkle.cfg" if ctx.quick else "MC_Merkle_thorough.cfg"
    r = tlc_expect_ok(tlc("MC_Merkle", cfg, workers=8, timeout=1500, coverage=False), "MC Merkle")
    ctx.add_tlc(r)
    # 2. O: the real tree / verifier, judged by the spec
    top = 64 if ctx.quick else 300
    batches = []
    for n in range(1, top + 1):
        d = depth(n)
        mps = range(0, d + 1) if (n <= 20 or not ctx.quick) else sorted({0, 1, d // 2, d - 1, d})
        for mp in mps:
            batches.append({"n": n, "maxp": mp, "all": n <= (24 if ctx.quick else 64)})
    extra = [ctx.rng.randrange(65, 301) for _ in range(20)] if ctx.quick else [ctx.rng.randrange(301, 1200) for _ in range(10)]
    for n in extra:
        batches.append({"n": n, "maxp": ctx.rng.randrange(0, depth(n) + 1), "all": False})
    for b, alg in zip(batches[::7], ["sha384", "sha512"] * len(batches)):
        b["alg"] = alg
    p = vh(["c16-record", "--seed", ctx.seed], stdin="\n".join(json.dumps(b) for b in batches))
    recs = [json.loads(l) for l in p.stdout.splitlines() if l.strip()]
    if len(recs) != len(batches):
        raise ToolError("c16-record returned %d of %d batches" % (len(recs), len(batches)))
    slim = [{"n": x["n"], "maxp": x["maxp"], "checks": x["checks"]} for x in recs]
    verdicts = judge_with_tlc(ctx, "Oracle_Merkle", "Oracle_Merkle.cfg", slim, chunk=400, timeout=1500, heap="8g")
    nchecks = 0
    for x, v in zip(recs, verdicts):
        nchecks += len(x["checks"])
        if x.get("panic"):
            ctx.violation("panic", "Merkle proof generation/verification panicked", {"n": x["n"], "maxp": x["maxp"], "panic": x["panic"]})
        if v["rowlen"] != x["rowlen"] or v["layers"] != x["layers"]:
            ctx.violation("layout", "tree layout differs from the specification (layers %s vs %s, stored row %s vs %s)" %
                          (x["layers"], v["layers"], x["rowlen"], v["rowlen"]), {"n": x["n"], "maxp": x["maxp"]})
        for k in v["bad"]:
            c = x["checks"][k - 1]
            if c[3]:
                key, what = "accepted:%s" % c[1], "verifier accepted a %s attempt the specification rejects" % c[1]
            else:
                key, what = "rejected:%s" % c[1], "verifier rejected a %s attempt the specification accepts" % c[1]
            ctx.violation(key, what, {"n": x["n"], "maxp": x["maxp"], "alg": x["alg"], "check": c})
    ctx.cov["traces_validated_against_impl"] += len(recs)
    ctx.cov["evaluations"] = nchecks
    ctx.cov["distinct_nontrivial"] = sum(1 for x in recs if x["n"] > 1)
    ctx.cov["rule"] = ("every leaf count 1..%d x max-proof depths (all for small n), every index for small n and boundary+seeded indices otherwise; "
                       "per index: right leaf, proof=None, wrong leaves, wrong indices, each proof element replaced/dropped; non-trivial = n > 1" % top)
    ctx.sample({"batch": {"n": recs[10]["n"], "maxp": recs[10]["maxp"]}, "checks": recs[10]["checks"][:8], "spec": verdicts[10]})
