"""C20 -- redaction removes exactly the requested assertions and stays verifiable (spec: Redaction; replay of TLC vectors)."""
import json
from lib.vcheck import *


def run(ctx):
    ctx.level = "model_checking"
    ctx.assumptions += ["edit chains are built with BuilderIntent::Edit (the previous asset is the source and becomes the parentOf ingredient); every manifest carries two custom assertions whose payload is a unique marker string, so presence of assertion data is decided by searching the output file",
                        "formats JPEG / PNG / MP4 chosen from the vector id; manifests are not compressed",
                        "post-hoc removal = overwriting the payload of a remaining ingredient assertion in place (same length), without a redaction entry"]
    r = tlc_expect_ok(tlc("MC_Redaction", "MC_Redaction.cfg", name="mc_redaction", workers=8, timeout=1500), "MC Redaction")
    ctx.add_tlc(r)
    w = tlc("MC_Redaction", "MC_Redaction_W.cfg", name="mc_redaction_w", workers=4, timeout=600, coverage=False)
    if not (w.violated and "W_DeepRedaction" in w.out):
        raise ToolError("vacuity witness not reachable")
    vecs = tlc_expect_ok(tlc("MC_Redaction", "MC_Redaction_emit.cfg", name="redaction_emit", workers=4, timeout=1500, coverage=False), "emit").printed("VEC")
    valid = [v for v in vecs if v["verdict"] == "valid"]
    refused = [v for v in vecs if v["verdict"] == "refused"]
    rogue = [v for v in vecs if v["verdict"] == "invalid"]      # forbidden redactions signed by a generator that does not refuse (hook H6)
    if len(rogue) < 100:
        raise ToolError("vector export too small: %d rogue histories" % len(rogue))
    ctx.rng.shuffle(rogue)
    if len(valid) < 30 or len(refused) < 1000:
        raise ToolError("vector export too small: %d valid, %d refused" % (len(valid), len(refused)))
    ctx.rng.shuffle(refused)
    sample = valid + (refused[:160] if ctx.quick else refused) + (rogue[:120] if ctx.quick else rogue)
    if not ctx.quick:
        sample = sample + valid + valid     # valid chains again with other ids (other formats)
    for i, v in enumerate(sample):
        v = sample[i] = dict(v, id=i)
    p = vh(["c20-replay"], stdin="\n".join(json.dumps(x) for x in sample), timeout=20000)
    outs = [json.loads(l) for l in p.stdout.splitlines() if l.strip()]
    if len(outs) != len(sample):
        raise ToolError("replay returned %d results for %d vectors" % (len(outs), len(sample)))
    forced_signed = 0
    for v, o in zip(sample, outs):
        lv = o["levels"]
        case = {"requests": v["requests"], "fmt": o["fmt"], "levels": [{"j": l["j"], "sign": l["sign"], "state": (l.get("read") or {}).get("state"), "failures": (l.get("read") or {}).get("failures"), "requested": l.get("requested")} for l in lv], "present": o["present"]}
        if o.get("panic"):
            ctx.violation("panic", "panic while building a redaction chain: %s" % o["panic"], case)
            continue
        last = lv[-1]
        signed = last["sign"] == "ok"
        state = (last.get("read") or {}).get("state") if signed else None
        if v["verdict"] == "valid":
            if len(lv) != len(v["requests"]) or not signed or state not in ("Valid", "Trusted"):
                ctx.violation("allowed-redaction-not-valid:%s" % ("refused" if not signed else state), "a chain with only allowed redactions is not Valid: %s" % (last["sign"] if not signed else (last.get("read") or {}).get("failures")), case)
                continue
            exp = sorted((t["m"], t["kind"]) for t in v["present"] if t["kind"] in ("c1", "c2"))
            obs = sorted((t["m"], t["kind"]) for t in o["present"])
            gone_wrong = [t for t in exp if t not in obs]
            still = [t for t in obs if t not in exp]
            if still:
                ctx.violation("redacted-data-still-present", "assertion data of redacted assertions %s is still in the output file" % still, case)
            if gone_wrong:
                ctx.violation("unrequested-data-removed", "assertion data %s disappeared without being requested" % gone_wrong, case)
            for l in lv:
                rd = l["read"]
                listed = rd["manifests"].get(rd["active"], {}).get("redactions") or []
                if sorted(listed) != sorted(l.get("requested") or []):
                    ctx.violation("redaction-list-differs", "manifest %d lists redactions %s but %s were requested" % (l["j"], listed, l.get("requested")), case)
            # labels: redacted assertions no longer appear in the ingredient manifests of the final report
            final = lv[-1]["read"]
            titles = {m["title"]: m for m in final["manifests"].values()}
            for j, req in enumerate(v["requests"], start=1):
                for t in req:
                    lab = "org.vh.cm%d%s" % (t["m"], "" if t["kind"] == "c1" else "__1")
                    m = titles.get("L%d" % t["m"])
                    if m is not None and lab in (m.get("assertions") or []):
                        ctx.violation("redacted-assertion-still-listed", "assertion %s of manifest %d is redacted but still reported" % (lab, t["m"]), case)
            if o["posthoc"]:
                ps = o["posthoc"]["read"].get("state")
                if ps in ("Valid", "Trusted"):
                    ctx.violation("removal-without-redaction-valid", "overwriting the data of ingredient assertion %s without a redaction entry is reported %s" % (o["posthoc"]["target"], ps), case)
        elif v["verdict"] == "invalid":
            if len(lv) == len(v["requests"]) and signed:
                forced_signed += 1
                if state in ("Valid", "Trusted"):
                    kinds = sorted({t["kind"] for t in v["requests"][-1] if t["kind"] not in ("c1", "c2")})
                    ctx.violation("forbidden-redaction-validates:%s:%s" % (",".join(kinds), o["fmt"]), "a manifest that redacts %s of an ingredient manifest (signed by a generator that does not refuse) is reported %s" % (last.get("requested"), state), case)
        else:
            if len(lv) == len(v["requests"]) and signed and state in ("Valid", "Trusted"):
                bad = [t for j, req in enumerate(v["requests"], start=1) for t in req if t["kind"] not in ("c1", "c2") or t["m"] == j]
                ctx.violation("forbidden-redaction-valid:%s" % ",".join(sorted({("own" if any(t["m"] == j for j, rq in enumerate(v["requests"], start=1) if t in rq) else "ingredient") + ":" + t["kind"] for t in bad})), "a chain redacting %s is reported %s" % (bad, state), case)
    if forced_signed < 20:
        raise ToolError("vacuity: only %d forced forbidden redactions could be signed" % forced_signed)
    ctx.cov["forced_forbidden_signed"] = forced_signed
    ctx.cov["traces_validated_against_impl"] += len(sample)
    ctx.cov["evaluations"] = sum(len(o["levels"]) for o in outs)
    ctx.cov["distinct_nontrivial"] = len(valid)
    ctx.cov["refused_vectors"] = len(sample) - len(valid)
    ctx.cov["rule"] = "edit chains of depth <= 3 x every subset of targets {c1,c2,actions,hash} x {ingredient manifests, own manifest} exported by TLC (%d terminal histories: %d valid, %d with a forbidden target); quick replays all valid and 160 forbidden ones; non-trivial = valid chains" % (len(vecs), len(valid), len(refused))
    ctx.sample({"requests": sample[5]["requests"], "verdict": sample[5]["verdict"], "levels": [{"j": l["j"], "sign": l["sign"]} for l in outs[5]["levels"]], "present": outs[5]["present"]})
