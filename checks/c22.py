"""C22 -- saving and restoring a working store preserves the manifest (spec: Workflow; replay of TLC histories in one process)."""
from lib.vcheck import *
from checks.wfcommon import report


def run(ctx):
    report(ctx, "C22", "with_archive")
