"""C22 -- saving and restoring a working store preserves the manifest (spec: Workflow, Redaction; replay of TLC histories)."""
import json
from lib.vcheck import *
from checks.wfcommon import report


def run(ctx):
    report(ctx, "C22", "with_archive")
    # builders that carry redactions: the valid redaction chains of spec Redaction, each edit saved and restored through an
    # archive before signing, must behave like the same chain without the archive step
    vecs = tlc_expect_ok(tlc("MC_Redaction", "MC_Redaction_emit.cfg", name="redaction_emit_c22", workers=4, timeout=1500, coverage=False), "emit").printed("VEC")
    valid = [v for v in vecs if v["verdict"] == "valid"]
    if len(valid) < 30:
        raise ToolError("too few valid redaction chains: %d" % len(valid))
    runs = []
    for i, v in enumerate(valid):
        runs.append(dict(v, id=i, arch=True))
        runs.append(dict(v, id=i, arch=False))
    p = vh(["c20-replay"], stdin="\n".join(json.dumps(x) for x in runs), timeout=6000)
    outs = [json.loads(l) for l in p.stdout.splitlines() if l.strip()]
    if len(outs) != len(runs):
        raise ToolError("replay returned %d results for %d vectors" % (len(outs), len(runs)))
    for k in range(0, len(runs), 2):
        v, a, b = runs[k], outs[k], outs[k + 1]
        has_red = any(len(r) > 0 for r in v["requests"])
        case = {"requests": v["requests"], "fmt": a["fmt"], "with_archive": [{"j": l["j"], "sign": l["sign"][:160], "state": (l.get("read") or {}).get("state")} for l in a["levels"]], "present_with_archive": a["present"], "present_without": b["present"]}
        la, lb = a["levels"][-1], b["levels"][-1]
        if lb["sign"] != "ok":
            continue        # C20's business
        if la["sign"] != "ok":
            kind = la["sign"].split(":")[1].split("(")[0] if ":" in la["sign"] else la["sign"]
            ctx.violation("operation-failed:sign:%s%s" % (kind, ":redactions" if has_red else ""), "an edit with redactions %s saved with to_archive and restored with with_archive fails: %s" % (v["requests"], la["sign"][:160]), case)
            continue
        if (la.get("read") or {}).get("state") != (lb.get("read") or {}).get("state") or a["present"] != b["present"]:
            ctx.violation("restore-differs:redactions", "an edit with redactions gives a different result after an archive round trip", case)
    ctx.cov["traces_validated_against_impl"] += len(runs)
    ctx.cov["redaction_chains_through_archive"] = len(valid)
