"""C10 -- untrusted input never crashes, hangs or exhausts memory (spec: ResourceBounds; budgeted mutation driver)."""
import json, subprocess, time
from lib.vcheck import *

MEM_KB = 6_000_000       # address-space limit of each child (the largest inputs are < 1 MB, limit probes inflate to <= 32 MB)


def child(args, budget):
    cmd = "ulimit -v %d; exec %s %s" % (MEM_KB, VH, " ".join(str(a) for a in args))
    t0 = time.time()
    try:
        p = subprocess.run(["bash", "-c", cmd], capture_output=True, text=True, timeout=budget)
        rc, out, err, hung = p.returncode, p.stdout, p.stderr, False
    except subprocess.TimeoutExpired as e:
        rc, out, err, hung = -1, (e.stdout or b"").decode(errors="replace") if isinstance(e.stdout, bytes) else (e.stdout or ""), "", True
    recs = []
    for l in out.splitlines():
        try:
            recs.append(json.loads(l))
        except Exception:
            pass
    return rc, recs, err, hung, time.time() - t0


def run(ctx):
    ctx.level = "exploration"
    ctx.assumptions += ["exploration: a TLA+ model cannot decide robustness against arbitrary bytes; the spec states the resource discipline (depth / inflate / reserve / count budgets) and shows that an uncapped up-front reservation breaks it; the implementation is probed at each limit and driven with seeded mutants",
                        "every case runs in a child process under an address-space limit of %d MB and a wall-clock budget; a case is named before it starts, so a crash, abort (failed allocation) or hang is attributed" % (MEM_KB // 1000),
                        "mutants: bit flips, truncation, 32/64-bit length fields set to extreme values, duplicated / deleted chunks, random runs, JUMBF size fields, CBOR-significant bytes; 16 seed files (15 formats + a .c2pa sidecar), signed by the harness where the format can be written; 75% under their own format hint, 25% under a random other hint; operations read / add ingredient / restore archive / external manifest",
                        "debug build with overflow checks (panics on arithmetic overflow are data); not coverage-guided -- cargo-fuzz is available in the sandbox but is a different technique from the one this task studies"]
    r = tlc_expect_ok(tlc("ResourceBounds", "MC_ResourceBounds.cfg", name="mc_resbounds", workers=4, timeout=600), "MC ResourceBounds")
    ctx.add_tlc(r)
    if not ctx.quick:
        # unbounded: TLAPS proves the four bounds for every input length and every limit (reserve cap in place)
        nob = tlapm_prove("ResourceBounds_proofs", ["ResourceBounds"], threads=12)
        ctx.assumptions.append("thorough tier: tlapm discharged %d proof obligations of ResourceBounds_proofs (DepthBounded, CountBounded, WorkBounded, AllocBounded for all natural InputLen and limits, Capped = TRUE)" % nob)
    for cfg, inv in (("MC_ResourceBounds_uncapped.cfg", "AllocBounded"), ("MC_ResourceBounds_W.cfg", "W_Refused")):
        w = tlc("ResourceBounds", cfg, name="mc_resbounds_" + inv, workers=2, timeout=300, coverage=False)
        if not (w.violated and inv in w.out):
            raise ToolError("expected %s to be violated under %s" % (inv, cfg))
    # limit probes
    rc, recs, err, hung, wall = child(["c10-child", "--limits"], 900)
    begun, done = None, {}
    for x in recs:
        if x["e"] == "begin":
            begun = x["case"]
        elif x["e"] == "done":
            done[x["case"]] = x; begun = None
    if hung or not recs or recs[-1].get("e") != "end":
        ctx.violation("limit-probe:%s:%s" % ("hang" if hung else "crash", str(begun).split(":")[0]), "the process died or hung (exit %s) in limit probe %s: %s" % (rc, begun, err[-300:]), {"case": begun, "exit": rc})
    for name, x in done.items():
        for k in ("res", "res2"):
            res = x.get(k)
            if not res:
                continue
            if res.get("r") == "panic":
                ctx.violation("limit-probe:panic:%s" % name.split(":")[0], "limit probe %s panicked: %s" % (name, res.get("d")), x)
            if res.get("ms", 0) > 20000:
                ctx.violation("limit-probe:slow:%s" % name.split(":")[0], "limit probe %s took %d ms" % (name, res["ms"]), x)
            if res.get("r") == "ok" and res.get("d") in ("Valid", "Trusted"):
                ctx.violation("limit-probe:valid:%s" % name.split(":")[0], "crafted input %s is reported %s" % (name, res.get("d")), x)
    # mutants
    total = 6000 if ctx.quick else 240000
    batch = 1000 if ctx.quick else 4000
    stats = {"cases": 0, "ok": 0, "err": 0, "panic": 0, "max_ms": 0}
    jobs = [(a, min(a + batch, total)) for a in range(0, total, batch)]
    import concurrent.futures as cf
    def one(job):
        return job, child(["c10-child", "--seed", ctx.seed, "--from", job[0], "--to", job[1]], 1800)
    with cf.ThreadPoolExecutor(max_workers=8) as ex:
        results = list(ex.map(one, jobs))
    for job, (rc, recs, err, hung, wall) in results:
        begun = None
        for x in recs:
            if x["e"] == "begin":
                begun = x["case"]
            elif x["e"] == "done":
                begun = None
                stats["cases"] += 1
                res = x["res"]
                stats[res["r"]] = stats.get(res["r"], 0) + 1
                stats["max_ms"] = max(stats["max_ms"], res.get("ms", 0))
                c = x["case"]
                if res["r"] == "panic":
                    site = res["d"].split(",")[0][:80]
                    ctx.violation("panic:%s:%s" % (c["seed_format"], c["op"]), "%s of a %s mutant (%s, hint %s) panicked: %s" % (c["op"], c["seed_format"], c["mutation"], c["hint"], res["d"][:200]), {"case": c, "seed": ctx.seed, "panic": res["d"], "site": site})
                elif res.get("ms", 0) > 10000:
                    ctx.violation("slow:%s:%s" % (c["seed_format"], c["op"]), "%s of a %s mutant (%s) took %d ms" % (c["op"], c["seed_format"], c["mutation"], res["ms"]), {"case": c, "seed": ctx.seed})
        if hung or not recs or recs[-1].get("e") != "end":
            fmt = (begun or {}).get("seed_format", "?") if isinstance(begun, dict) else "?"
            ctx.violation("%s:%s:%s" % ("hang" if hung else "crash", fmt, (begun or {}).get("op", "?") if isinstance(begun, dict) else "?"),
                          "the child %s (exit %s) while running case %s: %s" % ("exceeded its time budget" if hung else "died", rc, json.dumps(begun), err[-300:]), {"case": begun, "seed": ctx.seed, "batch": job, "exit": rc})
    if stats["cases"] < total * 0.9 and not ctx.violations:
        raise ToolError("only %d of %d cases ran" % (stats["cases"], total))
    ctx.cov["traces_validated_against_impl"] += stats["cases"] + len(done)
    ctx.cov["evaluations"] = stats["cases"]
    ctx.cov["distinct_nontrivial"] = stats["cases"]
    ctx.cov.update(stats)
    ctx.cov["limit_probes"] = {k: (v.get("res") or {}).get("d") for k, v in done.items()}
    ctx.cov["rule"] = "%d seeded mutants in child processes (batches of %d) + %d limit probes (nesting depth 31..10^6, brotli inflation 1 MB..4 GB, Content-Length up to 2^64-1); non-trivial = every case" % (total, batch, len(done))
    ctx.sample({"limit_probes": list(done.keys())[:6]})
