"""C12 -- hash-binding layout maps are ordered, disjoint and cover the file (spec: Container, Oracle_BoxMap)."""
import json
from lib.vcheck import *
from checks.containercommon import pipeline


def run(ctx):
    ctx.level = "model_checking"
    ctx.assumptions += ["box lists come from the handlers' get_box_map (hook) on assets with manifests of many sizes (and on signed fixtures with restart markers / trailing data)"]
    recs, findings, setup_errors = pipeline(ctx)
    maps = []
    for x in recs:
        for s in x.get("steps", []):
            bm = s.get("boxmap")
            if bm and "ranges" in bm:
                maps.append(({"format": x["format"], "layout": x["layout"], "ops": x["ops"], "store_len": s.get("size")}, {"len": bm["len"], "ranges": [[r[0], r[1], r[2]] for r in bm["ranges"]]}))
            elif bm and "err" in bm:
                ctx.violation("boxmap-error:%s" % x["format"], "get_box_map failed on an asset the handler wrote: %s" % bm["err"], {"format": x["format"], "ops": x["ops"]})
    p = vh(["c12-extra"], timeout=3000)
    for l in p.stdout.splitlines():
        if l.strip():
            r = json.loads(l)
            if "ranges" in r:
                maps.append(({"format": r["format"], "asset": r["asset"]}, {"len": r["len"], "ranges": r["ranges"]}))
    if len(maps) < 20:
        raise ToolError("only %d box maps collected" % len(maps))
    # names stay on the python side (reporting only); identical maps are judged once
    uniq = {}
    for meta, m in maps:
        uniq.setdefault(json.dumps([m["len"], [[r[0], r[1]] for r in m["ranges"]]]), (meta, m))
    maps = list(uniq.values())
    verdicts = judge_with_tlc(ctx, "Oracle_BoxMap", "Oracle_BoxMap.cfg", [{"len": m["len"], "ranges": [[r[0], r[1]] for r in m["ranges"]]} for _, m in maps], chunk=1000, timeout=600)
    for (meta, m), v in zip(maps, verdicts):
        fmt = meta["format"]
        if not v["ordered"]:
            ctx.violation("unordered:%s" % fmt, "box list is not ordered by offset", {"meta": meta, "ranges": m["ranges"][:40]})
        if not v["disjoint"]:
            ctx.violation("overlap:%s" % fmt, "box ranges overlap", {"meta": meta, "ranges": m["ranges"][:40]})
        if not v["infile"]:
            ctx.violation("outside-file:%s" % fmt, "a box range reaches past the end of the file", {"meta": meta, "len": m["len"], "ranges": m["ranges"][-5:]})
        if v["gap"] <= m["len"]:
            where = "trailing" if v["gap"] >= m["ranges"][-1][0] + m["ranges"][-1][1] else ("leading" if v["gap"] == 0 else "interior")
            ctx.violation("uncovered:%s:%s" % (fmt, where), "bytes from offset %d are covered by no box (file length %d)" % (v["gap"], m["len"]), {"meta": meta, "len": m["len"], "ranges": m["ranges"][-6:]})
    ctx.cov["traces_validated_against_impl"] = len(maps)
    ctx.cov["box_maps_judged"] = len(maps)
    ctx.sample({"meta": maps[0][0], "len": maps[0][1]["len"], "ranges": maps[0][1]["ranges"][:6]})
