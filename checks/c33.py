"""C33 -- CAWG identity assertions bind exactly the referenced assertions (spec: Identity; replay through IdentityAssertionSigner / CawgValidator)."""
import json
from lib.vcheck import *

REFS = {0: [], 1: ["org.vh.alpha"], 2: ["org.vh.alpha", "org.vh.beta"]}
SET = {"verify": {"remote_manifest_fetch": False}, "core": {"decode_identity_assertions": False}}


def run(ctx):
    ctx.level = "model_checking"
    ctx.assumptions += ["identity assertions are created by the SDK (IdentityAssertionSigner + IdentityAssertionBuilder + X509CredentialHolder with the fixture credentials, ed25519 and es256); binding breaks are produced by a wrapping credential holder (signs a payload with an extra role; flips a signature byte) and by overwriting a stored assertion payload in the signed file",
                        "reads use core.decode_identity_assertions = false followed by Reader::post_validate_async(CawgValidator) (with the default true, post-validating a VALID identity assertion fails with AssertionDecoding: the reader has already replaced it by its JSON summary)",
                        "not driven: trust settings for the CAWG credential (the fixture credential is reported cawg.x509.credential.untrusted in every case, which is not counted as a binding failure)"]
    r = tlc_expect_ok(tlc("MC_Identity", "MC_Identity.cfg", name="mc_identity", workers=2, timeout=600), "MC Identity")
    ctx.add_tlc(r)
    vecs = tlc_expect_ok(tlc("MC_Identity", "MC_Identity_emit.cfg", name="identity_emit", workers=2, timeout=600, coverage=False), "emit").printed("VEC")
    if len(vecs) != 33:
        raise ToolError("expected 33 vectors, got %d" % len(vecs))
    # (credential algorithm, asset format): the hard binding an identity assertion must reference is c2pa.hash.data for JPEG / PNG
    # and the versioned c2pa.hash.bmff.v3 for MP4
    combos = [("ed25519", "jpeg"), ("ed25519", "mp4")] if ctx.quick else [(a, f) for a in ("ed25519", "es256", "ps256") for f in ("jpeg", "png", "mp4")]
    runs, index = [], []
    for alg, fmt in combos:
        groups = {}
        for v in vecs:
            groups.setdefault((v["mode"], v["nrefs"]), []).append(v)
        for (mode, nrefs), vs in sorted(groups.items()):
            reads = []
            for v in vs:
                rd = {"name": len(index), "settings": SET}
                if v["changed"] == "referenced":
                    rd["overwrite"] = "VHC33-ALPHA-PAYLOAD"
                elif v["changed"] == "unreferenced":
                    rd["overwrite"] = "VHC33-GAMMA-PAYLOAD"
                if v["changed"] == "padding":
                    # every padding field at its first, middle and last byte: six reads for this vector
                    for which in ("pad1", "pad2"):
                        for pos in ("first", "middle", "last"):
                            reads.append(dict(rd, name=len(index), pad={"which": which, "pos": pos})); index.append((dict(v, pad="%s:%s" % (which, pos), fmt=fmt), alg))
                    continue
                reads.append(rd); index.append((dict(v, fmt=fmt), alg))
            runs.append({"id": len(runs), "mode": mode, "refs": REFS[nrefs], "cawg_alg": alg, "format": fmt, "reads": reads})
    p = vh(["c33-run"], stdin="\n".join(json.dumps(x) for x in runs), timeout=6000)
    outs = [json.loads(l) for l in p.stdout.splitlines() if l.strip()]
    if len(outs) != len(runs):
        raise ToolError("c33-run returned %d results for %d signings" % (len(outs), len(runs)))
    n = 0
    for x, o in zip(runs, outs):
        if o.get("panic"):
            ctx.violation("panic:sign", "panic while signing with an identity assertion: %s" % o["panic"], {"run": x})
            continue
        if o.get("sign") != "ok":
            ctx.violation("created-identity-not-signable:%s" % x["mode"], "signing with an SDK-created identity assertion failed: %s %s" % (o.get("sign"), o.get("detail")), {"run": {k: x[k] for k in ("mode", "refs", "cawg_alg")}, "result": o})
            continue
        for rd in o["reads"]:
            v, alg = index[rd["name"]]
            n += 1
            read = rd["read"]
            key = "%s:%s:refs%d%s" % (v["mode"], v["changed"] + (":" + v["pad"] if v.get("pad") else ""), v["nrefs"], "" if v["fmt"] == "jpeg" else ":" + v["fmt"])
            if v.get("pad") and not rd.get("pad"):
                continue        # this padding field does not exist in the assertion (nothing was changed)
            case = {"vector": v, "alg": alg, "read": read}
            if "panic" in read:
                ctx.violation("panic:read", "CAWG validation panicked: %s" % read["panic"], case)
                continue
            if "active" not in read:
                ctx.violation("read-failed:%s" % key, "reading / post-validating failed: %s" % (read.get("err") or read), case)
                continue
            codes = [(c[0], c[1]) for c in read["active"]]
            cawg_fail = sorted({c for k, c in codes if k == "failure" and c.startswith("cawg.") and c != "cawg.x509.credential.untrusted"})
            cawg_ok = any(c == "cawg.x509.signature.validated" for k, c in codes)
            state = read.get("state")
            if v["cawg"] == "validated":
                if cawg_fail or not cawg_ok:
                    ctx.violation("intact-identity-flagged:%s" % key, "an intact SDK-created identity assertion is reported %s (validated=%s)" % (cawg_fail, cawg_ok), case)
            else:
                if not cawg_fail:
                    kind = ("padding:" + v["pad"] if v.get("pad") else "referenced-assertion-changed") if v["mode"] == "ok" else v["mode"]
                    ctx.violation("binding-break-without-cawg-code:%s" % kind, "%s: no cawg failure code is reported (other failures: %s)" % (key, sorted({c for k, c in codes if k == "failure"})), case)
            if v["manifest"] == "not-invalid" and state == "Invalid":
                ctx.violation("cawg-failure-invalidates-manifest:%s" % key, "the C2PA manifest is reported Invalid although only the CAWG part is broken (failures %s)" % sorted({c for k, c in codes if k == "failure"}), case)
            if v["manifest"] == "invalid" and state in ("Valid", "Trusted"):
                ctx.violation("changed-assertion-valid:%s" % key, "a stored assertion was altered and the manifest is %s" % state, case)
    ctx.cov["traces_validated_against_impl"] += n
    ctx.cov["evaluations"] = n
    ctx.cov["distinct_nontrivial"] = sum(1 for v in vecs if v["cawg"] == "failure")
    ctx.cov["rule"] = "all 33 combinations of credential-holder behaviour x changed part (stored assertions, padding bytes) x number of referenced assertions, x %d (CAWG key type, asset format) pair(s); non-trivial = combinations with a broken binding" % len(combos)
    ctx.sample({"vector": vecs[0]})
