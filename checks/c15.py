"""C15 -- embeddable signing returns bytes of exactly the placeholder size (spec: Embeddable)."""
import json
from lib.vcheck import *


def run(ctx):
    ctx.level = "model_checking"
    ctx.assumptions += ["exclusion lists are drawn by shape (count 1..12 x start magnitude x length magnitude); offsets >= 2^32 cannot be realised on a real asset and are not replayed",
                        "formats: JPEG and PNG (GIF in thorough); the composed placeholder is spliced at the format's manifest position by the harness"]
    r = tlc_expect_ok(tlc("MC_Embeddable", "MC_Embeddable.cfg", workers=4, timeout=600), "MC Embeddable")
    ctx.add_tlc(r)
    cov = r.coverage()
    for a in ("Placeholder", "SetExclusions", "UpdateHash", "SignEmbeddable"):
        if cov.get(a, (0, 0))[1] == 0:
            raise ToolError("vacuity: action %s never taken" % a)
    e = tlc_expect_ok(tlc("MC_Embeddable", "MC_Embeddable_emit.cfg", name="c15emit", workers=2, timeout=600, coverage=False), "emit")
    vecs = e.printed("VEC")
    if len(vecs) != 192:
        raise ToolError("expected 192 vectors, got %d" % len(vecs))
    if ctx.quick:
        vecs = [v for v in vecs if v["n"] in (1, 2, 9, 10, 11, 12)]
    fmts = "jpg,png" if ctx.quick else "jpg,png,gif"
    algs = "es256,ps256,ed25519" if ctx.quick else "es256,es384,es512,ps256,ps384,ps512,ed25519"
    p = vh(["c15-replay", "--formats", fmts, "--algs", algs], stdin="\n".join(json.dumps(v) for v in vecs), timeout=3000)
    recs = [json.loads(l) for l in p.stdout.splitlines() if l.strip()]
    drift = 0
    for x in recs:
        o = x["obs"]
        case = {"format": x["format"], "alg": x["alg"], "vector": x["vector"], "obs": o}
        if o["sign"] == "Panic":
            ctx.violation("panic", "embeddable workflow panicked: %s" % o.get("msg"), case)
        elif o["sign"].startswith("SetupErr"):
            ctx.violation("setup:%s" % o["sign"], "placeholder workflow failed before signing: %s" % o.get("msg"), case)
        elif o["sign"] == "Ok":
            if o["signed_len"] != o["placeholder_len"]:
                ctx.violation("size:%s" % ("longer" if o["signed_len"] > o["placeholder_len"] else "shorter"),
                              "sign_embeddable returned %d bytes for a %d-byte placeholder" % (o["signed_len"], o["placeholder_len"]), case)
            elif o.get("read", {}).get("state") not in ("Valid", "Trusted"):
                ctx.violation("patched-not-valid", "patched asset does not read back Valid: %s" % o.get("read"), case)
            if x["vector"]["kind"] != "ok":
                drift += 1
        else:
            if x["vector"]["kind"] == "ok":
                drift += 1
    if drift:
        ctx.drift_note("Embeddable", "%d vectors: fit/outgrow differs from the mirror's size arithmetic" % drift)
    ctx.cov["traces_validated_against_impl"] += len(recs)
    ctx.cov["evaluations"] = len(recs)
    ctx.cov["distinct_nontrivial"] = sum(1 for x in recs if x["vector"]["n"] > 1)
    ctx.cov["rule"] = "exclusion-list shapes exported by TLC (count x start magnitude x length magnitude) x formats %s x rotating algorithms; non-trivial = more than the manifest's own exclusion" % fmts
    ctx.sample(recs[0]); ctx.sample(recs[-1])
