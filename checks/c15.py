"""C15 -- embeddable signing returns bytes of exactly the placeholder size (spec: Embeddable)."""
import json
from lib.vcheck import *


def run(ctx):
    ctx.level = "model_checking"
    ctx.assumptions += ["exclusion lists are drawn by shape (count 1..12 x start magnitude x length magnitude); offsets >= 2^32 cannot be realised on a real asset and are not replayed",
                        "formats: JPEG and PNG (GIF in thorough); the composed placeholder is spliced at the format's manifest position by the harness"]
    r = tlc_expect_ok(tlc("MC_Embeddable", "MC_Embeddable.cfg", workers=4, timeout=600), "MC Embeddable")
    ctx.add_tlc(r)
    if r.distinct < 1000:
        raise ToolError("vacuity: Embeddable explored only %d states" % r.distinct)
    e = tlc_expect_ok(tlc("MC_Embeddable", "MC_Embeddable_emit.cfg", name="c15emit", workers=2, timeout=600, coverage=False), "emit")
    vecs = e.printed("VEC")
    if len(vecs) != 1728:
        raise ToolError("expected 1728 vectors, got %d" % len(vecs))
    if ctx.quick:
        one = [v for v in vecs if len(v["rounds"]) == 1 and v["rounds"][0]["n"] in (1, 2, 9, 10, 11, 12)]
        two = [v for v in vecs if len(v["rounds"]) == 2]
        ctx.rng.shuffle(two)
        vecs = one + two[:120]
    fmts = "jpg,png" if ctx.quick else "jpg,png,gif"
    algs = "es256,ps256,ed25519" if ctx.quick else "es256,es384,es512,ps256,ps384,ps512,ed25519"
    p = vh(["c15-replay", "--formats", fmts, "--algs", algs], stdin="\n".join(json.dumps(v) for v in vecs), timeout=3000)
    recs = [json.loads(l) for l in p.stdout.splitlines() if l.strip()]
    drift = 0
    legacy_ok = 0
    for x in recs:
        for ri, o in enumerate(x["obs"]["rounds"]):
            case = {"format": x["format"], "alg": x["alg"], "vector": x["vector"], "round": ri + 1, "obs": x["obs"]}
            tag = "legacy" if x["vector"].get("legacy") else "round%d" % (ri + 1)
            if o["sign"] == "Panic":
                ctx.violation("panic", "embeddable workflow panicked: %s" % o.get("msg"), case)
            elif o["sign"].startswith("SetupErr"):
                ctx.violation("setup:%s" % o["sign"], "placeholder workflow failed before signing: %s" % o.get("msg"), case)
            elif o["sign"] == "Ok":
                if o["signed_len"] != o["placeholder_len"]:
                    ctx.violation("size:%s:%s" % ("longer" if o["signed_len"] > o["placeholder_len"] else "shorter", tag),
                                  "sign_embeddable returned %d bytes for a %d-byte placeholder (%s)" % (o["signed_len"], o["placeholder_len"], tag), case)
                elif o.get("read", {}).get("state") not in ("Valid", "Trusted"):
                    ctx.violation("patched-not-valid:%s" % tag, "patched asset does not read back Valid: %s" % o.get("read"), case)
        if x["vector"].get("legacy"):
            legacy_ok += x["obs"]["rounds"][0]["sign"] == "Ok"
            continue
        last = x["obs"]["rounds"][-1]["sign"] if x["obs"]["rounds"] else ""
        if len(x["obs"]["rounds"]) == len(x["vector"]["rounds"]) and (last == "Ok") != (x["vector"]["kind"] == "ok"):
            drift += 1
    if drift:
        ctx.drift_note("Embeddable", "%d vectors: fit/outgrow differs from the mirror's size arithmetic" % drift)
    ctx.cov["traces_validated_against_impl"] += len(recs)
    ctx.cov["evaluations"] = len(recs)
    if legacy_ok < 100:
        raise ToolError("vacuity: only %d runs of the data_hashed_placeholder / sign_data_hashed_embeddable sweep signed" % legacy_ok)
    ctx.cov["legacy_sweep_signed"] = legacy_ok
    ctx.cov["distinct_nontrivial"] = sum(1 for x in recs if x["vector"].get("legacy") or len(x["vector"]["rounds"]) > 1 or x["vector"]["rounds"][0]["n"] > 1)
    ctx.cov["rule"] = "behaviours exported by TLC: one or two placeholder/sign rounds on the same builder, exclusion-list shapes (count x start magnitude x length magnitude) x formats %s x rotating algorithms; non-trivial = two rounds or more than the manifest's own exclusion" % fmts
    ctx.sample(recs[0]); ctx.sample(recs[-1])
