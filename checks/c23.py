"""C23 -- cancellation is always reported as cancellation (spec: Progress, trace validation)."""
import json, re
from lib.vcheck import *


def run(ctx):
    ctx.level = "model_checking"
    ctx.assumptions += ["the public progress callback is the event stream; cancel() from another thread is issued while invocation k is parked, so its order relative to the checkpoints is deterministic",
                        "operations: sign, read (embedded, sidecar, box-hash binding), ingredient import, sign with a signed ingredient; formats per tier"]
    r = tlc_expect_ok(tlc("Progress", "MC_Progress.cfg", workers=2, timeout=300), "MC Progress")
    ctx.add_tlc(r)
    cov = r.coverage()
    for a in ("Callback", "Cancel", "Finish"):
        if cov.get(a, (0, 0))[1] == 0:
            raise ToolError("vacuity: action %s never taken" % a)
    if not ctx.quick:
        # unbounded: TLAPS proves TypeOK / CancelWins inductive and the step form of NeverOkAfterRefusal for every Phases / MaxStep
        nob = tlapm_prove("Progress_proofs", ["Progress"])
        ctx.assumptions.append("thorough tier: tlapm discharged %d proof obligations of Progress_proofs (Spec => [](TypeOK /\\ CancelWins) for unbounded Phases and MaxStep; NeverOkAfterRefusalStep)" % nob)
    args = ["c23-record"] + ([] if ctx.quick else ["--thorough", "--stride", "3"])
    p = vh(args, timeout=3000)
    runs = [json.loads(l) for l in p.stdout.splitlines() if l.strip()]
    if len(runs) < 50:
        raise ToolError("only %d runs recorded" % len(runs))
    events, owner = [], []
    for ri, x in enumerate(runs):
        events.append({"e": "reset"}); owner.append(ri)
        for j, ev in enumerate(x["events"]):
            if x["mode"] == "cancel" and ev["n"] == x["k"]:
                events.append({"e": "cancel"}); owner.append(ri)
            events.append({"e": "cb", "phase": ev["phase"], "step": ev["step"], "total": ev["total"], "ret": ev["ret"]}); owner.append(ri)
        kind = x["outcome"]["kind"]
        if kind == "Panic":
            ctx.violation("panic:%s" % x["run"]["op"], "operation panicked: %s" % x["outcome"].get("detail"), x)
            kind = "Err"
        events.append({"e": "finish", "o": kind}); owner.append(ri)
    accepted, matched, res = validate_trace(ctx, "Trace_Progress", "Trace_Progress.cfg", events, timeout=1200)
    if matched != len(events):
        sys.stderr.write(res.out[-3000:])
        raise ToolError("trace not consumed: matched %d of %d events" % (matched, len(events)))
    verdict = res.printed("VERDICT")
    if not verdict:
        raise ToolError("trace validator printed no verdict")
    verdict = verdict[-1]
    for idx in verdict["badFinish"]:
        x = runs[owner[idx - 1]]
        k = x["k"]
        ph = x["events"][k - 1]["phase"] if 0 < k <= len(x["events"]) else "?"
        o = x["outcome"]
        how = "Ok:%s" % (o["detail"].get("state", "") if isinstance(o.get("detail"), dict) else "") if o["kind"] == "Ok" else "Err:%s" % o.get("detail")
        ctx.violation("not-cancelled:%s:%s:%s" % (x["run"]["op"], ph, how.split(":")[0] + ":" + how.split(":")[1]),
                      "%s at invocation %d (%s) of %s %s ended with %s instead of the cancellation error" % (
                          "callback returned false" if x["mode"] == "false" else "context cancelled", k, ph, x["run"]["op"], x["run"]["fmt"], how),
                      {"run": x["run"], "mode": x["mode"], "k": k, "outcome": o, "events": x["events"]})
    seen = set()
    for idx in verdict["badGrammar"]:
        x = runs[owner[idx - 1]]
        ev = events[idx - 1]
        st = json.dumps(x["run"]["settings"])
        key = "grammar:%s:%s" % (ev["phase"], "box-hash" if "compress" in st else ("merkle" if "merkle" in st else "default"))
        if (key, owner[idx - 1]) in seen:
            continue
        seen.add((key, owner[idx - 1]))
        ctx.violation(key, "progress step grammar violated at %s step=%d total=%d (steps must be positive, within a non-zero total and increase within a run of the same phase)" % (
            ev["phase"], ev["step"], ev["total"]), {"run": x["run"], "mode": x["mode"], "k": x["k"], "events": x["events"]})
    ctx.cov["traces_validated_against_impl"] += len(runs)
    ctx.cov["evaluations"] = len(events)
    ctx.cov["distinct_nontrivial"] = sum(1 for x in runs if x["mode"] != "observe")
    ctx.cov["rule"] = ("per operation: one observation run, then for every invocation index k a run whose callback returns false at k and a run with Context::cancel() "
                       "from a second thread while invocation k is parked; all events validated by Trace_Progress; non-trivial = a cancelling run")
    ctx.sample({"run": runs[1]["run"], "mode": runs[1]["mode"], "k": runs[1]["k"], "events": runs[1]["events"][:4], "outcome": runs[1]["outcome"]})
    ctx.sample({"run": runs[-1]["run"], "mode": runs[-1]["mode"], "k": runs[-1]["k"], "n_events": len(runs[-1]["events"]), "outcome": runs[-1]["outcome"]})
