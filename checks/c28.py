"""C28 -- no network access unless the configuration enables it (spec: NetGate)."""
import json
from lib.vcheck import *


def run_ops(ctx, vecs, formats, allowlist=False):
    args = ["c28-run", "--formats", formats] + (["--allowlist"] if allowlist else [])
    p = vh(args, stdin="\n".join(json.dumps({"cfg": v["cfg"], "asset": v["asset"], "op": v["op"]}) for v in vecs), timeout=3000)
    recs = [json.loads(l) for l in p.stdout.splitlines() if l.strip()]
    return recs


def run(ctx):
    ctx.level = "model_checking"
    ctx.assumptions += ["requests are observed at the SDK's built-in generic HTTP client (transport override hook), so requests issued through contexts the SDK creates internally are seen too",
                        "request kinds are recognised by the hosts the harness itself put into the assets / signer (manifests.example, tsa.example); only fixture ocsp.jpg is signed with a certificate naming an OCSP responder (its requests are recognised by method/URL)"]
    r = tlc_expect_ok(tlc("MC_NetGate", "MC_NetGate.cfg", workers=2, timeout=300), "MC NetGate")
    ctx.add_tlc(r)
    e = tlc_expect_ok(tlc("MC_NetGate", "MC_NetGate_emit.cfg", name="c28emit", workers=2, timeout=300, coverage=False), "emit")
    vecs = e.printed("VEC")
    if len(vecs) != 720:
        raise ToolError("expected 720 configurations, got %d" % len(vecs))
    formats = "jpg,png" if ctx.quick else "jpg,png,webp,gif,svg,tiff,wav,mp4"
    recs = run_ops(ctx, vecs, formats)
    good = []
    for x in recs:
        if "setup_error" in x:
            ctx.violation("setup:%s" % x["format"], "could not produce the remote/embedded assets: %s" % x["setup_error"], x)
        else:
            good.append(x)
    slim = [{"cfg": x["cfg"], "asset": x["asset"], "op": x["op"], "kinds": [q["kind"] for q in x["requests"]], "result": x["result"].split(":")[0], "url_ok": x["url_ok"]} for x in good]
    verdicts = judge_with_tlc(ctx, "Oracle_NetGate", "Oracle_NetGate.cfg", slim)
    drift = 0
    for x, v in zip(good, verdicts):
        if x["result"] == "Panic":
            ctx.violation("panic:%s" % x["op"], "operation panicked: %s" % x["detail"], x)
        for k in v["unasked"]:
            ctx.violation("unasked:%s:%s" % (k, x["op"]), "%s request sent although the configuration does not enable it" % k, x)
        if v["remote_only_bad"]:
            ctx.violation("remote-only-disabled", "remote-only asset with fetching disabled did not yield the remote-manifest error carrying the embedded URL (%s %s)" % (x["result"], x["detail"]), x)
        drift += 1 if v["drift"] else 0
    if drift:
        ctx.drift_note("NetGate", "%d runs sent a different set of request kinds than the mirror predicts" % drift)
    ctx.cov["traces_validated_against_impl"] += len(good)
    ctx.cov["evaluations"] = len(recs)
    ctx.cov["distinct_nontrivial"] = sum(1 for x in good if x["requests"] or x["asset"] != "unsigned")
    ctx.cov["exhaustive"] = True
    ctx.cov["rule"] = "all 720 (settings x asset kind x operation) configurations of the spec x formats %s; non-trivial = signed asset or at least one request" % formats
    ctx.sample({k: good[5][k] for k in ("format", "cfg", "asset", "op", "requests", "result")})
    withreq = [x for x in good if x["requests"]]
    if withreq:
        ctx.sample({k: withreq[0][k] for k in ("format", "cfg", "asset", "op", "requests", "result")})
