"""Shared pipeline for C26 / C27: MC of HttpPolicy in three modes, vector export, replay through the real stack, TLC judge."""
import json
from lib.vcheck import *

INV26 = ["OnlyMatchingReachTransport", "ElseDisallowed"]
INV27 = ["NoInternalHop", "AtMostTen", "DisabledMeansNone", "NoCredentialForward"]


def pipeline(ctx, modes):
    # harness classifier self-check (projection function): a disagreement is a tool error, not a violation
    sc = json.loads(vh(["c26-selfcheck"]).stdout)
    if sc["bad"]:
        raise ToolError("host classifier self-check failed: %s" % sc["bad"][:3])
    allvecs = []
    for mode in modes:
        r = tlc_expect_ok(tlc("MC_HttpPolicy", "MC_HttpPolicy_%s.cfg" % mode, workers=4, timeout=900), "MC HttpPolicy %s" % mode)
        ctx.add_tlc(r)
        cov = r.coverage()
        if cov.get("Send", (0, 0))[1] == 0:
            raise ToolError("vacuity: Send never taken")
        e = tlc_expect_ok(tlc("MC_HttpPolicy", "MC_HttpPolicy_%s_emit.cfg" % mode, name="http_emit_" + mode, workers=4, timeout=900, coverage=False), "emit " + mode)
        vecs = e.printed("VEC")
        if not vecs:
            raise ToolError("no vectors for mode %s" % mode)
        for v in vecs:
            v["mode"] = mode
        allvecs += vecs
    if ctx.quick and len(allvecs) > 9000:
        keep = [v for v in allvecs if v["mode"] != "allow"]
        rest = [v for v in allvecs if v["mode"] == "allow"]
        ctx.rng.shuffle(rest)
        allvecs = keep + rest[:9000 - len(keep)]
    k = 2 if ctx.quick else 8
    p = vh(["c26-replay", "--seed", ctx.seed, "--k", k], stdin="\n".join(json.dumps(v) for v in allvecs), timeout=3000)
    obs = [json.loads(l) for l in p.stdout.splitlines() if l.strip()]
    if len(obs) != len(allvecs):
        raise ToolError("replay returned %d of %d" % (len(obs), len(allvecs)))
    recs, meta = [], []
    for v, o in zip(allvecs, obs):
        for run in o["runs"]:
            recs.append({"restricted": v["restricted"], "allow": v["allow"], "allowRedirects": v["allowRedirects"],
                         "recorded": [{"uri": {"scheme": q["scheme"], "host": q["host"], "port": q["port"]}, "headers": q["headers"]} for q in run["recorded"]],
                         "result": "badLocation" if run["result"].startswith("other") else run["result"].split(":")[0],
                         "expected_sent": [{"uri": s["uri"]} for s in v["sent"]], "expected_result": v["result"]})
            meta.append((v, run))
    verdicts = judge_with_tlc(ctx, "Oracle_HttpPolicy", "Oracle_HttpPolicy.cfg", recs, chunk=8000, timeout=1500, heap="8g")
    ctx.cov["traces_validated_against_impl"] += len(recs)
    ctx.cov["evaluations"] = len(recs)
    ctx.cov["distinct_nontrivial"] = sum(1 for v in allvecs if v["script"] or v["restricted"])
    ctx.cov["rule"] = ("behaviours of the HttpPolicy state machine exported by TLC (modes %s: pattern lists x initial URIs x <=1 hop; all location classes x <=2 hops; chains of 0..13 redirects), "
                       "each replayed %d times (sync/async) through the real Redirect(Restricted(transport)) stack with randomly chosen concrete notations per host class; "
                       "non-trivial = has an allow-list or at least one scripted response" % (",".join(modes), k))
    drift = sum(1 for v in verdicts if v["drift"])
    if drift:
        ex = next(m for m, v in zip(meta, verdicts) if v["drift"])
        ctx.drift_note("HttpPolicy", "%d runs differ from the mirror (e.g. first=%s locations=%s patterns=%s result=%s expected=%s/%d sent)" % (
            drift, ex[1]["first"], ex[1]["locations"], ex[1]["patterns"], ex[1]["result"], ex[0]["result"], len(ex[0]["sent"])))
    for (v, run) in meta[:1] + meta[len(meta) // 2:len(meta) // 2 + 1]:
        ctx.sample({"mode": v["mode"], "patterns": run["patterns"], "first": run["first"], "locations": run["locations"],
                    "recorded": [q["uri"] for q in run["recorded"]], "result": run["result"], "expected_result": v["result"]})
    return meta, verdicts


def case_of(v, run):
    return {"mode": v["mode"], "patterns": run["patterns"], "allowRedirects": v["allowRedirects"], "restricted": v["restricted"], "first": run["first"],
            "locations": run["locations"], "flavour": run["flavour"], "recorded": run["recorded"], "result": run["result"]}
