"""C17 -- BMFF mdat hashing is independent of how the payload is chunked (spec: MdatAccumulator)."""
import json
from lib.vcheck import *


def run(ctx):
    ctx.level = "model_checking"
    ctx.assumptions += ["payload = bytes after the mdat box header; skip = 8 (standard header) or 0 (large-size header) as the SDK defines it",
                        "the BMFF placeholder workflow is driven on fixture video1_no_manifest.mp4 with the mdat header rewritten to standard and large form; free-box splice by the harness"]
    for cfg in ("var", "fixed", "large", "short"):
        r = tlc_expect_ok(tlc("MdatAccumulator", "MC_MdatAccumulator_%s.cfg" % cfg, workers=2, timeout=600), "MC MdatAccumulator " + cfg)
        ctx.add_tlc(r)
        cov = r.coverage()
        for a in ("AddChunkP", "FlushP"):
            if cov.get(a, (0, 0))[1] == 0:
                raise ToolError("vacuity: %s never taken in %s" % (a, cfg))
    args = ["c17-record", "--seed", ctx.seed] + ([] if ctx.quick else ["--thorough"])
    p = vh(args, timeout=6000)
    runs = [json.loads(l) for l in p.stdout.splitlines() if l.strip()]
    if len(runs) < 40:
        raise ToolError("only %d runs" % len(runs))
    events, owner = [], []
    for ri, x in enumerate(runs):
        o = x["obs"]
        if o["sign"] != "Ok":
            key = "panic" if o["sign"] == "Panic" else "workflow-error:%s" % o["sign"]
            ctx.violation(key, "placeholder workflow failed for a chunking: %s %s" % (o["sign"], o.get("msg", "")), {k: x[k] for k in ("large", "leaf_kb", "chunks", "obs")})
            continue
        events.append({"e": "reset", "total": x["total"], "leaf": x["leaf_kb"] * 1024, "skip": x["skip"]}); owner.append(ri)
        for n in x["chunks"]:
            events.append({"e": "chunk", "n": n}); owner.append(ri)
        sizes = o["sizes"]
        if x["leaf_kb"] > 0:
            # fixed block size: the map records count + block size; expand to per-leaf sizes
            fb = o["fixed_block"] or 0
            covered = x["total"] - min(x["skip"], x["total"])
            sizes = [fb] * (o["count"] - 1) + [covered - fb * (o["count"] - 1)] if o["count"] > 0 else []
        events.append({"e": "flush", "sizes": sizes, "valid": o["read"]["state"] in ("Valid", "Trusted")}); owner.append(ri)
    accepted, matched, res = validate_trace(ctx, "Trace_MdatAccumulator", "Trace_MdatAccumulator.cfg", events, timeout=2400, heap="8g")
    if matched != len(events):
        sys.stderr.write(res.out[-3000:])
        raise ToolError("trace not consumed: matched %d of %d" % (matched, len(events)))
    verdict = res.printed("VERDICT")[-1]
    drift = 0
    for idx, what in verdict["bad"]:
        x = runs[owner[idx - 1]]
        case = {k: x[k] for k in ("large", "leaf_kb", "skip", "total", "chunks", "obs")}
        first = x["chunks"][0]
        cls = "first-chunk<=8" if (not x["large"] and 0 < first <= 8) else ("empty-chunk" if 0 in x["chunks"] else "other")
        if what == "not-valid":
            ctx.violation("not-valid:%s:%s" % ("fixed" if x["leaf_kb"] else "variable", cls), "asset does not read back Valid for chunking %s... (%s)" % (x["chunks"][:4], x["obs"]["read"]), case)
        elif what == "fixed-leaves-differ":
            ctx.violation("fixed-leaves-depend-on-chunking:%s" % cls, "recorded fixed-size leaves differ from the partition of the payload", case)
        else:
            drift += 1
    if drift:
        ctx.drift_note("MdatAccumulator", "%d runs: variable leaf sizes differ from the mirror" % drift)
    ctx.cov["traces_validated_against_impl"] += len(runs)
    ctx.cov["evaluations"] = len(events)
    ctx.cov["distinct_nontrivial"] = sum(1 for x in runs if len(x["chunks"]) > 1)
    ctx.cov["rule"] = ("chunkings of the real mdat payload: grid of first/second cut points in 0..32 bytes (incl. 0, <=8, 8, 9) plus seeded random multi-way splits incl. empty chunks, "
                       "x header form (standard/large) x leaf size (variable, 1 KB%s); every call sequence validated by Trace_MdatAccumulator; non-trivial = more than one chunk" % ("" if ctx.quick else ", 64 KB"))
    ctx.sample({k: runs[3][k] for k in ("large", "leaf_kb", "chunks")} | {"read": runs[3]["obs"].get("read"), "count": runs[3]["obs"].get("count")})
