"""C38 -- validation is deterministic and repeatable (spec: Workflow; replay of TLC histories in one process)."""
from lib.vcheck import *
from checks.wfcommon import report


def run(ctx):
    report(ctx, "C38", "histories")
