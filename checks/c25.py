"""C25 -- settings updates follow JSON-merge semantics and fail atomically (spec: SettingsMerge)."""
import json
from lib.vcheck import *


def enc(v):
    """JSON value -> the spec's tree encoding (objects are nodes, everything else a leaf id)"""
    if isinstance(v, dict):
        return {"k": "obj", "kids": {k: enc(x) for k, x in v.items()}}
    return {"k": "leaf", "v": json.dumps(v, sort_keys=True)}


ABSENT = {"k": "leaf", "v": "absent"}


def run(ctx):
    ctx.level = "model_checking"
    ctx.assumptions += ["documents are compared as trees whose leaves are canonical JSON texts (arrays are leaves: merging descends into objects only)",
                        "on success only the leaf paths of the resulting typed settings are compared with the merged document (unknown keys may be dropped, defaults filled)"]
    cfg = "MC_SettingsMerge.cfg" if ctx.quick else "MC_SettingsMerge_thorough.cfg"
    r = tlc_expect_ok(tlc("MC_SettingsMerge", cfg, workers=8, timeout=1200, coverage=False), "MC SettingsMerge")
    ctx.add_tlc(r)
    r2 = tlc_expect_ok(tlc("MC_SettingsMerge", "MC_SettingsMerge_depth.cfg", name="c25depth", workers=4, timeout=600, coverage=False), "MC depth")
    ctx.add_tlc(r2)
    n = 1500 if ctx.quick else 40000
    p = vh(["c25-record", "--seed", ctx.seed, "--n", n], timeout=3000)
    recs = [json.loads(l) for l in p.stdout.splitlines() if l.strip()]
    slim = []
    keep = []
    for x in recs:
        if "panic" in x:
            ctx.violation("panic:%s" % x["op"], "settings update panicked: %s" % x["panic"], x)
            continue
        isdoc = x["op"] in ("with_json", "update_json")
        before = enc(x["before"])
        slim.append({
            "kind": "doc" if isdoc else "value", "before": before,
            "doc": enc(x["doc"]) if isdoc else ABSENT,
            "path": x.get("path", ["-"]), "value": enc(x["value"]) if not isdoc else ABSENT,
            "got": enc(x["got"]) if "got" in x else ABSENT,
            "ok": x["ok"], "after": enc(x["after"]) if "after" in x else ABSENT,
            "has_inplace": "inplace_after" in x, "inplace_ok": x.get("inplace_ok", False),
            "inplace_after": enc(x["inplace_after"]) if "inplace_after" in x else ABSENT,
            "has_receiver": "receiver_after" in x, "receiver_after": enc(x["receiver_after"]) if "receiver_after" in x else ABSENT,
            "has_toml": "toml_ok" in x, "toml_ok": x.get("toml_ok", False),
            "after_toml": enc(x["after_toml"]) if "after_toml" in x else ABSENT})
        keep.append(x)
    verdicts = judge_with_tlc(ctx, "Oracle_SettingsMerge", "Oracle_SettingsMerge.cfg", slim, chunk=1500, timeout=1500, heap="8g")
    for x, v in zip(keep, verdicts):
        small = {k: x[k] for k in ("op", "doc", "path", "value", "ok", "err", "got", "toml", "toml_ok") if k in x}
        if x.get("must_ok") and not x["ok"]:
            ctx.violation("merge-rejected:%s" % x["op"], "an overlay that only flips boolean settings was rejected", small)
        for pth in v["mism"]:
            ctx.violation("merge:%s" % x["op"], "settings at %s differ from the merge of the old settings and the document" % ".".join(pth),
                          dict(small, path_bad=pth, before=x["before"], after=x.get("after")))
        for pth in v["untouched"]:
            ctx.violation("untouched:%s" % x["op"], "settings at %s changed although the update does not mention that path" % ".".join(pth),
                          dict(small, path_bad=pth))
        if not v["atomic"]:
            ctx.violation("atomic:%s" % x["op"], "a failed update changed the settings", small)
        if not v["inplace_same"]:
            ctx.violation("inplace:%s" % x["op"], "in-place update differs from the functional update", small)
        if not v["receiver"]:
            ctx.violation("receiver:%s" % x["op"], "functional update modified its receiver", small)
        if not v["toml"]:
            ctx.violation("toml", "equivalent TOML and JSON documents give different settings", small)
        if not v["setget"]:
            ctx.violation("setget:%s" % x["op"], "reading back the path does not return the value set", small)
    ctx.cov["traces_validated_against_impl"] += len(keep)
    ctx.cov["evaluations"] = len(recs)
    ctx.cov["distinct_nontrivial"] = sum(1 for x in keep if x["ok"])
    ctx.cov["rule"] = ("seeded random overlay documents / path-value pairs over the full serialised settings schema (same-type, wrong-type, null, unknown-key, empty-object, "
                       "whole-section-null mutations; chained so the starting settings vary), through with_json, with_toml, update_from_str, with_value, set_value, get_value; "
                       "non-trivial = the update succeeded")
    ok_docs = [x for x in keep if x["ok"] and "doc" in x]
    if ok_docs:
        ctx.sample({"op": ok_docs[0]["op"], "doc": ok_docs[0]["doc"], "ok": True, "toml": ok_docs[0].get("toml")})
    bad = [x for x in keep if not x["ok"]]
    if bad:
        ctx.sample({k: bad[0][k] for k in ("op", "doc", "path", "value", "ok", "err") if k in bad[0]})
