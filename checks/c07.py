"""C07 -- embedding round trip: write, read, replace and remove manifest stores (spec: Container)."""
from lib.vcheck import *
from checks.containercommon import pipeline, report


def run(ctx):
    ctx.level = "model_checking"
    ctx.assumptions += ["stores are syntactically valid manifest-store superboxes of the requested length carrying a unique marker (real signed stores for BMFF, whose handler parses the store)",
                        "'exactly one store' is observed by marker search in the file (not for SVG, whose store is base64 text)"]
    recs, findings, setup_errors = pipeline(ctx)
    report(ctx, "C07", findings, setup_errors)
