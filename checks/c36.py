"""C36 -- time-stamps are used only when they match the signature (spec: Timestamp; replay with a local TSA)."""
import json, os, shutil, time, datetime
from lib.vcheck import *
from lib import pkikit as K

WINDOW = 70      # seconds a short-lived signing certificate stays valid after it is generated


def run(ctx):
    ctx.level = "model_checking"
    ctx.assumptions += ["tokens come from a local TSA (`openssl ts -reply`, %s) answering the request the SDK built, through Signer::send_timestamp_request; mismatching imprint = the token is requested for a different message; corrupted = one byte of the token's signature flipped" % K.OPENSSL,
                        "'expired since signing' is produced in real time: the signing certificate is issued with %d s of validity left, signed with at once, and read only after it has expired (the check sleeps)" % WINDOW,
                        "TSA anchoring: the TSA root is / is not among trust.trust_anchors (verify_timestamp_trust on); the sigTst header variants and time-stamp assertions are not crafted separately"]
    r = tlc_expect_ok(tlc("MC_Timestamp", "MC_Timestamp.cfg", name="mc_timestamp", workers=2, timeout=600), "MC Timestamp")
    ctx.add_tlc(r)
    vecs = tlc_expect_ok(tlc("MC_Timestamp", "MC_Timestamp_emit.cfg", name="timestamp_emit", workers=2, timeout=600, coverage=False), "emit").printed("VEC")
    if len(vecs) != 51:
        raise ToolError("expected 51 vectors, got %d" % len(vecs))
    d = ctx.path("pki")
    shutil.rmtree(d, ignore_errors=True); os.makedirs(d)
    try:
        rk, rc = K.selfsigned(d, "root", "VH Root")
        ik, ic, _ = K.issue(d, "int1", "VH Issuing CA", rk, rc, ext=K.CA_EXT, days=2000)
        lk, lc, lp8 = K.issue(d, "leaf", "VH Leaf", ik, ic)
        trk, trc = K.selfsigned(d, "tsaroot", "VH TSA Root")
        tk, tc, _ = K.issue(d, "tsa", "VH TSA", trk, trc, ext=K.TSA_EXT)
        cfg = K.tsa_config(d, "t", tc, tk, K.cat([trc], os.path.join(d, "tsachain.pem")))
        now = datetime.datetime.utcnow()
        end = now + datetime.timedelta(seconds=WINDOW)
        sk, sc, sp8 = K.issue(d, "shortleaf", "VH Short Leaf", ik, ic, start=(now - datetime.timedelta(hours=1)).strftime("%Y%m%d%H%M%SZ"), end=end.strftime("%Y%m%d%H%M%SZ"))
        t_end = int(time.time()) + WINDOW
        # a certificate whose validity begins WINDOW seconds from now: signed with at once (the token places the signing before
        # the validity), read once it has become valid
        fk, fc, fp8 = K.issue(d, "futureleaf", "VH Future Leaf", ik, ic, start=end.strftime("%Y%m%d%H%M%SZ"), end=(now + datetime.timedelta(days=300)).strftime("%Y%m%d%H%M%SZ"))
    except K.KitError as e:
        raise ToolError("PKI generation failed: %s" % e)
    chain_valid = K.cat([lc, ic], os.path.join(d, "chain.pem"))
    chain_short = K.cat([sc, ic], os.path.join(d, "chain_short.pem"))
    chain_future = K.cat([fc, ic], os.path.join(d, "chain_future.pem"))
    both = open(rc).read() + open(trc).read()
    only_signer = open(rc).read()
    runs = []
    # short-lived certificate first (it must be signed with while it is valid), reads after it expired
    order = sorted(range(len(vecs)), key=lambda i: vecs[i]["cert"] == "valid")
    for i in order:
        v = vecs[i]
        short = v["cert"] == "expired-since-signing"
        future = v["cert"] == "valid-only-after-signing"
        x = {"id": i, "chain": chain_short if short else (chain_future if future else chain_valid), "key": sp8 if short else (fp8 if future else lp8), "alg": "es256",
             "sign_settings": {"verify": {"verify_after_sign": False, "verify_trust": False}},
             # two readers: the signer's root among the system anchors (trust_anchors) and among the user anchors -- the verdict is the same
             "reads": [{"name": "system", "settings": {"trust": {"trust_anchors": both if v["anchoring"] == "anchored" else only_signer}, "verify": {"verify_trust": True, "verify_timestamp_trust": True}}},
                       {"name": "user", "settings": {"trust": dict({"user_anchors": only_signer}, **({"trust_anchors": open(trc).read()} if v["anchoring"] == "anchored" else {})), "verify": {"verify_trust": True, "verify_timestamp_trust": True}}}]}
        if future:
            x["decoy"] = True      # the signer's own validity test sees a conforming chain first (C06's device): the SDK refuses to sign with a certificate that is not valid yet
        if v["token"] == "present":
            # one TSA configuration (serial file) per vector: the short-lived vectors run as parallel processes
            x["tsa"] = {"config": K.tsa_config(d, "t%d" % i, tc, tk, os.path.join(d, "tsachain.pem"), digest="sha256" if v["tsaAlg"] == "supported" else "sha1"), "imprint": v["imprint"], "corrupt": v["sig"] == "corrupt"}
        runs.append(x)
    # two passes: sign + read the long-lived ones normally; the short-lived ones are signed now and read after expiry
    first = [dict(x) for x in runs if vecs[x["id"]]["cert"] != "valid"]
    for x in first:
        x["read_not_before"] = t_end + 3
    rest = [x for x in runs if vecs[x["id"]]["cert"] == "valid"]
    if time.time() > t_end - 15:
        raise ToolError("certificate generation took too long: the short-lived certificate is about to expire before signing")
    # every short-lived vector must be SIGNED before expiry; pki-run signs and reads one vector at a time, so the sleeping
    # read of the first would delay the signing of the next: run them as parallel processes
    import concurrent.futures as cf
    def one(x):
        p = vh(["pki-run"], stdin=json.dumps(x), timeout=600)
        return json.loads(p.stdout.splitlines()[0])
    with cf.ThreadPoolExecutor(max_workers=len(first) + 1) as ex:
        fut_first = [ex.submit(one, x) for x in first]
        p = vh(["pki-run"], stdin="\n".join(json.dumps(x) for x in rest), timeout=6000)
        outs_rest = [json.loads(l) for l in p.stdout.splitlines() if l.strip()]
        outs_first = [f.result() for f in fut_first]
    outs = {o["id"]: o for o in outs_first + outs_rest}
    if len(outs) != len(vecs):
        raise ToolError("pki-run returned %d results for %d vectors" % (len(outs), len(vecs)))
    for i, v in enumerate(vecs):
        o = outs[i]
        key0 = key = "%s:%s:%s:%s:%s%s" % (v["token"], v["imprint"], v["sig"], v["anchoring"], v["cert"], "" if v["tsaAlg"] == "supported" else ":tsa-sha1")
        case = {"vector": v, "result": o}
        if o.get("panic"):
            ctx.violation("panic", "panic with a time-stamp token: %s" % o["panic"], case)
            continue
        if o.get("sign") != "ok":
            raise ToolError("signing failed for %s: %s %s" % (key, o.get("sign"), o.get("detail")))
        for rdi, rdx in enumerate(o["reads"]):
            read = rdx["read"]
            key = key0 + ":" + rdx["name"]
            if "active" not in read:
                if v["verdict"] == "accepted":
                    ctx.violation("unreadable:%s" % key, "asset cannot be read: %s" % read, case)
                continue
            codes = {c[1] for c in read["active"]}
            ts_problem = {c for c in codes if c.startswith("timeStamp.") and c not in ("timeStamp.validated", "timeStamp.trusted")}
            state = read.get("state")
            has_time = read.get("time") is not None
            if has_time != v["usable"]:
                ctx.violation("signing-time:%s:%s" % ("taken-from-unusable-token" if has_time else "missing-with-usable-token", key), "token usable=%s but a signing time is %sreported (%s)" % (v["usable"], "" if has_time else "not ", read.get("time")), case)
            if v["reported"] and not ts_problem:
                ctx.violation("token-problem-not-reported:%s" % key, "an unusable token (%s) produces no time-stamp status" % key, case)
            if v["usable"] and "timeStamp.validated" not in codes:
                ctx.violation("usable-token-not-validated:%s" % key, "a matching, correctly signed token is not reported as validated: %s" % sorted(codes), case)
            expired_flag = "signingCredential.expired" in codes
            if v["verdict"] == "not-valid":
                if state in ("Valid", "Trusted"):
                    ctx.violation("expired-accepted-without-usable-token:%s" % key, "the signing certificate expired and no usable token covers the signing, yet the manifest is %s" % state, case)
            elif v["verdict"] == "not-trusted":
                if state == "Trusted":
                    ctx.violation("trusted-outside-validity:%s" % key, "a usable token of an anchored TSA places the signing before the certificate's validity began, yet the credential is reported Trusted", case)
            elif v["verdict"] == "accepted":
                # (the signer's root is among the configured anchors in every run: acceptance means Trusted)
                if expired_flag or state != "Trusted":
                    ctx.violation("accepted-case-rejected:%s" % key, "expected acceptance (certificate %s, token usable=%s) but state is %s, failures %s" % (v["cert"], v["usable"], state, sorted(c[1] for c in read["active"] if c[0] == "failure")), case)
            if v["usable"] and v["anchoring"] == "anchored" and "timeStamp.trusted" not in codes:
                ctx.drift_note("Timestamp", "anchored TSA not reported as timeStamp.trusted for %s" % key)
    ctx.cov["traces_validated_against_impl"] += len(vecs)
    ctx.cov["evaluations"] = len(vecs)
    ctx.cov["distinct_nontrivial"] = sum(1 for v in vecs if v["cert"] != "valid")
    ctx.cov["rule"] = "all 51 combinations of token presence x imprint x CMS signature x TSA signature algorithm (supported / ECDSA with SHA-1) x TSA anchoring x certificate (valid / expired since signing / valid only after signing); non-trivial = the certificate that expires between signing and reading"
    ctx.sample({"vector": vecs[0]})
