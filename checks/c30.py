"""C30 -- remote manifest references round-trip through XMP (spec: XmpRef)."""
import json
from lib.vcheck import *

URL_LEGAL = {"plain", "amp", "pct", "hash", "qm", "eq", "entamp"}   # apostrophe: percent-encoded by URL normalisation in a query


def run(ctx):
    ctx.level = "exploration"
    ctx.assumptions += ["URLs are sequences of <=3 character classes appended to https://manifests.example/; classes that are not legal URL characters (< > \" space, non-ASCII) are compared modulo URL normalisation (percent-encoding)",
                        "pre-existing XMP properties are compared with the harness' own minimal packet scanner (attributes and simple elements of rdf:Description)"]
    r = tlc_expect_ok(tlc("MC_XmpRef", "MC_XmpRef.cfg", workers=4, timeout=900, coverage=False), "MC XmpRef")
    ctx.add_tlc(r)
    e = tlc_expect_ok(tlc("MC_XmpRef", "MC_XmpRef_emit.cfg", name="c30emit", workers=2, timeout=900, coverage=False), "emit")
    vecs = e.printed("VEC")
    if len(vecs) < 2000:
        raise ToolError("vector export too small: %d" % len(vecs))
    if ctx.quick:
        short = [v for v in vecs if len(v["url"]) <= 2]
        rest = [v for v in vecs if len(v["url"]) > 2]
        ctx.rng.shuffle(rest)
        vecs = short + rest[:120]
        fmts = "jpg,jpgx,png,webpx,mp4,svg"
    else:
        fmts = "jpg,jpgx,png,webp,webpx,gif,svg,tiff,mp4,wav,mp3,jxl"
    # every vector on two formats in quick would be slow: spread the vectors over the formats
    per = {}
    fl = fmts.split(",")
    for i, v in enumerate(vecs):
        for f in ([fl[i % len(fl)], fl[(i + 1) % len(fl)]] if ctx.quick else fl):
            per.setdefault(f, []).append(v)
    recs = []
    for f, vs in per.items():
        p = vh(["c30-replay", "--seed", ctx.seed, "--formats", f], stdin="\n".join(json.dumps(v) for v in vs), timeout=3000)
        recs += [json.loads(l) for l in p.stdout.splitlines() if l.strip()]
    for x in recs:
        o = x["obs"]
        case = {"format": x["format"], "tokens": x["tokens"], "url": x["url"], "obs": o}
        special = sorted(set(x["tokens"]) & {"amp", "lt", "gt", "quot", "apos", "entamp"})
        if o["sign"] == "Panic":
            ctx.violation("panic", "signing with a remote reference panicked", case)
            continue
        if o["sign"] != "Ok":
            ctx.violation("sign-failed:%s" % o["sign"], "signing with a remote reference failed: %s" % o.get("msg"), case)
            continue
        g = o["got"]
        legal = set(x["tokens"]) <= URL_LEGAL
        if g["kind"] != "url":
            ctx.violation("no-url:%s" % g["kind"], "reading a remote-only asset with fetching disabled did not yield the remote URL (%s)" % g, case)
        elif legal and g["url"] != x["url"]:
            ctx.violation("url-differs:%s" % ("+".join(special) or "plain"), "extracted URL %r differs from the embedded %r" % (g["url"], x["url"]), case)
        elif not legal and not (g["url"] == x["url"] or g.get("norm_equal")):
            ctx.violation("url-differs-normalised:%s" % ("+".join(special) or "other"), "extracted URL %r is not equivalent to the embedded %r" % (g["url"], x["url"]), case)
        if o["lost"]:
            ctx.violation("xmp-property-lost:%s" % x["format"], "embedding changed pre-existing XMP properties: %s" % o["lost"][:3], case)
        if o["had_xmp"] and not o["xmp_after"]:
            ctx.violation("xmp-packet-lost:%s" % x["format"], "the XMP packet is gone after embedding", case)
    ctx.cov["traces_validated_against_impl"] += len(recs)
    ctx.cov["evaluations"] = len(recs)
    ctx.cov["distinct_nontrivial"] = sum(1 for x in recs if set(x["tokens"]) - {"plain"})
    ctx.cov["rule"] = "URL class sequences of length <=3 over 13 classes exported by TLC, concretised randomly, x formats %s (quick: all length<=2 + sample, spread over formats); non-trivial = contains a non-plain class" % fmts
    ctx.sample({"format": recs[0]["format"], "url": recs[0]["url"], "got": recs[0]["obs"].get("got")})
    sp = [x for x in recs if "amp" in x["tokens"]]
    if sp:
        ctx.sample({"format": sp[0]["format"], "url": sp[0]["url"], "got": sp[0]["obs"].get("got")})
