"""C06 -- certificate profile violations make the manifest invalid (spec: CertProfile; replay on generated certificates)."""
import json, os, shutil, datetime
from lib.vcheck import *
from lib import pkikit as K

BASE = "basicConstraints=critical,CA:FALSE\nkeyUsage=critical,digitalSignature\nextendedKeyUsage=emailProtection\nsubjectKeyIdentifier=hash\nauthorityKeyIdentifier=keyid\n"


def stamp(dt):
    return dt.strftime("%Y%m%d%H%M%SZ")


def make(d, rule, rk, rc):
    """returns (leaf_pem, p8, alg, chain_pems) for a leaf violating `rule` (None = conforming)"""
    now = datetime.datetime.utcnow()
    kind, alg, ext, kw = "ec256", "es256", BASE, {}
    if rule == "ca":
        ext = BASE.replace("CA:FALSE", "CA:TRUE")
    elif rule == "no-ds-keyusage":
        ext = BASE.replace("digitalSignature", "keyEncipherment")
    elif rule == "certsign-keyusage":
        ext = BASE.replace("digitalSignature", "digitalSignature,keyCertSign")
    elif rule == "no-eku":
        ext = BASE.replace("extendedKeyUsage=emailProtection\n", "")
    elif rule == "any-eku":
        ext = BASE.replace("emailProtection", "anyExtendedKeyUsage")
    elif rule == "critical-unknown":
        ext = BASE + "1.2.3.4.5.6.7=critical,ASN1:UTF8String:vh\n"
    elif rule == "expired":
        kw = {"start": stamp(now - datetime.timedelta(days=30)), "end": stamp(now - datetime.timedelta(days=1))}
    elif rule == "not-yet-valid":
        kw = {"start": stamp(now + datetime.timedelta(days=1)), "end": stamp(now + datetime.timedelta(days=30))}
    elif rule == "v1":
        ext = ""
    elif rule == "weak-rsa":
        kind, alg = "rsa1024", "ps256"
    elif rule == "weak-rsa-2047":
        kind, alg = "rsa2047", "ps256"
    elif rule == "sig-alg":
        kw = {"digest": "-sha1"}
    elif rule == "curve":
        kind = "ec224"
    name = "leaf_" + (rule or "ok")
    if rule == "self-signed":
        lk, lc = K.selfsigned(d, name, "VH Self", kind="ec256", ext=BASE, days=365)
        p8 = os.path.join(d, name + ".p8")
        K.run(["pkcs8", "-topk8", "-nocrypt", "-in", lk, "-out", p8])
        return lc, p8, alg, [lc]
    lk, lc, p8 = K.issue(d, name, "VH " + name, rk, rc, kind=kind, ext=ext, **kw)
    return lc, p8, alg, [lc]


def run(ctx):
    ctx.level = "model_checking"
    ctx.assumptions += ["certificates are generated with the openssl CLI (%s), each violating exactly one rule, plus conforming controls (EC P-256 / emailProtection, documentSigning EKU, Ed25519, RSA-PSS 2048)" % K.OPENSSL,
                        "a violating certificate is signed in through a Signer whose first certs() answer (the one cose_sign uses for its own profile check) is a conforming decoy; signature and x5chain use the real credential",
                        "rules that the CLI cannot produce (issuer/subject unique IDs) or that cannot be signed with (keys the SDK's signer refuses) are listed as not driven in the evidence; the time-stamp interplay of the validity rule is C36's subject",
                        "reads use the generated root as trust anchor with verify_trust on"]
    r = tlc_expect_ok(tlc("MC_CertProfile", "MC_CertProfile.cfg", name="mc_certprofile", workers=4, timeout=600), "MC CertProfile")
    ctx.add_tlc(r)
    vecs = tlc_expect_ok(tlc("MC_CertProfile", "MC_CertProfile_emit.cfg", name="certprofile_emit", workers=2, timeout=600, coverage=False), "emit").printed("VEC")
    if len(vecs) != 15:
        raise ToolError("expected 15 single-rule vectors, got %d" % len(vecs))
    d = ctx.path("pki")
    shutil.rmtree(d, ignore_errors=True); os.makedirs(d)
    try:
        rk, rc = K.selfsigned(d, "root", "VH Root")
    except K.KitError as e:
        raise ToolError("root generation failed: %s" % e)
    root_pem = open(rc).read()
    read_settings = {"trust": {"trust_anchors": root_pem}, "verify": {"verify_trust": True}}
    runs, meta, not_driven = [], [], []
    def add(rule, files, label):
        lc, p8, alg, chain = files
        runs.append({"id": len(runs), "chain": K.cat(chain, os.path.join(d, "chain_%s.pem" % label)), "key": p8, "alg": alg, "decoy": True,
                     "sign_settings": {"verify": {"verify_after_sign": False, "verify_trust": False}}, "reads": [{"name": "r", "settings": read_settings}]})
        meta.append((rule, label))
    for v in vecs:
        rule = v["violated"][0] if v["violated"] else None
        if rule == "unique-ids":
            not_driven.append("unique-ids (cannot be generated with the openssl CLI)")
            continue
        try:
            add(v, make(d, rule, rk, rc), rule or "ok")
        except K.KitError as e:
            not_driven.append("%s (generation failed: %s)" % (rule, str(e)[:80]))
    # the key-size rule at its boundary: one bit short of 2048
    try:
        add({"violated": ["weak-rsa"], "verdict": "invalid", "code": "signingCredential.invalid"}, make(d, "weak-rsa-2047", rk, rc), "weak-rsa-2047")
    except K.KitError as e:
        not_driven.append("weak-rsa-2047 (generation failed: %s)" % str(e)[:80])
    # further conforming controls
    try:
        for label, kind, alg, ext in (("ok-docsign", "ec256", "es256", BASE.replace("emailProtection", "1.3.6.1.5.5.7.3.36")), ("ok-ed25519", "ed25519", "ed25519", BASE), ("ok-rsa2048", "rsa2048", "ps256", BASE), ("ok-ec384", "ec384", "es384", BASE)):
            lk, lc, p8 = K.issue(d, "leaf_" + label, "VH " + label, rk, rc, kind=kind, ext=ext, digest="-sha256" if kind != "ed25519" else None)
            add({"violated": [], "verdict": "ok", "code": "none"}, (lc, p8, alg, [lc]), label)
    except K.KitError as e:
        raise ToolError("control generation failed: %s" % e)
    p = vh(["pki-run"], stdin="\n".join(json.dumps(x) for x in runs), timeout=6000)
    outs = [json.loads(l) for l in p.stdout.splitlines() if l.strip()]
    if len(outs) != len(runs):
        raise ToolError("pki-run returned %d results for %d certificates" % (len(outs), len(runs)))
    driven = 0
    for (v, label), o in zip(meta, outs):
        case = {"rule": label, "model": v, "result": o}
        if o.get("panic"):
            ctx.violation("panic:%s" % label, "panic while signing / reading with certificate %s: %s" % (label, o["panic"]), case)
            continue
        if o.get("sign") != "ok":
            if v["verdict"] == "ok":
                ctx.violation("conforming-refused:%s" % label, "a conforming certificate cannot be signed with: %s %s" % (o.get("sign"), o.get("detail")), case)
            else:
                not_driven.append("%s (signing refused: %s)" % (label, o.get("sign")))
            continue
        driven += 1
        read = o["reads"][0]["read"]
        if "active" not in read:
            if v["verdict"] == "ok":
                ctx.violation("conforming-unreadable:%s" % label, "asset signed with a conforming certificate cannot be read: %s" % read, case)
            continue          # an error is not Valid
        codes = [c for c in read["active"] if c[0] == "failure"]
        cred_fail = [c[1] for c in codes if c[1].startswith("signingCredential.") and c[1] != "signingCredential.untrusted"]
        state = read.get("state")
        if v["verdict"] == "ok":
            if cred_fail:
                ctx.violation("conforming-flagged:%s" % label, "a conforming certificate is flagged: %s" % cred_fail, case)
            if state != "Trusted":
                ctx.violation("conforming-not-trusted:%s:%s" % (label, state), "a conforming certificate under its anchor is reported %s: %s" % (state, codes), case)
        else:
            if state in ("Valid", "Trusted"):
                ctx.violation("violation-accepted:%s" % label, "a certificate violating rule %s is reported %s" % (label, state), case)
            if not cred_fail:
                ctx.violation("violation-without-code:%s" % label, "a certificate violating rule %s yields no signingCredential failure code (failures: %s)" % (label, [c[1] for c in codes]), case)
            elif v["code"] == "signingCredential.expired" and "signingCredential.expired" not in cred_fail:
                ctx.drift_note("CertProfile", "rule %s reported as %s rather than signingCredential.expired" % (label, cred_fail))
    ctx.cov["traces_validated_against_impl"] += driven
    ctx.cov["evaluations"] = driven
    ctx.cov["distinct_nontrivial"] = sum(1 for (v, _), o in zip(meta, outs) if v["verdict"] != "ok" and o.get("sign") == "ok")
    ctx.cov["not_driven"] = not_driven
    ctx.cov["rule"] = "one certificate per profile rule (14 rules) + 5 conforming controls; driven = signed and read (%d); not driven: %s" % (driven, not_driven)
    ctx.sample({"rules": [m[1] for m in meta][:8]})
