"""C14 -- reserved-size padding is exact and signing succeeds for any ample reserve (spec: CborPad)."""
import json
from lib.vcheck import *


def windows(quick, far=True):
    w = set(range(0, 45)) | set(range(250, 275)) | {300, 1000, 5000, 20000}
    if far:
        w |= set(range(65530, 65560)) | {66000, 70000}
    if not quick:
        w |= set(range(45, 250)) | set(range(275, 700, 3)) | set(range(65500, 65600)) | set(range(700, 65500, 997))
    return sorted(w)


def run(ctx):
    ctx.level = "model_checking"
    ctx.assumptions += ["CBOR sizes: definite-length byte strings with 1/2/3/5-byte headers; unprotected headers with >= 23 entries (map header growth) are not exercised: they do not occur in SDK-produced signatures",
                        "minimum promised gap = 7 bytes (the SDK's PAD_OFFSET); gaps 1..6 are allowed to fail"]
    # 1. MC: design lemmas over every gap 0..70000 (the statement is satisfiable; a single pad skips exactly 4 gaps;
    #    the mirror succeeds exactly on 0 and 263..65542)
    r = tlc_expect_ok(tlc("MC_CborPad", "MC_CborPad.cfg", workers=4, timeout=600, coverage=False), "MC CborPad")
    ctx.add_tlc(r)
    if not ctx.quick:
        # unbounded: TLAPS proves SkippedExactly and Fillable for every natural gap (TLC: 0..70000)
        nob = tlapm_prove("CborPad_proofs", ["CborPad"], threads=12)
        ctx.assumptions.append("thorough tier: tlapm discharged %d proof obligations of CborPad_proofs (SkippedExactlyAll, FillableAll over all natural gaps)" % nob)
    m = tlc("MC_CborPad", "MC_CborPad_mono.cfg", name="c14mono", workers=4, timeout=600, coverage=False)
    if not m.violated:
        ctx.drift_note("CborPad", "mirror no longer violates monotonicity (CodedMonotone holds)")
    # 2. O: sweeps through the real pad_cose_sig (hook), DataHash::pad_to_size, and end-to-end Builder::sign
    gaps = windows(ctx.quick)
    shapes = [{"sig": 64, "chain": 1000}, {"sig": 96, "chain": 1500}, {"sig": 132, "chain": 1800}, {"sig": 256, "chain": 3000},
              {"sig": 384, "chain": 3200}, {"sig": 512, "chain": 3400}, {"sig": 64, "chain": 700},
              {"sig": 3, "chain": 1}, {"sig": 23, "chain": 22}, {"sig": 255, "chain": 253}]
    for s in shapes:
        s.setdefault("extra", 0)
        s["ends"] = gaps
    p = vh(["c14-cose"], stdin="\n".join(json.dumps(s) for s in shapes))
    recs = [json.loads(l) for l in p.stdout.splitlines() if l.strip()]
    dgaps = windows(ctx.quick, far=True)
    dshapes = [{"excl": 1, "name_len": 8, "ends": dgaps}, {"excl": 10, "name_len": 12, "ends": dgaps[:80]}]
    p = vh(["c14-datahash"], stdin="\n".join(json.dumps(s) for s in dshapes), timeout=3000)
    recs += [json.loads(l) for l in p.stdout.splitlines() if l.strip()]
    algs = ["es256", "ps256"] if ctx.quick else ["es256", "es384", "es512", "ps256", "ps384", "ps512", "ed25519"]
    egaps = [-1, 0, 1, 6, 7, 8, 29, 100, 261, 262, 263, 264, 265, 300, 1000, 10000, 65542, 65543, 65545, 70000]
    if not ctx.quick:
        egaps = sorted(set(egaps) | set(range(20, 40)) | set(range(255, 275)) | set(range(65536, 65550)))
    for a in algs:
        p = vh(["c14-e2e", "--alg", a], stdin=json.dumps({"gaps": egaps}))
        recs += [json.loads(l) for l in p.stdout.splitlines() if l.strip()]
    slim = [{"kind": x["kind"], "cur": x["cur"], "obs": [o[:4] if x["kind"] == "e2e" else o[:3] for o in x["obs"]]} for x in recs]
    verdicts = judge_with_tlc(ctx, "Oracle_CborPad", "Oracle_CborPad.cfg", slim)
    n_obs = 0
    nontriv = 0
    for x, v in zip(recs, verdicts):
        n_obs += len(x["obs"])
        nontriv += sum(1 for o in x["obs"] if o[0] > 0)
        tag = x["kind"] + (":" + x["alg"] if "alg" in x else "")
        for i in v["inexact"]:
            o = x["obs"][i - 1]
            ctx.violation("inexact:%s" % x["kind"], "padded size %s differs from the reserved size %s" % (o[2], x["cur"] + o[0]), {"sweep": tag, "cur": x["cur"], "obs": o, "shape": x.get("shape")})
        for i in v["panics"]:
            ctx.violation("panic:%s" % x["kind"], "padding panicked", {"sweep": tag, "cur": x["cur"], "obs": x["obs"][i - 1], "shape": x.get("shape")})
        for i in v["notvalid"]:
            ctx.violation("notvalid:e2e", "signed with an ample reserve but does not read back Valid", {"sweep": tag, "cur": x["cur"], "obs": x["obs"][i - 1]})
        for i in v["nonmono"]:
            o = x["obs"][i - 1]
            cls = "gap-below-263" if o[0] < 263 else ("gap-above-65542" if o[0] > 65542 else "mid")
            ctx.violation("size-error:%s:%s" % (x["kind"], cls),
                          "size error for a reserve %d bytes above the unpadded size although a smaller reserve succeeds" % o[0],
                          {"sweep": tag, "cur": x["cur"], "obs": o, "shape": x.get("shape")})
        if v["drift"]:
            ctx.drift_note("CborPad", "%s: %d observations differ from the mirror CodedCose (e.g. gap %s)" % (tag, len(v["drift"]), x["obs"][v["drift"][0] - 1][:2]))
    ctx.cov["traces_validated_against_impl"] += len(recs)
    ctx.cov["evaluations"] = n_obs
    ctx.cov["distinct_nontrivial"] = nontriv
    ctx.cov["rule"] = ("sweeps of the reserve gap (reserved - unpadded size) in windows around the CBOR header boundaries 24/256/65536 for %d COSE shapes via the hook, "
                       "2 data-hash shapes via DataHash::pad_to_size, and end-to-end Builder::sign with reserve-overriding signers for %s; non-trivial = gap > 0" % (len(shapes), ",".join(algs)))
    ctx.sample({"sweep": recs[0]["kind"], "cur": recs[0]["cur"], "obs": recs[0]["obs"][:12]})
    ctx.sample({"sweep": "e2e " + recs[-1].get("alg", ""), "cur": recs[-1]["cur"], "obs": recs[-1]["obs"][:10]})
