"""C18 -- JUMBF manifest stores round-trip canonically (spec: JumbfCodec; byte round trips of real stores through the SDK codec)."""
import json
from lib.vcheck import *


def run(ctx):
    ctx.level = "exploration"
    ctx.assumptions += ["the TLA+ part decides the framing (sizes, nesting) of the model codec and, as an oracle, of the header lists of real stores before and after the SDK's round trip; byte identity itself is decided by comparing bytes (an encode/decode fidelity question, for which the spec is not the deciding tool)",
                        "stores: 6 formats x {plain, compressed} x {single manifest, edit with a redaction, update manifest} signed by the harness, plus signed fixtures incl. a cloud .c2pa sidecar",
                        "parser-accepted = Store::from_jumbf returns Ok and logs no failure status (it runs in continue-when-possible mode and returns Ok for stores in which it skipped a broken manifest)",
                        "mutants: single bit / byte changes anywhere, in box payloads, in description boxes, and swaps of equal-sized sibling boxes; size-changing structural mutants are not generated"]
    r = tlc_expect_ok(tlc("MC_JumbfCodec", "MC_JumbfCodec.cfg", name="mc_jumbf", workers=8, timeout=900, coverage=False), "MC JumbfCodec")
    ctx.add_tlc(r)
    w = tlc("MC_JumbfCodec", "MC_JumbfCodec_W.cfg", name="mc_jumbf_w", workers=2, timeout=300, coverage=False)
    if not (w.violated and "W_Rejects" in w.out):
        raise ToolError("vacuity: the perturbed header lists are never rejected")
    n = 1500 if ctx.quick else 60000
    p = vh(["c18-run", "--seed", ctx.seed, "--mutants", n], timeout=20000)
    recs = [json.loads(l) for l in p.stdout.splitlines() if l.strip()]
    end = recs[-1]
    if end.get("e") != "end" or end["stores"] < 20:
        raise ToolError("store production failed: %s" % end)
    heads = [x for x in recs if x["e"] == "headers"]
    verdicts = judge_with_tlc(ctx, "Oracle_Jumbf", "Oracle_Jumbf.cfg", [{"w": x["w"]} for x in heads], chunk=500, timeout=600)
    for x, v in zip(heads, verdicts):
        if not v["framed"] or not x["covered"]:
            ctx.violation("framing:%s" % x["which"], "the %s store %s is not well framed (box sizes do not add up / do not cover the store)" % (x["which"], x["store"]), {"store": x["store"], "which": x["which"], "boxes": len(x["w"])})
    nacc = 0
    for x in recs:
        if x["e"] == "produced":
            if x.get("error"):
                ctx.violation("produced-store-rejected:%s" % x["store"].split(":")[0], "a store the SDK produced is not parsed back: %s" % x["error"], x)
            elif not x["identical"]:
                ctx.violation("not-identical:%s" % x.get("diff_box"), "parsing and re-serialising the %s store changes bytes (first difference at %s in %s, length %d -> %d)" % (x["store"], x["first_diff"], x.get("diff_box"), x["len"], x["relen"]), x)
        elif x["e"] == "mutant":
            if (x.get("error") or "").startswith("panic"):
                ctx.violation("panic", "the store parser / serialiser panicked on a mutant: %s" % x["error"][:200], x)
            if x.get("accepted"):
                nacc += 1
                if x.get("reparse_error"):
                    ctx.violation("reserialised-not-parsable:%s" % x.get("mutated_box"), "a mutant of %s is accepted without any logged failure, but its re-serialisation is rejected: %s" % (x["of"], x.get("detail")), x)
                elif not x.get("fixed_point"):
                    ctx.violation("not-a-fixed-point:%s" % x["kind"], "re-serialising a parser-accepted mutant of %s twice gives different bytes" % x["of"], x)
    if nacc < n // 10:
        raise ToolError("vacuity: only %d of %d mutants were accepted by the parser" % (nacc, n))
    ctx.cov["traces_validated_against_impl"] += len(heads) + n
    ctx.cov["evaluations"] = end["stores"] + n
    ctx.cov["distinct_nontrivial"] = nacc
    ctx.cov["stores"] = end["stores"]
    ctx.cov["rule"] = "%d produced stores (byte identity) + %d seeded mutants, of which %d were accepted without a logged failure (fixed point); non-trivial = accepted mutants" % (end["stores"], n, nacc)
    ctx.sample({"store": heads[0]["store"], "boxes": len(heads[0]["w"]), "first_headers": heads[0]["w"][:4]})
