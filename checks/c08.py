"""C08 -- same-size manifest replacement only changes the reported manifest region (spec: Container)."""
from lib.vcheck import *
from checks.containercommon import pipeline, report


def run(ctx):
    ctx.level = "model_checking"
    ctx.assumptions += ["the manifest region is the one the handler reports (hook get_object_locations_from_stream); containment of the store is checked by marker position; BMFF handlers report no region and are skipped"]
    recs, findings, setup_errors = pipeline(ctx)
    report(ctx, "C08", findings, setup_errors)
    ctx.cov["same_size_replacements"] = sum(1 for x in recs for s in x.get("steps", []) if "samesize_outside" in s)
