"""Shared pipeline for C38 / C39 / C22 / C40: MC of Workflow, history export, replay in one process, classification."""
import json, re
from lib.vcheck import *

_memo = {}


def export(cfg, name):
    r = tlc_expect_ok(tlc("MC_Workflow", cfg, name=name, workers=4, timeout=900, coverage=False), "emit")
    return r.printed("VEC")


def twins(v):
    """the same history with every flavour sync / with no archive round trips (same id: same formats, relationships, thumbnails)"""
    s = dict(v, ops=[dict(o, fl="sync") for o in v["ops"]], twin="sync")
    p = dict(v, ops=[dict(o, arch=0) if o["op"] == "S" else o for o in v["ops"]], twin="plain")     # (for reads, arch encodes the trust profile)
    return s, p



def diff_paths(v, twin, i, field):
    """re-run a history and its twin with full texts and name the parts of the report that differ (indices and names dropped)"""
    try:
        pr = vh(["wf-run", "--no-fresh", "--full"], stdin="\n".join(json.dumps({"id": x["id"], "ops": x["ops"]}) for x in (v, twin)), timeout=600)
        a, b = [json.loads(l) for l in pr.stdout.splitlines() if l.strip()]
        key = "content_text" if field == "content" else "norm_text"
        ja, jb = json.loads(a["assets"][i][key]), json.loads(b["assets"][i][key])
    except Exception:
        return "?"
    out = set()
    def walk(x, y, path):
        if isinstance(x, dict) and isinstance(y, dict):
            for k in set(x) | set(y):
                kk = re.sub(r"<m:[^>]*>", "<m>", k)
                if k not in x or k not in y:
                    out.add(path + "." + kk + ("(missing)" if k not in x else "(extra)"))
                else:
                    walk(x[k], y[k], path + "." + kk)
        elif isinstance(x, list) and isinstance(y, list):
            if len(x) != len(y):
                out.add(path + "[len]")
            for p, q in zip(x, y):
                walk(p, q, path + "[]")
        elif x != y:
            out.add(path)
    walk(ja, jb, "")
    return ",".join(sorted(out))[:160] or "?"


def pipeline(ctx, fresh=True):
    if "res" in _memo:
        return _memo["res"]
    r = tlc_expect_ok(tlc("MC_Workflow", "MC_Workflow.cfg" if ctx.quick else "MC_Workflow_thorough.cfg", name="mc_workflow", workers=8, timeout=3000), "MC Workflow")
    ctx.add_tlc(r)
    cov = r.coverage()
    for a in ("DoSign", "DoTamper", "DoRead", "DoLegacy"):
        if cov.get(a, (0, 0))[1] == 0:
            raise ToolError("vacuity: %s never taken" % a)
    for w in ("W_Chain", "W_TamperedIng"):
        x = tlc("MC_Workflow", "MC_Workflow_%s.cfg" % w, name="mc_workflow_" + w, workers=4, timeout=600, coverage=False)
        if not (x.violated and ("Invariant %s is violated" % w) in x.out):
            raise ToolError("vacuity witness %s not reachable" % w)
    vecs = export("MC_Workflow_emit.cfg", "wf_emit")
    if len(vecs) < 20000:
        raise ToolError("history export too small: %d" % len(vecs))
    ctx.rng.shuffle(vecs)
    # prefer histories that exercise something: an ingredient, an archive round trip, an async call, a tamper
    def weight(v):
        ops = v["ops"]
        return sum(1 for o in ops if o["op"] == "S" and o["ings"]) + sum(1 for o in ops if o["arch"] and o["op"] == "S") + sum(1 for o in ops if o["op"] == "T") + (1 if any(o["op"] == "L" for o in ops) else 0)
    n = 300 if ctx.quick else 2400
    # half uniformly from all histories, half from the histories that combine the most features
    uniform = vecs[: n // 2]
    rest = sorted(vecs[n // 2:], key=lambda v: -weight(v))
    head = rest[: n * 2]
    ctx.rng.shuffle(head)
    sample = uniform + head[: n - n // 2]
    # always include the histories in which an asset that lists the same ingredient twice is read asynchronously by a context
    # that lacks the signer's anchors (the current validation of the ingredient then differs from the recorded one)
    def dup_lean_async(v):
        ops = v["ops"]
        made = [o for o in ops if o["op"] in ("S", "T")]
        for o in ops:
            if o["op"] == "R" and o["fl"] == "async" and o["arch"] == 1 and o["i"] <= len(made):
                m = made[o["i"] - 1]
                if m["op"] == "S" and len(m["ings"]) == 2 and m["ings"][0] == m["ings"][1] and m["ings"][0] != 0:
                    return True
        return False
    have = {json.dumps(v["ops"]) for v in sample}
    directed = [v for v in vecs if dup_lean_async(v) and json.dumps(v["ops"]) not in have]
    sample += directed[:40 if ctx.quick else 400]
    # histories with the claim version and the ingredient entry point chosen by the model (Variants = TRUE): three signings each.
    # Preferred: legacy chains -- a version-2 manifest over a version-1 manifest that has a signed ingredient of its own, so that
    # part of the chain is held together by a legacy ingredient assertion only
    r2 = tlc_expect_ok(tlc("MC_Workflow", "MC_Workflow_variants.cfg", name="mc_workflow_variants", workers=8, timeout=1500), "MC Workflow (variants)")
    ctx.add_tlc(r2)
    x = tlc("MC_Workflow", "MC_Workflow_W_LegacyChain.cfg", name="mc_workflow_W_LegacyChain", workers=4, timeout=600, coverage=False)
    if not (x.violated and "Invariant W_LegacyChain is violated" in x.out):
        raise ToolError("vacuity witness W_LegacyChain not reachable")
    var = export("MC_Workflow_variants_emit.cfg", "wf_variants_emit")
    if len(var) < 50000:
        raise ToolError("variant history export too small: %d" % len(var))
    def legacy_chain(v):
        ops = v["ops"]
        for j, o in enumerate(ops):
            if o["cv"] == 2:
                for a in o["ings"]:
                    if a and ops[a - 1]["cv"] == 1 and any(ops[a - 1]["ings"]):
                        return True
        return False
    ctx.rng.shuffle(var)
    legacy = [v for v in var if legacy_chain(v)]
    other = [v for v in var if not legacy_chain(v)]
    if len(legacy) < 100:
        raise ToolError("too few legacy chains in the export: %d" % len(legacy))
    sample += legacy[:24 if ctx.quick else 300] + other[:12 if ctx.quick else 300]
    # longer histories and longer archive chains from simulation (thorough)
    if not ctx.quick:
        try:
            sim = tlc("MC_Workflow", "MC_Workflow_sim.cfg", name="wf_sim", workers=1, timeout=900, coverage=False, simulate=600, depth=7, seed=int(ctx.seed) % 100000).printed("VEC")
        except Exception:
            sim = []
        seen = set()
        extra = []
        for v in sim:
            k = json.dumps(v["ops"])
            if k not in seen:
                seen.add(k)
                extra.append(v)
        ctx.rng.shuffle(extra)
        sample.extend(extra[:400])
    for i, v in enumerate(sample):
        v["id"] = i
    runs = []
    for v in sample:
        runs.append(dict(v, twin="self"))
        s, p = twins(v)
        if any(o["fl"] == "async" for o in v["ops"]):
            runs.append(s)
        if any(o["arch"] for o in v["ops"] if o["op"] == "S"):
            runs.append(p)
    # the histories are independent: split them over harness processes (each result keeps the order of its chunk)
    import concurrent.futures as cf
    nproc = 8
    chunks = [runs[i::nproc] for i in range(nproc)]
    def one(chunk):
        if not chunk:
            return []
        pr = vh(["wf-run"] + ([] if fresh else ["--no-fresh"]), stdin="\n".join(json.dumps({"id": x["id"], "ops": x["ops"], "fresh": x["twin"] == "self" and x["id"] < 500}) for x in chunk), timeout=20000)
        return [json.loads(l) for l in pr.stdout.splitlines() if l.strip()]
    with cf.ThreadPoolExecutor(max_workers=nproc) as ex:
        parts = list(ex.map(one, chunks))
    outs = [None] * len(runs)
    for ci, part in enumerate(parts):
        if len(part) != len(chunks[ci]):
            raise ToolError("replay returned %d results for %d histories" % (len(part), len(chunks[ci])))
        for j, o in enumerate(part):
            outs[ci + j * nproc] = o
    if len(outs) != len(runs):
        raise ToolError("replay returned %d results for %d histories" % (len(outs), len(runs)))
    findings = []   # (property, key, what, case)
    by = {}
    for x, o in zip(runs, outs):
        by[(x["id"], x["twin"])] = (x, o)
    nassets = 0
    for v in sample:
        x, o = by[(v["id"], "self")]
        case0 = {"ops": v["ops"], "id": v["id"]}
        if not o["completed"]:
            bad = [s for s in o["steps"] if not s.get("ok", True)][0]
            op = v["ops"][len(o["steps"]) - 1]
            err = (bad.get("err") or bad.get("panic") or "?")
            stage = err.split(":")[0]
            prop = "C22" if stage in ("to_archive", "with_archive") or (op.get("arch") and stage in ("sign", "resource")) else ("C39" if stage.startswith("ingredient") else ("C40" if op.get("fl") == "async" else "C38"))
            # a failure that the plain / sync twin does not have belongs to the archive / the async path
            if stage == "sign" and "ingredient.manifest.missing" in err and prop != "C39":
                # the signer's own validation found an ingredient manifest missing from the store it has just built
                findings.append(("C39", "sign-refused:ingredient.manifest.missing", "history step %d (%s): the new store lacks a manifest of an ingredient's chain: %s" % (len(o["steps"]), json.dumps(op), err[:200]), dict(case0, step=bad)))
            findings.append((prop, "operation-failed:%s:%s" % (stage, re.sub(r"[^A-Za-z]+.*", "", err.split(":", 1)[1])[:40] if ":" in err else ""), "history step %d (%s) failed: %s" % (len(o["steps"]), json.dumps(op), err[:200]), dict(case0, step=bad)))
            continue
        for i, (d, p) in enumerate(zip(o["assets"], v["pred"])):
            nassets += 1
            case = dict(case0, asset=i + 1, observed={k: d.get(k) for k in ("state", "nman", "title", "ings", "failures", "err", "panic")}, predicted=p)
            if "err" in d or "panic" in d:
                findings.append(("C38", "read-failed:%s" % (d.get("err") or "panic"), "asset %d cannot be read: %s" % (i + 1, d.get("err") or d.get("panic")), case))
                continue
            head_ok = d["state"] == p["state"] and d["nman"] == p["nman"] and d.get("title") == "A%d" % p["title"]
            ings_obs = [(x["has_manifest"], x["ok"], x.get("active_title")) for x in d.get("ings", [])]
            ings_exp = [(x["has_manifest"], x["ok"], ("A%d" % x["title"]) if x["title"] else None) for x in p["ings"]]
            made = next((s for s in o["steps"] if s.get("asset") == i + 1), {})
            if not head_ok or ings_obs != ings_exp:
                # attribute: does the plain / sync twin agree with the prediction?
                prop = "C39" if ings_obs != ings_exp and head_ok else "C38"
                for tw, pp in (("plain", "C22"), ("sync", "C40")):
                    t = by.get((v["id"], tw))
                    if t and t[1]["completed"] and i < len(t[1]["assets"]):
                        td = t[1]["assets"][i]
                        if td.get("state") == p["state"] and td.get("nman") == p["nman"] and [(x["has_manifest"], x["ok"]) for x in td.get("ings", [])] == [(x["has_manifest"], x["ok"]) for x in p["ings"]]:
                            prop = pp
                what = "state %s/%s manifests %s/%s ingredients %s/%s (observed/predicted)" % (d["state"], p["state"], d["nman"], p["nman"], ings_obs, ings_exp)
                kind = "ingredient-view" if head_ok else ("state" if d["state"] != p["state"] else "manifest-count" if d["nman"] != p["nman"] else "title")
                findings.append((prop, "prediction:%s:%s" % (kind, made.get("op", "?")), "asset %d of the history is reported differently from what its construction determines: %s" % (i + 1, what), case))
            if made.get("op") == "S" and d.get("thumb") != made.get("thumb_supplied"):
                findings.append(("C22" if made.get("arch") else "C38", "thumbnail:%s" % ("lost" if made.get("thumb_supplied") else "appeared"), "thumbnail supplied=%s reported=%s after %d archive round trips" % (made.get("thumb_supplied"), d.get("thumb"), made.get("arch", 0)), case))
            # twins: the full normalised report must be equal
            for tw, pp, label, field in (("plain", "C22", "restore-differs", "content"), ("sync", "C40", "async-differs", "norm")):
                t = by.get((v["id"], tw))
                if t and t[1]["completed"] and i < len(t[1]["assets"]) and t[1]["assets"][i].get(field) != d.get(field):
                    where = diff_paths(v, t[0], i, field)
                    findings.append((pp, "%s:%s" % (label, where), "asset %d: the normalised report differs from the one produced %s (differing parts: %s; format %s)" % (i + 1, "without archive round trips" if tw == "plain" else "through the synchronous entry points", where, made.get("fmt", "?")), dict(case, twin=tw, differs_at=where)))
        ts = by.get((v["id"], "sync"))
        if ts and ts[1]["completed"] and len(ts[1]["steps"]) == len(o["steps"]):
            for s1, s2 in zip(o["steps"], ts[1]["steps"]):
                if s1["op"] == "R" and s2["op"] == "R" and s1.get("fl") == "async" and s1.get("norm") != s2.get("norm"):
                    findings.append(("C40", "async-read-differs:profile%s" % s1.get("profile"), "reading asset %d through with_stream_async reports something else than with_stream (same history, same context settings)" % s1["i"], dict(case0, step={k: s1.get(k) for k in ("i", "fl", "profile", "state")}, sync_state=s2.get("state"))))
        for f in o["ing_facts"]:
            if f["a"] > 0:
                d = o["assets"][f["parent"] - 1]
                case = dict(case0, parent=f["parent"], ingredient=f)
                if not f.get("carried"):
                    findings.append(("C39", "manifests-not-carried:%s" % f["rel"], "the parent's store does not contain the ingredient's manifests byte for byte", case))
                iv = (d.get("ings") or [])[f["k"] - 1] if len(d.get("ings") or []) >= f["k"] else None
                if iv is not None and sorted(set(iv["failures"])) != sorted(set(f["standalone_failures"])):
                    findings.append(("C39", "ingredient-failures-differ", "recorded failure codes %s differ from the stand-alone read %s" % (iv["failures"], f["standalone_failures"]), case))
        for rr in o["rereads"]:
            if not rr["sync_same"]:
                findings.append(("C38", "reread-differs:sync", "asset %d read again at the end of the history gives a different report" % rr["i"], dict(case0, asset=rr["i"])))
            if not rr["async_same"]:
                findings.append(("C40", "reread-differs:async", "asset %d read through with_stream_async gives a different report than with_stream" % rr["i"], dict(case0, asset=rr["i"])))
        if isinstance(o["fresh"], list):
            for fr in o["fresh"]:
                if not fr["same"]:
                    findings.append(("C38", "fresh-process-differs", "asset %d read in a fresh process gives a different report" % fr["i"], dict(case0, asset=fr["i"])))
        elif o["fresh"] is not None:
            raise ToolError("fresh-process read failed: %s" % o["fresh"])
        # reads under a trust profile: the state comes from the reading context alone, and equal (asset, profile) reads agree
        seen_pf = {}
        for s in o["steps"]:
            if s["op"] == "R" and "err" not in (s.get("err") or {}) and s.get("state") is not None:
                kind = next((st for st in o["steps"] if st.get("asset") == s["i"]), {}).get("op")
                exp = "Invalid" if kind == "T" else ("Valid" if s.get("profile") == 1 else "Trusted")
                if s["state"] != exp:
                    findings.append(("C38", "profile-leak:%s-read-reports-%s" % ({0: "std", 1: "lean", 2: "rich"}.get(s.get("profile"), "?"), s["state"]), "a read of asset %d under the %s trust profile reports %s (expected %s): settings of another context leaked" % (s["i"], {0: "standard", 1: "lean", 2: "rich"}.get(s.get("profile")), s["state"], exp), dict(case0, step={k: s.get(k) for k in ("i", "fl", "profile", "state")})))
                k2 = (s["i"], s.get("profile"))
                if k2 in seen_pf and seen_pf[k2] != s.get("norm"):
                    findings.append(("C38", "read-differs:same-profile", "two reads of asset %d under the same trust profile differ within one history" % s["i"], dict(case0, step={k: s.get(k) for k in ("i", "fl", "profile", "state")})))
                seen_pf.setdefault(k2, s.get("norm"))
        for s in o["steps"]:
            if s["op"] == "R" and not s["same_as_first"]:
                findings.append(("C40" if s["fl"] == "async" else "C38", "read-differs:%s" % s["fl"], "read of asset %d inside the history differs from its first read" % s["i"], dict(case0, step=s)))
    stats = {"with_profiles": sum(1 for v in sample if any(o["op"] == "R" and o["arch"] for o in v["ops"])), "histories": len(sample), "runs": len(runs), "assets_compared": nassets,
             "with_ingredients": sum(1 for v in sample if any(o["op"] == "S" and o["ings"] for o in v["ops"])),
             "with_archive": sum(1 for v in sample if any(o["arch"] for o in v["ops"] if o["op"] == "S")),
             "with_async": sum(1 for v in sample if any(o["fl"] == "async" for o in v["ops"])),
             "with_tamper": sum(1 for v in sample if any(o["op"] == "T" for o in v["ops"])),
             "with_legacy": sum(1 for v in sample if any(o["op"] == "L" for o in v["ops"])),
             "exported": len(vecs)}
    _memo["res"] = (sample, findings, stats)
    return _memo["res"]


def report(ctx, prop, focus):
    ctx.level = "model_checking"
    ctx.assumptions += ["histories are TLC's complete behaviours of spec Workflow (<= 3 operations exhaustively exported, sampled with preference for ingredients / archive / async / tamper; thorough adds simulated histories of <= 6 operations with <= 3 archive round trips)",
                        "formats, relationships and thumbnails are assigned by the harness from the history id (10 formats; tampered assets only in 6 formats with a safely flippable media byte)",
                        "reports are compared after renaming manifest labels by title and dropping UUIDs, instance ids, times, hashes and resource identifiers",
                        "signer ed25519 from fixture keys, async through an AsyncSigner wrapper on a current-thread tokio runtime"]
    # the fresh-process re-read of every asset is C38's question; the other three properties skip it
    sample, findings, stats = pipeline(ctx, fresh=(prop == "C38"))
    for p, key, what, case in findings:
        if p == prop:
            ctx.violation(key, what, case)
    ctx.cov["traces_validated_against_impl"] += stats["runs"]
    ctx.cov["evaluations"] = stats["assets_compared"]
    ctx.cov["distinct_nontrivial"] = stats[focus]
    ctx.cov.update({k: v for k, v in stats.items()})
    ctx.cov["rule"] = "one record per exported history replayed in one process; non-trivial for this property = histories %s" % focus.replace("_", " ")
    if sample:
        ctx.sample({"ops": sample[0]["ops"], "pred": sample[0]["pred"]})
