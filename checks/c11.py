"""C11 -- the reader's verdict does not depend on a wrong format hint (spec: Sniff)."""
import json
from lib.vcheck import *


def run(ctx):
    ctx.level = "model_checking"
    ctx.assumptions += ["family of a stream = the format it was signed as; 'magic' families are those whose leading bytes carry a signature (all but SVG and .c2pa)",
                        "hints: every string of Reader::supported_mime_types(), upper-case variants, common extensions, empty / generic / unknown strings"]
    r = tlc_expect_ok(tlc("Sniff", "MC_Sniff.cfg", workers=2, timeout=300, coverage=False), "MC Sniff")
    ctx.add_tlc(r)
    args = ["c11-replay"] + (["--formats", "jpeg,png,gif,tiff,webp,mp4,mp3,flac,svg"] if ctx.quick else [])
    p = vh(args, timeout=3000)
    recs = [json.loads(l) for l in p.stdout.splitlines() if l.strip()]
    n = 0
    for x in recs:
        if "setup_error" in x:
            ctx.violation("setup:%s" % x["format"], "could not sign the %s fixture: %s" % (x["format"], x["setup_error"]), x)
            continue
        n += x["hints"]
        if x["magic"] == "magic":
            for d in x["diffs"]:
                kind = "panic" if str(d["got_kind"]).startswith("panic") else "differs"
                ctx.violation("hint-dependent:%s:%s" % (x["format"], kind),
                              "reading a %s %s asset with hint %r gives %s/%s instead of %s/%s" % (x["variant"], x["format"], d["hint"], d["got_kind"], d["got_state"], d["base_kind"], d["base_state"]),
                              {"format": x["format"], "variant": x["variant"], "diff": d})
        else:
            for d in x["diffs"]:
                if str(d["got_kind"]).startswith("panic"):
                    ctx.violation("panic:%s" % x["format"], "reader panicked with hint %r" % d["hint"], {"format": x["format"], "variant": x["variant"], "diff": d})
    ctx.cov["traces_validated_against_impl"] += len(recs)
    ctx.cov["evaluations"] = n
    ctx.cov["distinct_nontrivial"] = sum(1 for x in recs if x.get("variant") in ("signed", "tampered"))
    ctx.cov["rule"] = "signed, tampered and unsigned assets of %d formats x %d hint strings; report + validation codes compared with the correct-hint read; non-trivial = asset carries a manifest" % (len(recs) // 3, recs[0]["hints"] if recs else 0)
    for x in recs[:2]:
        ctx.sample({k: x[k] for k in ("format", "magic", "variant", "hints", "base_kind", "base_state")} | {"n_diffs": len(x["diffs"])})
