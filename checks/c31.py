"""C31 -- the C API never crashes or double-frees on handle misuse (spec: HandleRegistry, trace validation)."""
import json
from lib.vcheck import *


def run(ctx):
    ctx.level = "model_checking"
    ctx.assumptions += ["API subset: constructors, borrowing setters/getters, consuming calls (context_builder_build, builder_with_definition, context_builder_set_signer) and the free functions; stream callbacks and sign/read calls are not driven",
                        "argument classes: right / wrong type / freed / NULL / foreign (pointer into harness-owned memory); each call sequence runs in a child process so a crash is data",
                        "registry events come from the H4 hook; real pointer values are renamed to small ids per sequence (address reuse keeps the id)"]
    r = tlc_expect_ok(tlc("HandleRegistry", "MC_HandleRegistry.cfg", workers=4, timeout=600), "MC HandleRegistry")
    ctx.add_tlc(r)
    cov = r.coverage()
    for a in ("Ctor", "Borrow", "Consume", "Free"):
        if cov.get(a, (0, 0))[1] == 0:
            raise ToolError("vacuity: action %s never taken" % a)
    if not ctx.quick:
        # unbounded: TLAPS proves TypeOK / NoInvalidDeref inductive and the step form of FreeOnce for every Addrs / Types
        nob = tlapm_prove("HandleRegistry_proofs", ["HandleRegistry"])
        ctx.assumptions.append("thorough tier: tlapm discharged %d proof obligations of HandleRegistry_proofs (Spec => []Inv for unbounded Addrs and Types; FreeOnceStep)" % nob)
    n, calls = (150, 30) if ctx.quick else (3000, 40)
    p = vh(["c31-drive", "--seed", ctx.seed, "--n", n, "--calls", calls], timeout=6000)
    raw = [json.loads(l) for l in p.stdout.splitlines() if l.strip()]
    # learn API type name -> registry type name from successful constructors
    tymap = {}
    last_track = {}
    for e in raw:
        if e["e"] == "reg" and e["op"] == "track":
            last_track[e["a"]] = e["ty"]
        elif e["e"] == "callret" and e.get("ret") and e.get("ret_ty"):
            if e["ret"] in last_track:
                tymap.setdefault(e["ret_ty"], last_track[e["ret"]])
    events, idx_of = [], []
    for i, e in enumerate(raw):
        if e["e"] == "callret":
            continue
        if e["e"] == "callstart":
            e = dict(e, args=[dict(a, ty=tymap.get(a["ty"], "unknown:" + a["ty"])) for a in e["args"]])
        if e["e"] == "call":
            e = {k: e[k] for k in ("e", "name", "ind", "ret", "errset")}
        if e["e"] == "crash":
            e = {"e": "crash"}
        if e["e"] == "reset":
            e = {"e": "reset"}
        events.append(e); idx_of.append(i)
    accepted, matched, res = validate_trace(ctx, "Trace_HandleRegistry", "Trace_HandleRegistry.cfg", events, timeout=2400, heap="8g")
    if matched != len(events):
        sys.stderr.write(res.out[-3000:])
        raise ToolError("trace not consumed: matched %d of %d" % (matched, len(events)))
    verdict = res.printed("VERDICT")[-1]
    drift = 0
    for idx, what in verdict["bad"]:
        ri = idx_of[idx - 1]
        # context: the events of this call
        j = ri
        while j > 0 and raw[j]["e"] not in ("callstart", "reset"):
            j -= 1
        ctxev = raw[j:ri + 1]
        kinds = what if isinstance(what, list) else [what]
        for k in kinds:
            if k == "drift-driver-mirror":
                drift += 1
                continue
            name = next((e["name"] for e in ctxev if "name" in e), "?")
            ctx.violation("%s:%s" % (k, name), "C API handle discipline violated: %s in %s" % (k, name), {"events": ctxev[-12:]})
    if drift:
        ctx.drift_note("HandleRegistry", "%d calls: the driver's own live-handle mirror disagrees with the registry state" % drift)
    seqs = sum(1 for e in raw if e["e"] == "reset")
    ncalls = sum(1 for e in raw if e["e"] == "call")
    ctx.cov["traces_validated_against_impl"] += seqs
    ctx.cov["evaluations"] = ncalls
    ctx.cov["distinct_nontrivial"] = sum(1 for e in raw if e["e"] == "callstart" and any(a["cls"] != "right" for a in e["args"]))
    ctx.cov["rule"] = "%d seeded call sequences x %d calls over 24 exported functions with argument classes right/wrong/freed/NULL/foreign; every event validated by Trace_HandleRegistry; non-trivial = a call with at least one misused handle argument" % (n, calls)
    cs = [e for e in raw if e["e"] == "callstart" and e["args"]][:2]
    for e in cs:
        ctx.sample(e)
