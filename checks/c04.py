"""C04 -- validation state is derived soundly from validation codes (spec: ValidationState)."""
import re, os, json
from lib.vcheck import *


def failure_code_constants():
    """Every status-code constant exported by /repo's validation_status.rs (read at run time so
    that new constants are exercised), minus the codes the statement names as success/tolerated."""
    src = open("/repo/sdk/src/validation_status.rs").read() + open("/repo/sdk/src/validation_results.rs").read()
    codes = set(re.findall(r'pub const [A-Z0-9_]+: &str = "([^"]+)";', src))
    special = {"claimSignature.validated", "claimSignature.insideValidity", "signingCredential.trusted",
               "signingCredential.untrusted"}
    return sorted(c for c in codes if c not in special and not c.startswith("cawg.x509."))


def run(ctx):
    ctx.level = "model_checking"
    ctx.assumptions += [
        "status classes: each class is instantiated with several concrete codes chosen with VERIF_SEED; class Fail draws from every constant in validation_status.rs",
        "the list a status lands in (success/informational/failure) is determined by its kind, as in the public add_status",
    ]
    # 1. MC: invariants + action properties, exhaustive
    r = tlc_expect_ok(tlc("MC_ValidationState", "MC_ValidationState.cfg", workers=6, timeout=900), "MC ValidationState")
    ctx.add_tlc(r)
    cov = r.coverage()
    for act in ("AddActive", "AddDelta"):
        if cov.get(act, (0, 0))[1] == 0:
            raise ToolError("vacuity: action %s never taken" % act)
    # vacuity witness: a Valid state with a tolerated failure present must be reachable
    w = tlc("MC_ValidationState", "MC_ValidationState_wit.cfg", name="c04wit", workers=2, timeout=300, coverage=False)
    if not w.violated:
        raise ToolError("vacuity: witness NoTolValid not reachable")
    # 2. vectors: every reachable state with the predicted verdict
    e = tlc("MC_ValidationState", "MC_ValidationState_emit.cfg", name="c04emit", workers=4, timeout=900, coverage=False)
    tlc_expect_ok(e, "emit")
    vecs = e.printed("VEC")
    if len(vecs) != r.distinct:
        raise ToolError("vector export incomplete: %d vectors for %d states" % (len(vecs), r.distinct))
    # 3. R: replay through the real ValidationResults
    codes_file = ctx.path("fail_codes.txt")
    fc = failure_code_constants()
    if len(fc) < 50:
        raise ToolError("could not extract status-code constants from /repo")
    open(codes_file, "w").write("\n".join(fc))
    k = 2 if ctx.quick else 8
    vin = ctx.path("vectors.ndjson")
    write_ndjson(vin, vecs)
    p = vh(["c04-replay", "--codes", codes_file, "--k", k, "--seed", ctx.seed], stdin=open(vin).read())
    obs = [json.loads(l) for l in p.stdout.splitlines() if l.strip()]
    if len(obs) != len(vecs):
        raise ToolError("replay returned %d results for %d vectors" % (len(obs), len(vecs)))
    nontrivial = 0
    for v, o in zip(vecs, obs):
        if v["present"] and (v["active"] or v["deltas"]):
            nontrivial += 1
        for j, s in enumerate(o["observed"]):
            if s != v["state"]:
                key = "state:%s-as-%s" % (v["state"], s)
                ctx.violation(key, "validation_state() = %s but the statement gives %s" % (s, v["state"]),
                              {"vector": v, "instantiation": o["inst"][j], "observed": s})
    ctx.cov["traces_validated_against_impl"] += len(vecs)
    ctx.cov["evaluations"] = len(vecs) * k
    ctx.cov["distinct_nontrivial"] = nontrivial
    ctx.cov["exhaustive"] = True
    ctx.cov["rule"] = ("every reachable ValidationResults class-state of the spec (9 classes on the active manifest, <=2 deltas over 4 failure classes), "
                       "each replayed with %d seeded concrete instantiations; non-trivial = has an active manifest entry and at least one status" % k)
    ctx.sample({"vector": vecs[len(vecs) // 2], "observed": obs[len(vecs) // 2]})
    ctx.sample({"vector": vecs[-1], "observed": obs[-1]["observed"]})
    # 4. O: code sets produced by real Reader runs, judged by the spec
    p = vh(["c04-observe"])
    recs = [json.loads(l) for l in p.stdout.splitlines() if l.strip()]
    if len(recs) < 10:
        raise ToolError("observe produced only %d reader runs" % len(recs))
    slim = [{"present": x["present"], "active": x["active"], "deltas": x["deltas"], "state": x["state"]} for x in recs]
    verdicts = judge_with_tlc(ctx, "Oracle_ValidationState", "Oracle_ValidationState.cfg", slim)
    for x, v in zip(recs, verdicts):
        if not v["ok"]:
            ctx.violation("reader:%s-as-%s" % (v["expected"], x["state"]),
                          "Reader reports %s for code sets whose state is %s" % (x["state"], v["expected"]), x)
    ctx.cov["traces_validated_against_impl"] += len(recs)
    ctx.cov["reader_runs_judged"] = len(recs)
    ctx.sample({"reader_run": {k2: recs[0][k2] for k2 in ("src", "trust", "state")}, "spec_verdict": verdicts[0]})
    # 5. legacy status-list fallback (Reader deserialised from JSON without validation_results)
    p = vh(["c04-legacy"])
    leg = [json.loads(l) for l in p.stdout.splitlines() if l.strip()]
    for x in leg:
        exp = x["allowed"]
        if x["observed"] not in exp:
            ctx.violation("legacy:%s:%s" % (x["case"], x["observed"]),
                          "legacy status-list fallback reports %s for %s" % (x["observed"], x["case"]), x)
    ctx.cov["legacy_cases"] = len(leg)
