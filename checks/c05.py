"""C05 -- signer trust decisions follow the configured trust policy (spec: TrustPolicy; replay on generated X.509 hierarchies)."""
import json, os, shutil
from lib.vcheck import *
from lib import pkikit as K

DEFAULT_EKUS = "1.3.6.1.5.5.7.3.4\n1.3.6.1.5.5.7.3.36\n1.3.6.1.5.5.7.3.8\n1.3.6.1.5.5.7.3.9\n1.3.6.1.4.1.311.76.59.1.9\n1.3.6.1.4.1.62558.2.1\n"
SERVER_AUTH = "1.3.6.1.4.1.55555.7.1"     # a private EKU: accepted only when the EKU list is extended with it


def build_world(d, keykind):
    """hierarchies per (inter, wrongIssuer, eku): returns dict key -> files"""
    world = {}
    rk, rc = K.selfsigned(d, "root", "VH Root", kind=keykind if keykind != "ed25519" else "ed25519")
    fk, fc = K.selfsigned(d, "fakeroot", "VH Root", kind=keykind)            # same name, other key
    i2k, i2c, _ = K.issue(d, "int2", "VH Int2", rk, rc, kind=keykind, ext=K.CA_EXT, days=3000)
    i1k, i1c, _ = K.issue(d, "int1", "VH Int1", i2k, i2c, kind=keykind, ext=K.CA_EXT, days=2000)
    j1k, j1c, _ = K.issue(d, "int1b", "VH Int1b", rk, rc, kind=keykind, ext=K.CA_EXT, days=2000)     # directly under the root (inter = 1)
    # impostor CAs: same subject names as the nominal issuers, different keys
    f2k, f2c, _ = K.issue(d, "fint1", "VH Int1", fk, fc, kind=keykind, ext=K.CA_EXT, days=2000)
    f1k, f1c, _ = K.issue(d, "fint1b", "VH Int1b", fk, fc, kind=keykind, ext=K.CA_EXT, days=2000)
    for inter in (0, 1, 2):
        for wrong in (False, True):
            for eku in ("accepted", "other"):
                ext = K.LEAF_EXT if eku == "accepted" else K.LEAF_EXT.replace("emailProtection", SERVER_AUTH)
                name = "leaf_%d_%d_%s" % (inter, int(wrong), eku)
                if inter == 0:
                    ck, cc = (fk, fc) if wrong else (rk, rc); inters = []; issuer = rc
                elif inter == 1:
                    ck, cc = (f1k, f1c) if wrong else (j1k, j1c); inters = [j1c]; issuer = j1c
                else:
                    ck, cc = (f2k, f2c) if wrong else (i1k, i1c); inters = [i1c, i2c]; issuer = i1c
                lk, lc, lp8 = K.issue(d, name, "VH Leaf %s" % name, ck, cc, kind=keykind, ext=ext)
                world[(inter, wrong, eku)] = {"leaf": lc, "p8": lp8, "inters": inters, "issuer": issuer}
    return world, rc


def run(ctx):
    ctx.level = "model_checking"
    ctx.assumptions += ["X.509 hierarchies are generated with the openssl CLI (%s): root, two intermediates, impostor CAs with the same names, leaves with emailProtection or serverAuth EKU; key types: EC P-256 (quick) plus RSA-PSS 2048 and Ed25519 (thorough)" % K.OPENSSL,
                        "trust-anchor-only mode is not reachable through Reader settings (only the time-stamp path sets it): covered by C36",
                        "allow list by PEM (quick) and by base64 SHA-256 hash (thorough)"]
    r = tlc_expect_ok(tlc("MC_TrustPolicy", "MC_TrustPolicy.cfg", name="mc_trust", workers=4, timeout=600), "MC TrustPolicy")
    ctx.add_tlc(r)
    vecs = tlc_expect_ok(tlc("MC_TrustPolicy", "MC_TrustPolicy_emit.cfg", name="trust_emit", workers=2, timeout=600, coverage=False), "emit").printed("VEC")
    if len(vecs) != 1248:
        raise ToolError("expected 1248 decisions, got %d" % len(vecs))
    if not any(v["decision"] == "trusted" for v in vecs) or not any(v["decision"] == "untrusted" for v in vecs):
        raise ToolError("vacuity: decisions are not mixed")
    kinds = [("ec256", "es256")] if ctx.quick else [("ec256", "es256"), ("rsa2048", "ps256"), ("ed25519", "ed25519")]
    total = 0
    for keykind, alg in kinds:
        d = ctx.path("pki_" + keykind)
        shutil.rmtree(d, ignore_errors=True); os.makedirs(d)
        try:
            world, rootc = build_world(d, keykind)
        except K.KitError as e:
            raise ToolError("certificate generation failed: %s" % e)
        root_pem = open(rootc).read()
        # group: one signing per (inter, wrong, eku, supplied); one read per configuration
        groups = {}
        for v in vecs:
            groups.setdefault((v["inter"], v["wrongIssuer"], v["eku"], v["supplied"]), []).append(v)
        runs, index = [], []
        for (inter, wrong, eku, supplied), vs in sorted(groups.items(), key=str):
            w = world[(inter, wrong, eku)]
            inters = list(w["inters"])
            if supplied == "missing":
                inters = inters[1:]
            elif supplied == "reordered":
                inters = list(reversed(inters))
            chain = K.cat([w["leaf"]] + inters, os.path.join(d, "chain_%d_%d_%s_%s.pem" % (inter, int(wrong), eku, supplied)))
            reads = []
            for v in vs:
                trust = {}
                if v["anchor"] == "system":
                    trust["trust_anchors"] = root_pem
                elif v["anchor"] == "user":
                    trust["user_anchors"] = root_pem
                elif v["anchor"] == "issuer":
                    trust["trust_anchors"] = open(w["issuer"]).read()
                if v["allow"] != "none":
                    which = w["leaf"] if v["allow"] == "leaf" else w["issuer"]
                    trust["allowed_list"] = open(which).read() if (ctx.quick or keykind == "ec256") else K.cert_hash_b64(which) + "\n"
                if v["ekuConfig"] == "extended":
                    trust["trust_config"] = DEFAULT_EKUS + SERVER_AUTH + "\n"
                reads.append({"name": len(index), "settings": {"trust": trust, "verify": {"verify_trust": bool(v["verifyTrust"])}}})
                index.append(v)
            runs.append({"id": len(runs), "chain": chain, "key": w["p8"], "alg": alg, "sign_settings": {"verify": {"verify_after_sign": False, "verify_trust": False}, "trust": {"trust_config": DEFAULT_EKUS + SERVER_AUTH + "\n"}}, "reads": reads})
        p = vh(["pki-run"], stdin="\n".join(json.dumps(x) for x in runs), timeout=6000)
        outs = [json.loads(l) for l in p.stdout.splitlines() if l.strip()]
        if len(outs) != len(runs):
            raise ToolError("pki-run returned %d results for %d signings" % (len(outs), len(runs)))
        for x, o in zip(runs, outs):
            if o.get("sign") != "ok":
                raise ToolError("could not sign with generated credential %s: %s %s" % (x["chain"], o.get("sign"), o.get("detail")))
            for rd in o["reads"]:
                v = index[rd["name"]]
                total += 1
                read = rd["read"]
                case = {"vector": v, "key": keykind, "read": read}
                if "active" not in read:
                    ctx.violation("read-failed:%s" % (read.get("err") or read.get("settings_err")), "reading under the vector's trust settings failed: %s" % read, case)
                    continue
                codes = {c[1] for c in read["active"]}
                obs = "trusted" if "signingCredential.trusted" in codes else "untrusted" if "signingCredential.untrusted" in codes else "none"
                if "signingCredential.trusted" in codes and "signingCredential.untrusted" in codes:
                    obs = "both"
                if obs != v["decision"]:
                    shape = "inter%d:%s:%s:anchor=%s:allow=%s:eku=%s/%s:wrong=%s" % (v["inter"], v["supplied"], "on" if v["verifyTrust"] else "off", v["anchor"], v["allow"], v["eku"], v["ekuConfig"], v["wrongIssuer"])
                    kind = "trusted-without-basis" if obs == "trusted" else "verdict-differs"
                    if obs == "trusted" and v["eku"] == "other" and v["ekuConfig"] == "default" and not v["wrongIssuer"] and v["anchor"] != "none" and "signingCredential.invalid" in codes:
                        ctx.violation("trusted-code-with-unaccepted-eku", "a credential whose only EKU is not on the accepted list chains to a configured anchor: signingCredential.trusted is reported next to signingCredential.invalid (state %s)" % read.get("state"), case)
                        continue
                    ctx.violation("%s:%s->%s:%s" % (kind, v["decision"], obs, "anchor=%s,allow=%s,eku=%s/%s,wrong=%s,supplied=%s" % (v["anchor"], v["allow"], v["eku"], v["ekuConfig"], v["wrongIssuer"], v["supplied"])),
                                  "policy says %s, the SDK reports %s (%s)" % (v["decision"], obs, shape), case)
                if obs == "trusted" and read.get("state") not in ("Trusted",) and v["eku"] == "accepted":
                    ctx.violation("state-not-trusted", "signingCredential.trusted is reported but validation_state is %s" % read.get("state"), case)
                if obs != "trusted" and read.get("state") == "Trusted":
                    ctx.violation("state-trusted-without-code", "validation_state is Trusted without signingCredential.trusted", case)
    ctx.cov["traces_validated_against_impl"] += total
    ctx.cov["evaluations"] = total
    ctx.cov["distinct_nontrivial"] = sum(1 for v in vecs if v["verifyTrust"])
    ctx.cov["rule"] = "all 1248 decisions of the TrustPolicy table x %d key type(s): 36 signings (hierarchy shape x supplied form) each read under its trust configurations; non-trivial = decisions with trust verification on" % len(kinds)
    ctx.sample({"vector": vecs[0]})
