"""C35 -- results do not depend on stream chunking, and I/O errors are never hidden (spec: Stream, Trace_Stream)."""
import json
from lib.vcheck import *

QUICK_FORMATS = "jpeg,png,gif,webp,tiff,svg,mp4,mov,mp3,flac,wav,avix"


def run(ctx):
    ctx.level = "model_checking"
    ctx.assumptions += ["wrapper streams over in-memory data: chunk mode returns short reads AND short writes of seeded sizes 1..70000; fault mode fails the k-th read/write/seek/flush of one stream with io::ErrorKind::Other, once (stream works afterwards) and sticky (every later call fails too)",
                        "a run's result is compared with the result of the same operation over well-behaved streams: the Reader report with manifest labels renamed by title, UUIDs/instance ids/times/hashes removed, plus all validation codes",
                        "operations: Reader::with_stream, Builder::sign (source and destination wrapped), Builder::add_ingredient_from_stream (+ sign), hash_stream_by_alg; one fixture per format; ed25519",
                        "the call site of a hidden fault is taken from a backtrace captured when the fault is injected (innermost SDK function, or the enclosing probing function when it is one of a fixed list)"]
    # 1. the design: helper loops make chunking invisible and propagate faults; the single-read shape does not
    r = tlc_expect_ok(tlc("Stream", "MC_Stream.cfg" if ctx.quick else "MC_Stream_thorough.cfg", name="mc_stream", workers=8, timeout=1500), "MC Stream")
    ctx.add_tlc(r)
    cov = r.coverage()
    for a in ("DoReadExact", "DoReadToEnd", "DoWriteAll", "DoSeek", "DoFlush", "Fail"):
        if cov.get(a, (0, 0))[1] == 0:
            raise ToolError("vacuity: %s never taken" % a)
    for cfg, inv in (("MC_Stream_single.cfg", "ChunkingInvisible"), ("MC_Stream_w1.cfg", "W_ShortOk"), ("MC_Stream_w2.cfg", "W_FaultErr")):
        w = tlc("Stream", cfg, name="mc_stream_" + inv, workers=2, timeout=300, coverage=False)
        if not (w.violated and ("Invariant %s is violated" % inv) in w.out):
            raise ToolError("expected %s to be violated under %s (teeth / vacuity witness)" % (inv, cfg))
    # 2. the implementation
    args = ["c35-run", "--seed", ctx.seed] + (["--formats", QUICK_FORMATS, "--cap", 40, "--shorts", 6] if ctx.quick else ["--cap", 400, "--shorts", 60])
    p = vh(args, timeout=20000)
    recs = [json.loads(l) for l in p.stdout.splitlines() if l.strip()]
    runs = [x for x in recs if x["e"] == "run"]
    for x in recs:
        if x["e"] == "setup" and x["format"] != "pdf":      # the PDF handler cannot write (read-only format): nothing to drive
            ctx.violation("setup:%s" % x["format"], "could not sign the %s fixture: %s" % (x["format"], x["error"]), x)
        if x["e"] == "base" and x["result"] != "ok":
            ctx.violation("baseline:%s:%s" % (x["op"], x["format"]), "operation fails with well-behaved streams: %s" % x.get("detail"), x)
    if len(runs) < 500:
        raise ToolError("only %d runs recorded" % len(runs))
    unstable = {(x["format"], x["op"]) for x in runs if not x["stable"]}
    if unstable:
        raise ToolError("baseline not repeatable for %s: the comparison would be meaningless" % sorted(unstable))
    events = [{"e": "run", "mode": x["mode"], "reached": bool(x.get("reached", False)), "shorted": x.get("shorted", 0), "result": x["result"], "same": bool(x["same"])} for x in runs]
    accepted, matched, res = validate_trace(ctx, "Trace_Stream", "Trace_Stream.cfg", events, timeout=2400, heap="8g")
    if matched != len(events):
        sys.stderr.write(res.out[-3000:])
        raise ToolError("trace not consumed: %d of %d" % (matched, len(events)))
    bad = res.printed("VERDICT")[-1]["bad"]
    for idx, classes in bad:
        x = runs[idx - 1]
        case = {k: x.get(k) for k in ("format", "op", "mode", "stream", "kind", "k", "of", "sseed", "result", "same", "state", "detail", "site", "after")}
        for c in classes:
            if c.startswith("fault-hidden"):
                outcome = "same" if x["same"] else "differs:%s" % x.get("state")
                ctx.violation("fault-hidden:%s:%s:%s:%s" % (x.get("catcher", "?"), outcome, x["op"], x["format"]),
                              "the %d-th %s on stream %d failed (%s) but %s on %s returned Ok (%s)" % (x["k"], x["kind"], x["stream"], x["mode"], x["op"], x["format"], outcome), case)
            elif c == "chunking-visible":
                ctx.violation("chunking-visible:%s:%s" % (x["op"], x["format"]), "%s on %s gives a different result when the stream returns short reads/writes" % (x["op"], x["format"]), case)
            elif c == "error-without-fault":
                ctx.violation("chunking-error:%s:%s" % (x["op"], x["format"]), "%s on %s fails (%s) when the stream returns short reads/writes" % (x["op"], x["format"], x.get("detail")), case)
            else:
                ctx.violation("%s:%s:%s" % (c, x["op"], x["format"]), "%s in %s on %s (%s)" % (c, x["op"], x["format"], x.get("detail")), case)
    notreached = sum(1 for x in runs if x["mode"] != "short" and not x["reached"])
    ctx.cov["traces_validated_against_impl"] += len(runs)
    ctx.cov["evaluations"] = len(runs)
    ctx.cov["distinct_nontrivial"] = sum(1 for x in runs if (x["mode"] == "short" and x.get("shorted", 0) > 0) or (x["mode"] != "short" and x["reached"]))
    ctx.cov["faults_injected"] = sum(1 for x in runs if x["mode"] != "short" and x["reached"])
    ctx.cov["faults_not_reached"] = notreached
    ctx.cov["chunked_runs"] = sum(1 for x in runs if x["mode"] == "short")
    ctx.cov["rule"] = ("per format x operation: a baseline run counts the calls per stream and kind; chunk mode: %s seeded runs; fault mode: every k up to the cap (first/last three and seeded positions beyond it) "
                       "per stream x {read, write, seek, flush} x {once, sticky}; non-trivial = a run in which a short return or a fault actually happened" % ("6" if ctx.quick else "60"))
    ctx.sample({k: runs[0].get(k) for k in ("format", "op", "mode", "sseed", "result", "same", "shorted")})
    f = next((x for x in runs if x["mode"] == "fault" and x["reached"]), None)
    if f:
        ctx.sample({k: f.get(k) for k in ("format", "op", "mode", "stream", "kind", "k", "of", "result", "catcher")})
