"""C27 -- redirects never reach internal addresses or leak credentials (spec: HttpPolicy)."""
from lib.vcheck import *
from checks.httpcommon import pipeline, case_of


def run(ctx):
    ctx.level = "model_checking"
    ctx.assumptions += ["internal address classes are concretised in dotted, single-decimal, octal, hex, short, upper-case, trailing-dot, bracketed IPv6 and IPv4-mapped notations; "
                        "IPv4-compatible and NAT64 forms are outside the statement", "the harness' own host classifier (checked against the class table at start-up) projects observed URIs to classes"]
    meta, verdicts = pipeline(ctx, ["redirect", "chain"] if ctx.quick else ["redirect", "chain", "allow"])
    for (v, run), j in zip(meta, verdicts):
        if run["result"].startswith("panic"):
            ctx.violation("panic", "policy stack panicked", case_of(v, run))
        for k in j["internal"]:
            ctx.violation("internal-hop:%s" % run["recorded"][k - 1]["host"], "redirect followed to internal host %s" % run["recorded"][k - 1]["uri"], case_of(v, run))
        if j["toomany"]:
            ctx.violation("more-than-ten", "more than ten redirects were followed (%d requests)" % len(run["recorded"]), case_of(v, run))
        if j["disabled"]:
            ctx.violation("followed-when-disabled", "a redirect was followed although redirects are disabled", case_of(v, run))
        for k in j["creds"]:
            ctx.violation("credential-forwarded", "sensitive header forwarded to redirect target %s: %s" % (run["recorded"][k - 1]["uri"], run["recorded"][k - 1]["headers"]), case_of(v, run))
