"""C32 -- c2patool never clobbers outputs and its signed files validate (spec: CliFs)."""
import json, os, shutil, subprocess, hashlib, tempfile
from lib.vcheck import *

CLI_TARGET = os.path.join(BUILD, "cli_target")
CLI = os.path.join(CLI_TARGET, "debug", "c2patool")


def build_cli():
    os.makedirs(BUILD, exist_ok=True)
    env = dict(os.environ, CARGO_NET_OFFLINE="true", CARGO_TARGET_DIR=CLI_TARGET)
    env.pop("RUSTFLAGS", None)
    p = subprocess.run(["cargo", "build", "--offline", "-q", "-p", "c2patool"], cwd="/repo", env=env, stdout=subprocess.PIPE, stderr=subprocess.STDOUT, text=True)
    if p.returncode != 0:
        sys.stderr.write(p.stdout[-4000:])
        raise ToolError("c2patool build failed")


def snap(root):
    out = {}
    for d, dirs, files in os.walk(root):
        for n in dirs:
            out[os.path.relpath(os.path.join(d, n), root)] = "dir"
        for n in files:
            p = os.path.join(d, n)
            out[os.path.relpath(p, root)] = "file:" + hashlib.sha256(open(p, "rb").read()).hexdigest()[:16]
    return out


FORMATS = {"jpg": "no_manifest.jpg", "png": "libpng-test.png", "mp4": "video1_no_manifest.mp4", "wav": "sample1.wav"}


def run(ctx):
    ctx.level = "model_checking"
    ctx.assumptions += ["entries are abstracted to absent / file / directory-with-content; signing uses the CLI's sample ES256 key and a manifest without a time-stamp authority",
                        "modes covered: signing (-m -o [--sidecar] [-f], output = input) and report-folder (-o dir [-f]); fragment / ingredient / trust sub-commands are not driven"]
    r = tlc_expect_ok(tlc("MC_CliFs", "MC_CliFs.cfg", workers=2, timeout=300), "MC CliFs")
    ctx.add_tlc(r)
    e = tlc_expect_ok(tlc("MC_CliFs", "MC_CliFs_emit.cfg", name="c32emit", workers=2, timeout=300, coverage=False), "emit")
    vecs = e.printed("VEC")
    if len(vecs) < 40:
        raise ToolError("too few vectors: %d" % len(vecs))
    build_cli()
    fmts = ["jpg"] if ctx.quick else list(FORMATS)
    work = tempfile.mkdtemp(prefix="c32_", dir=ctx.work)
    man = {"alg": "es256", "private_key": "/repo/cli/sample/es256_private.key", "sign_cert": "/repo/cli/sample/es256_certs.pem",
           "claim_generator_info": [{"name": "vh", "version": "1"}], "title": "c32",
           "assertions": [{"label": "org.vh.test", "data": {"k": 1}}]}
    from concurrent.futures import ThreadPoolExecutor
    jobs = [(fmt, v) for fmt in fmts for v in vecs]

    def one(job_i):
        idx, (fmt, v) = job_i
        res = {"violations": [], "drift": 0, "sample": None}
        src = os.path.join("/repo/sdk/tests/fixtures", FORMATS[fmt])
        d = os.path.join(work, "case%d" % idx)
        os.makedirs(d)
        ext = fmt
        inp = os.path.join(d, "in." + ext)
        shutil.copy(src, inp)
        mpath = os.path.join(d, "manifest.json")
        json.dump(man, open(mpath, "w"))
        if v["mode"] == "sign":
            outp = inp if v["sameAsInput"] else os.path.join(d, "out", "o." + ext)
            side = os.path.splitext(outp)[0] + ".c2pa"
            if not v["sameAsInput"]:
                os.makedirs(os.path.join(d, "out"))
                if v["output"] == "file":
                    shutil.copy(src, outp)
                elif v["output"] == "dir":
                    os.makedirs(outp); open(os.path.join(outp, "keep.txt"), "w").write("keep")
            if v["sidecar"] == "file":
                open(side, "w").write("old sidecar")
            elif v["sidecar"] == "dir":
                os.makedirs(side); open(os.path.join(side, "keep.txt"), "w").write("keep")
            cmd = [CLI, inp, "-m", mpath, "-o", outp] + (["-f"] if v["force"] else []) + (["--sidecar"] if v["sidecarFlag"] else []) + (["-r", "https://manifests.example/m.c2pa"] if v["remote"] else [])
        else:
            signed = os.path.join(d, "signed." + ext)
            p0 = subprocess.run([CLI, inp, "-m", mpath, "-o", signed], stdout=subprocess.PIPE, stderr=subprocess.PIPE, text=True, timeout=300)
            if p0.returncode != 0:
                res["violations"].append(("sign-failed:%s" % fmt, "plain signing failed: %s" % p0.stderr[-300:], {"format": fmt}))
                return res
            outp = os.path.join(d, "report")
            side = outp + ".c2pa"
            if v["output"] == "file":
                open(outp, "w").write("old file")
            elif v["output"] == "dir":
                os.makedirs(outp); open(os.path.join(outp, "keep.txt"), "w").write("keep")
            cmd = [CLI, signed, "-o", outp] + (["-f"] if v["force"] else [])
        before = snap(d)
        p = subprocess.run(cmd, stdout=subprocess.PIPE, stderr=subprocess.PIPE, text=True, timeout=300)
        after = snap(d)
        rel = lambda q: os.path.relpath(q, d)
        changed = sorted(k for k in before if after.get(k) != before[k])
        case = {"format": fmt, "vector": v, "cmd": [rel(c) if c.startswith(d) else c for c in cmd], "exit": p.returncode,
                "stderr": p.stderr[-300:], "changed_or_removed": changed}
        if p.returncode < 0 or "panicked at" in p.stderr:
            res["violations"].append(("crash", "c2patool crashed", case))
        pre_changed = [k for k in changed if not k.startswith("manifest.json")]
        if not v["force"] and pre_changed:
            which = "sidecar" if any(k.endswith(".c2pa") or ".c2pa/" in k for k in pre_changed) else ("input" if rel(inp) in pre_changed else "output")
            res["violations"].append(("clobber:%s:%s" % (v["mode"], which), "without -f c2patool changed pre-existing %s" % pre_changed, case))
        if v["mode"] == "sign" and p.returncode == 0:
            rr = vh(["read-file", outp, side], check=False) if v["sidecarFlag"] else vh(["read-file", outp], check=False)
            try:
                st = json.loads(rr.stdout.strip().splitlines()[-1])
            except Exception:
                st = {"state": "unreadable"}
            case["read"] = st
            if st.get("state") not in ("Valid", "Trusted"):
                res["violations"].append(("signed-not-valid:%s" % ("sidecar" if v["sidecarFlag"] else "embedded"), "c2patool exited 0 but the output reads %s" % st, case))
        if (p.returncode == 0) != (v["exit"] == "ok"):
            res["drift"] = 1
        if idx % 37 == 1:
            res["sample"] = case
        shutil.rmtree(d, ignore_errors=True)
        return res

    drift = 0
    n = len(jobs)
    with ThreadPoolExecutor(max_workers=int(os.environ.get("VERIF_JOBS", "8"))) as ex:
        for res in ex.map(one, enumerate(jobs)):
            for key, what, case in res["violations"]:
                ctx.violation(key, what, case)
            drift += res["drift"]
            if res["sample"]:
                ctx.sample(res["sample"], cap=4)
    if drift:
        ctx.drift_note("CliFs", "%d invocations: exit status differs from the mirror" % drift)
    ctx.cov["traces_validated_against_impl"] += n
    ctx.cov["evaluations"] = n
    ctx.cov["distinct_nontrivial"] = sum(1 for v in vecs if v["output"] != "absent" or v["sidecar"] != "absent") * len(fmts)
    ctx.cov["exhaustive"] = True
    ctx.cov["rule"] = "every terminal behaviour of CliFs (mode x force x sidecar flag x remote flag x output=input x pre-existing output kind x pre-existing sidecar kind) x formats %s; non-trivial = something pre-exists at the output or sidecar path" % ",".join(fmts)
