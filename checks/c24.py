"""C24 -- contexts are isolated and safe to share across threads (spec: ContextIsolation, trace validation)."""
import json
from lib.vcheck import *


def run(ctx):
    ctx.level = "model_checking"
    ctx.assumptions += ["events are ordered by one mutex-protected log (sequence number = position); start/finish are logged around the call, the callback event inside the progress callback, cancel as begin/end around Context::cancel()",
                        "operations: Builder::sign (JPEG, PNG) and Reader::with_stream (two signed fixtures) on Arc<Context> shared by 1..16 threads, 1..3 contexts, up to 2 cancels per scenario at seeded delays",
                        "thread-local legacy settings are observed through Settings::from_string(\"{}\") (an empty overlay returns the thread's current values)"]
    r = tlc_expect_ok(tlc("ContextIsolation", "MC_ContextIsolation.cfg" if ctx.quick else "MC_ContextIsolation_thorough.cfg", name="mc_ctxiso", workers=8, timeout=1500), "MC ContextIsolation")
    ctx.add_tlc(r)
    if not ctx.quick:
        # unbounded: TLAPS proves an inductive invariant implying Isolation / CancelWins / AtMostOneCallbackAfterCancel
        nob = tlapm_prove("ContextIsolation_proofs", ["ContextIsolation"], threads=12)
        ctx.assumptions.append("thorough tier: tlapm discharged %d proof obligations of ContextIsolation_proofs (inductive invariant implying Isolation, CancelWins, AtMostOneCallbackAfterCancel, LateStartNoSecondCallback for any number of threads, contexts and checkpoints)" % nob)
    cov = r.coverage()
    for a in ("Start", "Callback", "FlagRead", "Finish", "Cancel", "LegacySet"):
        if cov.get(a, (0, 0))[1] == 0:
            raise ToolError("vacuity: %s never taken" % a)
    for w in ("W_CancelledOp", "W_CallbackAfter", "W_SurvivesOtherCancel"):
        x = tlc("ContextIsolation", "MC_ContextIsolation_%s.cfg" % w, name="mc_ctxiso_" + w, workers=4, timeout=300, coverage=False)
        if not (x.violated and ("Invariant %s is violated" % w) in x.out):
            raise ToolError("vacuity witness %s not reachable" % w)
    n = 120 if ctx.quick else 3000
    p = vh(["c24-run", "--seed", ctx.seed, "--n", n], timeout=6000)
    recs = [json.loads(l) for l in p.stdout.splitlines() if l.strip()]
    base = recs[0]
    if any("err" in x for x in base["results"]):
        raise ToolError("sequential baseline failed: %s" % base)
    events, owner = [], []
    stats = {"cancelled": 0, "sequential": 0, "callbacks": 0, "cancels": 0, "threads_max": 0}
    for sc in recs[1:]:
        events.append({"e": "reset"}); owner.append((sc["id"], None))
        stats["threads_max"] = max(stats["threads_max"], sc["threads"])
        for e in sc["events"]:
            k = e["e"]
            if k == "cb":
                stats["callbacks"] += 1
                if e["t"] > 15:
                    continue
                events.append({"e": "cb", "t": e["t"], "c": e["c"]})
            elif k == "start":
                events.append({"e": "start", "t": e["t"], "c": e["c"]})
            elif k == "finish":
                stats["cancelled" if e["res"] == "cancelled" else "sequential" if e["res"] == "sequential" else "other"] = stats.get("cancelled" if e["res"] == "cancelled" else "sequential" if e["res"] == "sequential" else "other", 0) + 1
                events.append({"e": "finish", "t": e["t"], "c": e["c"], "res": e["res"] if e["res"] in ("cancelled", "sequential", "differs") else "error"})
            elif k in ("cancel_begin", "cancel_end"):
                stats["cancels"] += 1 if k == "cancel_end" else 0
                events.append({"e": k, "c": e["c"]})
            elif k == "build":
                events.append({"e": "build", "t": e["t"], "same": bool(e["same"])})
            elif k == "legacy":
                events.append({"e": "legacy", "t": e["t"], "v": bool(e["v"]), "ok": bool(e["ok"])})
            elif k == "tls":
                tv = e["snap"].get("verify_trust")
                events.append({"e": "tls", "t": e["t"], "trust": bool(tv) if tv is not None else False})
            else:
                continue
            owner.append((sc["id"], e))
    accepted, matched, res = validate_trace(ctx, "Trace_ContextIsolation", "Trace_ContextIsolation.cfg", events, timeout=2400, heap="8g")
    if matched != len(events):
        sys.stderr.write(res.out[-3000:])
        raise ToolError("trace not consumed: %d of %d" % (matched, len(events)))
    for idx, classes in res.printed("VERDICT")[-1]["bad"]:
        sid, e = owner[idx - 1]
        for c in classes:
            ctx.violation(c, "scenario %s: %s at event %s" % (sid, c, json.dumps(e)), {"scenario": sid, "event": e, "seed": ctx.seed})
    if (stats["cancelled"] == 0 or stats["cancels"] == 0) and not ctx.violations:
        raise ToolError("vacuity: no operation was cancelled in %d scenarios" % n)
    ctx.cov["traces_validated_against_impl"] += len(recs) - 1
    ctx.cov["evaluations"] = len(events)
    ctx.cov["distinct_nontrivial"] = stats["cancelled"]
    ctx.cov.update(stats)
    ctx.cov["rule"] = "%d seeded scenarios (1,2,3,4,8,16 threads; 1-3 contexts; 2-5 steps per thread: operation / settings build / legacy set); non-trivial = operations that ended Cancelled" % n
    ctx.sample({"scenario": recs[1]["id"], "threads": recs[1]["threads"], "contexts": recs[1]["contexts"], "first_events": recs[1]["events"][:6]})
