"""C29 -- resource files are confined to the manifest directory (spec: ResourceFs)."""
import json
from lib.vcheck import *


def run(ctx):
    ctx.level = "model_checking"
    ctx.assumptions += ["one fixed directory tree (same table in spec/ResourceFs.tla and harness/src/c29.rs) with inside/outside/chained/dangling/upward symlinks; "
                        "identifiers = up to 3 components from a traversal alphabet incl. '..', '.', absolute, backslash and percent-encoded forms",
                        "operations: ResourceStore add/get/exists/write_stream/path_for_id with base = root or root/sub and resource_root = root; archive import and Reader::to_folder are not driven yet"]
    r = tlc_expect_ok(tlc("MC_ResourceFs", "MC_ResourceFs.cfg", workers=8, timeout=900, coverage=False), "MC ResourceFs")
    ctx.add_tlc(r)
    e = tlc_expect_ok(tlc("MC_ResourceFs", "MC_ResourceFs_emit.cfg", name="c29emit", workers=4, timeout=900, coverage=False), "emit")
    vecs = e.printed("VEC")
    if len(vecs) != r.distinct:
        raise ToolError("vector export incomplete: %d of %d" % (len(vecs), r.distinct))
    if ctx.quick:
        hot = [v for v in vecs if v["escapes"] or v["link"] or len(v["id"]) == 1]
        rest = [v for v in vecs if not (v["escapes"] or v["link"] or len(v["id"]) == 1)]
        ctx.rng.shuffle(rest)
        ctx.rng.shuffle(hot)
        vecs = hot[:7000] + rest[:1500]
    p = vh(["c29-replay"], stdin="\n".join(json.dumps({"op": v["op"], "base": v["base"], "id": v["id"]}) for v in vecs), timeout=3000)
    recs = [json.loads(l) for l in p.stdout.splitlines() if l.strip()]
    if len(recs) != len(vecs):
        raise ToolError("replay returned %d of %d" % (len(recs), len(vecs)))
    slim = [{"op": x["op"], "base": x["base"], "id": x["id"], "result": x["result"], "content": x["content"], "touched": x["touched"]} for x in recs]
    verdicts = judge_with_tlc(ctx, "Oracle_ResourceFs", "Oracle_ResourceFs.cfg", slim, chunk=10000, timeout=1500)
    for x, v in zip(recs, verdicts):
        case = {k: x[k] for k in ("op", "base", "id", "concrete", "result", "raw_content", "touched", "path")}
        via = "symlink" if any(c.startswith("link") or c in ("chain", "dangling", "up_out") for c in x["id"]) else "lexical"
        if x["result"].startswith("panic"):
            ctx.violation("panic:%s" % x["op"], "resource operation panicked", case)
        if not v["read"]:
            ctx.violation("read-outside:%s:%s" % (x["op"], via), "%s returned the bytes of a file outside the manifest root" % x["op"], case)
        if not v["write"]:
            ctx.violation("write-outside:%s:%s" % (x["op"], via), "%s created or modified %s outside the manifest root" % (x["op"], ["/".join(t) for t in x["touched"]]), case)
        if not v["exists"]:
            ctx.violation("exists-leak:%s" % via, "exists() revealed an entry whose real location is outside the manifest root", case)
        if not v["path"]:
            ctx.violation("path-outside:%s" % via, "path_for_id returned a path designating an existing entry outside the manifest root", case)
    ctx.cov["traces_validated_against_impl"] += len(recs)
    ctx.cov["evaluations"] = len(recs)
    ctx.cov["distinct_nontrivial"] = sum(1 for v in verdicts if v["escapes"])
    ctx.cov["exhaustive"] = not ctx.quick
    ctx.cov["rule"] = "5 operations x 2 base directories x 2841 identifiers (<=3 components); quick: all escaping / symlink / single-component cases (capped) + a seeded sample; non-trivial = the identifier's real location leaves the root"
    esc = [x for x, v in zip(recs, verdicts) if v["escapes"]]
    ctx.sample({k: esc[0][k] for k in ("op", "base", "id", "result", "touched")})
    ctx.sample({k: recs[0][k] for k in ("op", "base", "id", "result", "raw_content")})
