"""C19 -- ingredient graph validation terminates and rejects malformed graphs (spec: IngredientGraph; replay of TLC graphs)."""
import json, subprocess, time
from lib.vcheck import *

IDENT = [[], [1], [1, 2], [1, 2, 3]]


def big(ctx, n, mode, budget):
    t0 = time.time()
    try:
        p = subprocess.run([VH, "c19-big", "--n", str(n), "--mode", mode, "--seed", str(ctx.seed)], capture_output=True, text=True, timeout=budget)
    except subprocess.TimeoutExpired:
        ctx.violation("hang:%s:%d" % (mode, n), "building / reading a %s graph of %d manifests did not finish within %d s" % (mode, n, budget), {"n": n, "mode": mode})
        return []
    recs = [json.loads(l) for l in p.stdout.splitlines() if l.strip().startswith("{")]
    if not recs or recs[-1].get("e") != "end":
        ctx.violation("crash:%s:%d" % (mode, n), "the process reading a %s graph of %d manifests died (exit %s): %s" % (mode, n, p.returncode, p.stderr[-300:]), {"n": n, "mode": mode, "last": recs[-3:]})
    return recs


def run(ctx):
    ctx.level = "model_checking"
    ctx.assumptions += ["graphs are produced from really signed stores by retargeting ingredient references in place (all manifest labels have equal length): staircase family on 4 manifests (manifest i has i-1 references, each to any manifest or to a label that is not in the store): 15 625 graphs; retargeting breaks the hashes, so only the original graph can be Valid -- what is tested is termination, the error class and that nothing malformed is Valid",
                        "long chains / large graphs are built by repeated signing (each new asset has the previous one as parent, random mode adds a second earlier ingredient) and read in a child process with a time budget"]
    for cfg in ("MC_IngredientGraph.cfg", "MC_IngredientGraph_stair.cfg"):
        r = tlc_expect_ok(tlc("MC_IngredientGraph", cfg, name="mc_" + cfg[:-4], workers=8, timeout=900), cfg)
        ctx.add_tlc(r)
    for w in ("W_Cycle", "W_Deep", "W_Shared"):
        x = tlc("MC_IngredientGraph", "MC_IngredientGraph_%s.cfg" % w, name="mc_ig_" + w, workers=4, timeout=300, coverage=False)
        if not (x.violated and w in x.out):
            raise ToolError("vacuity witness %s not reachable" % w)
    vecs = tlc_expect_ok(tlc("MC_IngredientGraph", "MC_IngredientGraph_emit.cfg", name="ig_emit", workers=4, timeout=900, coverage=False), "emit").printed("VEC")
    if len(vecs) != 15625:
        raise ToolError("expected 15625 graphs, got %d" % len(vecs))
    ident = [v for v in vecs if v["edges"] == IDENT]
    rest = [v for v in vecs if v["edges"] != IDENT]
    ctx.rng.shuffle(rest)
    sample = ident + (rest[:600] if ctx.quick else rest)
    for i, v in enumerate(sample):
        v["id"] = i
    p = vh(["c19-replay"], stdin="\n".join(json.dumps({"id": v["id"], "edges": v["edges"]}) for v in sample), timeout=20000)
    outs = [json.loads(l) for l in p.stdout.splitlines() if l.strip()]
    base, outs = outs[0], outs[1:]
    if base["read"].get("state") not in ("Valid", "Trusted") or not base["same_len"] or base["slots"] != [0, 1, 2, 3]:
        raise ToolError("staircase store is not as expected: %s" % base)
    if len(outs) != len(sample):
        raise ToolError("replay returned %d results for %d graphs" % (len(outs), len(sample)))
    maxms = 0
    for v, o in zip(sample, outs):
        rd = o["read"]
        maxms = max(maxms, rd.get("ms", 0))
        case = {"edges": v["edges"], "model": {k: v[k] for k in ("verdict", "cyclic", "dangling", "deep")}, "read": rd}
        if "panic" in rd:
            ctx.violation("panic", "reading a crafted graph panicked: %s" % rd["panic"], case)
            continue
        accepted = rd.get("state") in ("Valid", "Trusted")
        if v["edges"] == IDENT:
            if not accepted:
                ctx.violation("original-graph-not-valid", "the unmodified staircase store is not Valid: %s" % rd, case)
        elif accepted:
            kind = "cyclic" if v["cyclic"] else "dangling" if v["dangling"] else "retargeted"
            ctx.violation("malformed-graph-valid:%s" % kind, "a %s ingredient graph is reported %s" % (kind, rd.get("state")), case)
        if rd.get("ms", 0) > 5000:
            ctx.violation("slow:4-manifests", "reading a 4-manifest graph took %d ms" % rd["ms"], case)
    # chains around nothing (quick) / around the depth limit (thorough), and large random graphs
    plans = [(40, "random", 300), (200, "shortcut", 900)] if ctx.quick else [(206, "chain", 1500), (300, "random", 2400), (200, "shortcut", 900)]
    bigstats = []
    for n, mode, budget in plans:
        recs = big(ctx, n, mode, budget)
        for r in recs:
            if r["e"] == "built":
                if r["depth"] <= 150 and r["state"] != "Trusted" and mode != "shortcut":
                    ctx.violation("chain-not-valid:%d" % r["depth"], "a legitimately built chain of %d manifests is reported %s" % (r["depth"], r["state"]), r)
                if r["depth"] >= 205 and mode == "chain" and r["state"] in ("Valid", "Trusted"):
                    ctx.violation("over-deep-chain-valid", "a chain of %d manifests (limit 200) is reported %s" % (r["depth"], r["state"]), r)
            if r["e"] == "shortcut":
                bigstats.append({"manifests": r["chain"] + 1, "kind": "shortcut", "result": r["state"]})
                if r["state"] in ("Valid", "Trusted"):
                    ctx.violation("over-deep-chain-valid:shortcut", "a root whose first ingredient is the far end of a %d-manifest chain and whose second is its near end (the far end is met again %d levels down) is reported %s" % (r["chain"], r["chain"], r["state"]), r)
            if r["e"] == "read":
                rd = r["read"]
                bigstats.append({"manifests": r["manifests"], "kind": r["kind"], "ms": rd.get("ms"), "result": rd.get("state") or rd.get("err") or "panic"})
                if "panic" in rd:
                    ctx.violation("panic:big", "reading a %d-manifest graph panicked: %s" % (r["manifests"], rd["panic"]), r)
                if rd.get("ms", 0) > 60000:
                    ctx.violation("slow:%d-manifests" % r["manifests"], "reading a %d-manifest graph took %d ms" % (r["manifests"], rd["ms"]), r)
                if r["kind"] == "random" and rd.get("state") in ("Valid", "Trusted"):
                    ctx.violation("malformed-graph-valid:random", "a randomly retargeted graph of %d manifests is reported %s" % (r["manifests"], rd.get("state")), r)
    ctx.cov["traces_validated_against_impl"] += len(sample) + len(bigstats)
    ctx.cov["evaluations"] = len(sample)
    ctx.cov["distinct_nontrivial"] = sum(1 for v in sample if v["cyclic"] or v["dangling"])
    ctx.cov["max_read_ms_4_manifests"] = maxms
    ctx.cov["big"] = bigstats
    ctx.cov["rule"] = "staircase graphs on 4 manifests: %d of 15 625 (thorough: all); large: %s; non-trivial = cyclic or dangling graphs" % (len(sample), plans)
    ctx.sample({"edges": sample[1]["edges"], "model": sample[1]["verdict"], "read": outs[1]["read"]})
